#!/venv/bin/python
"""In-process debug driver: tools/dbg.py C01 [n_models] [seed] -> prints violation keys + first witnesses."""
import sys, json, collections
sys.path.insert(0, "/verif")
from vf import core
prop = sys.argv[1]
tier = sys.argv[2] if len(sys.argv) > 2 else "quick"
seed = int(sys.argv[3]) if len(sys.argv) > 3 else 0
budget = float(sys.argv[4]) if len(sys.argv) > 4 else 10
mod = core.load_prop(prop)
ctx = core.ShardCtx(prop, tier, seed, 0, 64, budget)
mod.run_shard(ctx)
r = ctx.result()
print("evaluations", r["evaluations"], "distinct", r["n_fingerprints"], "wall", r["wall_s"])
print("dropped", r["dropped"]); print("hooks", r["hooks"])
for k, n in sorted(r["viol_counts"].items(), key=lambda x: -x[1]):
    print(f"{n:6d}  {k}")
seen = set()
for v in r["violations"]:
    if v["key"] in seen: continue
    seen.add(v["key"])
    print("-----", v["key"]); print(v["summary"][:int(__import__("os").environ.get("DBG_W","700"))])
    src = v["witness"].get("source") if isinstance(v["witness"], dict) else None
    if src and "--src" in sys.argv: print(src[src.find("@dataclass"):][:2500])
for i in r["inconclusive"]: print("INCONCLUSIVE", i)
