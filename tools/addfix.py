#!/usr/bin/env python3
"""tools/addfix.py <prop> <key-suffix> <commit> <summary> [witness]  - append a `fixed` entry to known_findings.json"""
import json, sys
p = "/verif/known_findings.json"
d = json.load(open(p))
L = d["findings"] if isinstance(d, dict) else d
prop, key, commit, summary = sys.argv[1:5]
witness = sys.argv[5] if len(sys.argv) > 5 else ""
full = f"{prop}/{key}"
if any(e.get("key") == full for e in L):
    sys.exit(f"{full} exists")
L.append({"property": prop, "key": full, "status": "fixed", "commit": commit, "line": f"fixed: property={prop} {commit} {summary}", "summary": summary, "witness": witness})
json.dump(d, open(p, "w"), indent=1, ensure_ascii=False)
print("added", full)
