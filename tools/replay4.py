#!/venv/bin/python
"""tools/replay4.py <replay.json>: re-run a C01-style witness over all writer x handler pairs, print xml around."""
import sys, json
sys.path.insert(0, "/verif")
from vf import bindcase as bc, ir
from vf.xmlkit import deep_eq
w = json.load(open(sys.argv[1]))["witness"]
model, loaded, obj = bc.from_witness(w)
for wr in bc.WRITERS:
    xml = bc.render(loaded, obj, w["cfg"], wr)
    for h in bc.HANDLERS:
        try:
            back = bc.parse_strict(xml, type(obj), h)
            print(wr, h, deep_eq(obj, back))
        except Exception as e:
            print(wr, h, "EXC", type(e).__name__, str(e)[:200])
    if "--xml" in sys.argv: print(xml)
