#!/usr/bin/env python3
"""Regenerates MANIFEST.json from the table below (keeps it schema-valid at all times)."""
import json
import subprocess
import sys
from pathlib import Path

ROOT = Path(__file__).resolve().parent.parent
ALL = [f"C{i:02d}" for i in range(1, 20)]

CHECKS = {
    "C06": dict(
        level="exploration",
        text="Runtime monitoring of the real XmlDate/XmlTime/XmlDateTime/XmlDuration/XmlPeriod entry points against an independent XSD lexical/timeline oracle over bounded-exhaustive calendar tables and seeded random/adversarial values; held on the executions produced, not a proof.",
        note="Trusted: vf/lexical.py (own transcription of XSD 1.1 Part 2 grammars, integer proleptic-Gregorian timeline), CPython int/Fraction/datetime. Over-acceptance only judged for well-shaped strings denoting no real date/time.",
        technique="runtime monitoring: reference-model oracle at the API boundary + invariant hooks on DateTimeParser/validate_*; bounded-exhaustive tables + random/adversarial pairs",
        ref="DESIGN.md §5 C06",
    ),
}

CHECKS["C05"] = dict(
    level="exploration",
    text="Runtime monitoring of the real converter (serialize/deserialize/sort_types) against an independent XSD lexical oracle: every produced string must be a valid lexical form denoting the value and convert back; every generated valid lexical variant must be accepted with the XSD value; candidate lists follow the documented priority. Held on the executions produced.",
    note="Trusted: vf/lexical.py grammars; CPython float()/Decimal()/int() for the value of a grammar-accepted string; the order list transcribed from docs/models/types.md. Over-acceptance is not judged.",
    technique="runtime monitoring: reference-model oracle at the converter boundary + contract hooks on ConverterFactory.serialize/deserialize; edge-case pools + seeded random values and lexical variants",
    ref="DESIGN.md §5 C05",
)

CHECKS["C01"] = dict(
    level="exploration",
    text="Runtime monitoring of XmlSerializer.render / XmlParser under generated binding models x instances x 4 writer/handler pairs x serializer configurations; oracle = NaN-aware, type-exact deep equality in the harness, strictest parser configuration, invariant hooks on the parser end state and on 'Unassigned parsed object'. Held on the executions produced.",
    note="Trusted: the harness model generator/materialiser (vf/ir.py) and its admissibility rules (listed in evidence assumptions); known findings keep their triggers out of the generated population and are re-confirmed by dedicated probes.",
    technique="runtime monitoring: round-trip oracle at the public API boundary over a seeded feature-directed model/instance generator; invariant hooks on NodeParser.parse and the xsdata logger",
    ref="DESIGN.md §5 C01",
)

CHECKS["C03"] = dict(
    level="exploration",
    text="Every document the real serializer produces for generated models/instances/configurations (incl. hostile user prefix maps and hostile text, both writers and the tree serializer) is judged by independent validators (strict libxml2, expat, an own namespace-scope checker) and compared with a reference infoset computed from the documented metadata without consulting XmlMeta; contract hooks on generate_prefix and the writer state. Held on the executions produced.",
    note="Trusted: vf/ir.py Ref (transcription of the documented metadata rules), vf/xmlkit.py, libxml2, expat. Shapes the reference does not cover are dropped and counted. One open known finding (unqualified xsi:type under a user default namespace) has a dedicated probe.",
    technique="runtime monitoring: independent validators per produced document + reference-model oracle + contract hooks on generate_prefix/EventHandler; hostile prefix-map and text workloads",
    ref="DESIGN.md §5 C03",
)

CHECKS["C09"] = dict(
    level="exploration",
    text="Two executions compared: the real XmlParser (both handlers) on a serializer-produced document and on a seeded composition of meaning-preserving rewrites of it written by a harness-side XML writer (prefixes/default namespace/shadowing, attribute order, whitespace in element-only content, comments/PIs, CDATA/character references, padded non-string leaves, 7 encodings, XInclude). The rewriter proves infoset preservation with libxml2 before the case counts. Held on the executions produced.",
    note="Trusted: vf/rewrite.py + its libxml2-based equivalence proof (failed proofs are dropped, >2% makes the run inconclusive), vf/ir.py Ref for typing leaves. One open known finding (native handler + XInclude loses namespace declarations) is classified by mechanism.",
    technique="runtime monitoring: differential oracle parse(doc) vs parse(rewrite(doc)) with a self-checking meaning-preserving rewriter",
    ref="DESIGN.md §5 C09",
)

CHECKS["C08"] = dict(
    level="exploration",
    text="Differential runtime monitoring: the two writers and the tree serializer on the same object (infoset comparison by libxml2, QName values resolved), and the two handlers on the same well-formed document across nine source kinds (bytes, str, Path, file name, file object, lxml tree/element, ElementTree tree/element), on serializer output, harness rewrites of it and 20-400 KiB mixed-content documents that cross the parsers' read buffers. Held on the executions produced.",
    note="Trusted: libxml2/vf.xmlkit for infoset comparison, vf/rewrite.py for variants. ElementTree sources are not fed documents with QName content (documented prefix loss).",
    technique="runtime monitoring: differential oracle across backends and source kinds",
    ref="DESIGN.md §5 C08",
)

CHECKS["C04"] = dict(
    level="exploration",
    text="Runtime monitoring of DictEncoder/DictDecoder and JsonSerializer/JsonParser on generated models/instances (single objects and lists) for both dict factories: type-exact deep equality after decode (dict route, dict-through-stdlib-json route, JSON text str/bytes routes), an independent JSON-nativeness judge (recursive type check, json.dumps/json.loads). Held on the executions produced.",
    note="Trusted: harness generator and its JSON admissibility rules (no anyType primitives, no inheritance, at most one class choice per compound field: the decoder's best-match scoring is documented as ambiguous there), CPython json.",
    technique="runtime monitoring: round-trip oracle + independent JSON-nativeness judge at the API boundary",
    ref="DESIGN.md §5 C04",
)

CHECKS["C18"] = dict(
    level="exploration",
    text="Runtime monitoring of PycodeSerializer.render on generated and hand-written models (inner classes/enums, frozen/tuple models, stdlib date/time, non-finite floats and Decimals, QNames, bytes, generics, attribute maps, default elision): the source is compiled, executed in an empty namespace (and in a fresh subprocess for importable models) and the bound variable compared with the original by type-exact deep equality. Held on the executions produced.",
    note="Trusted: CPython compile/exec, vf.xmlkit.deep_eq. The fresh-subprocess leg only runs for the importable hand-written models.",
    technique="runtime monitoring: evaluate-back oracle (compile + exec in fresh namespace/process + deep equality)",
    ref="DESIGN.md §5 C18",
)

CHECKS["C11"] = dict(
    level="exploration",
    text="Runtime monitoring of the generic element model: fragments written by the harness are captured by nine wildcard placements, parsed by both handlers, serialized by both writers and compared with libxml2's reading of the input (whitespace-only text next to children excepted); second parse must equal the first; the stand-alone TreeParser must build the same generic tree. Small trees are enumerated completely (sub-space stated in the evidence), larger ones are random. Held on the executions produced.",
    note="Trusted: libxml2 infoset of the input, own fragment writer. Builtin xsi:type names are compared by python type family. One open known finding (prefixed attribute values become Clark notation) has a dedicated probe and its trigger is kept out of the population.",
    technique="runtime monitoring: infoset-preservation oracle + fixpoint + differential (TreeParser vs wildcard path); bounded-exhaustive small trees + random larger trees",
    ref="DESIGN.md §5 C11",
)

CHECKS["C10"] = dict(
    level="fault_enumeration",
    text="Fault enumeration with a reference outcome: every child position of every class-bound element x 6 unknown-subtree shapes, every class-bound element x 4 unknown-attribute kinds, every typed leaf x corruption, parsed under all 8 fail_on_* combinations by both handlers (plus unknown keys for DictDecoder/JsonParser); expected outcome (ParserError / object equal to the clean parse / value kept as given with a ConverterWarning) is computed from the IR. Held on the executions produced.",
    note="Trusted: the IR's notion of which names a class knows (classes with wildcards/attribute maps are not injected), the harness emitter (it must reproduce the clean document before a fault is trusted). Attributes on simple-typed elements and keys below compound fields are not judged (documented limitations).",
    technique="runtime monitoring: single-fault injection over serializer-produced documents with a reference-model outcome oracle across the 8 option combinations",
    ref="DESIGN.md §5 C10",
)

CHECKS["C15"] = dict(
    level="fault_enumeration",
    text="Single-point fault enumeration on valid documents of generated models: truncation at every byte offset, bit flips, byte edits, delete/duplicate/retag/swap of every element, corruption of every leaf/attribute, bad xsi:type/xsi:nil, undeclared prefix, wrong target class, random byte strings; JSON: truncation at every offset, type swap/deletion at every node, wrong root kinds. Oracle: result is an instance of the requested class or one of xsdata's documented errors; the pure-python handler must raise whenever plain expat rejects the input; logical step budget; SIGALRM watchdog (inconclusive only). Held on the executions produced.",
    note="Trusted: expat's own well-formedness judgement (outside xsdata), the harness emitter for structural faults. The lxml handler's recover=True leniency is not judged. JSON text that is not JSON at all is rejected by the pluggable load_factory (json.JSONDecodeError) and is not attributed to xsdata.",
    technique="runtime monitoring: fault injection with an exception-class / result-type / termination oracle; invariant hook counting handler steps",
    ref="DESIGN.md §5 C15",
)

CHECKS["C14"] = dict(
    level="exploration",
    text="Call-by-call differential monitoring: every operation of a sequence (parse/serialize/decode/encode, succeeding or failing, with and without target class, xsi:type substitutes, wildcard lookups, modules loaded mid-sequence) runs on shared used instances and on fresh ones and must give the same value / exception / caller ns_map; shadow-recomputation hooks on the real XmlContext.build (cache hit == rebuild), find_types (== brute-force scan) and XmlVar.match_namespace (memo == recompute) report silent stale state. Sequences of length <= 2 (thorough: <= 3) are enumerated completely, longer ones are random. Held on the executions produced.",
    note="Trusted: hand-written operation pool (vf/props/c14_models.py), harness equality. One open known finding (metadata cache keyed by class only) has a dedicated probe with a counterfactual; its trigger is not in the pool.",
    technique="runtime monitoring: shared-vs-fresh differential oracle per call + shadow recomputation hooks on caches; bounded-exhaustive short sequences + random long ones",
    ref="DESIGN.md §5 C14",
)

CHECKS["C19"] = dict(
    level="exploration",
    text="Controlled-schedule runtime monitoring: real threads sharing one cold XmlContext (and shared parser/serializer instances) are run one at a time by a deterministic scheduler on sys.monitoring LINE events and pre-empted only at lines touching the shared lazily built state; per ordered pair of operations and conflict group all schedules are enumerated breadth-first up to 3 pre-emptions (depth reached per pair is reported), plus PCT-style random schedules for 3-8 threads and uncontrolled 16-thread stress with a 1 microsecond switch interval. Every concurrent result must equal the result of the same call alone on a fresh context; the C14 shadow hooks run under the scheduler. Held on the executions produced.",
    note="Trusted: vf/sched.py (token-passing scheduler; yield lines recomputed from the working tree by the names of the shared attributes), CPython's GIL semantics. Free-threaded builds and races inside lxml/expat are out of reach.",
    technique="runtime monitoring: deterministic schedule exploration (iterative context bounding) + PCT random schedules + stress, with an alone-vs-concurrent result oracle",
    ref="DESIGN.md §3.7, §5 C19",
)

CHECKS["C07"] = dict(
    level="exploration",
    text="Runtime monitoring of the real generator (ResourceTransformer.process in a subprocess, stand-ins for jinja2/toposort/click/ruff validated by shims/selftest.py) on seeded hostile source sets - XSD sets over a hostile name alphabet and the full structural fragment, DTDs, WSDLs, irregular XML/JSON sample sets - crossed with random output options. Observed per run: outcome class (own CodegenError vs arbitrary exception, timeout), every generated file compiled, AST scan for duplicate classes per scope / duplicate fields / duplicate __all__, import of every module, XmlContext.build_recursive and instantiation of every class (outer and inner), enum members. Held on the executions produced.",
    note="Trusted: the codegen stand-ins in /verif/shims (self-tested against recorded upstream outputs), libxml2 (the generated schemas/DTDs are validated before use). Four open known findings (identifier collisions the duplicate detection cannot see) have dedicated probes with counterfactuals; their triggers are kept out of the random population.",
    technique="runtime monitoring: generated hostile inputs x options through the real pipeline, post-conditions checked on the generated package in a fresh interpreter",
    ref="DESIGN.md §5 C07",
)

CHECKS["C12"] = dict(
    level="exploration",
    text="Differential monitoring of whole generation runs: per seeded source set (XSD sets with imports/recursion/unions/nested groups, DTDs, WSDLs, regular and irregular XML/JSON samples) and option set, the reference run is compared byte for byte (file tree) and by outcome class with runs under 5 other hash seeds incl. random (fresh processes), an in-process repeat, the real `xsdata generate` CLI with flags and with a config file written by GeneratorConfig.write; on a difference the step-digest logs of the ClassContainer pipeline are aligned and the first diverging step/class is reported. `xsdata init-config` must be idempotent. Held on the executions produced.",
    note="Trusted: codegen stand-ins in /verif/shims (toposort re-implementation sorts like upstream; jinja2 interpreter; ruff no-op, so formatting is not observed). include_header (timestamp) excluded.",
    technique="runtime monitoring: differential oracle over repeated executions (hash seeds x processes x invocation routes) with step-digest hooks for diagnosis",
    ref="DESIGN.md §5 C12",
)

CHECKS["C02"] = dict(
    level="exploration",
    text="Runtime monitoring of generate -> import -> parse (strictest settings) -> serialize on seeded schema sets of the supported fragment: schemas are compiled and instance documents (minimal/maximal/random per global element, xsi:type substitutes, nil, defaults) validated by libxml2 before use; input and output are compared in the harness's own schema-directed typed canonical form (defaults applied, prefixes/whitespace gone, leaves in the value space of their XSD type); in the order-preserving sub-fragment the output must keep element order and validate; a second generation with other output-only options must accept the same documents with the same canonical output. Held on the executions produced.",
    note="Trusted: libxml2 XML Schema validation, vf.xsdgen.canon_doc/typed_value (built on vf.lexical), codegen stand-ins. Not in the generated fragment: substitution groups, named groups/attribute groups, xs:include, redefine. Six open known findings (xsi:nil corners, QName/default in mixed/compound content, namespace-less classes under the namespaces structure) have dedicated probes with counterfactuals; their triggers are kept out of the random population.",
    technique="runtime monitoring: generated programs + validated instance documents through the real pipeline, reference-model (typed canonical form) oracle and schema validator as independent judges, option metamorphic relation",
    ref="DESIGN.md §5 C02",
)

CHECKS["C16"] = dict(
    level="exploration",
    text="Runtime monitoring of generate -> import -> parse (strictest settings) -> serialize on seeded DTDs (EMPTY/ANY/#PCDATA/mixed/sequences and choices with ? * + nesting; CDATA/ID/IDREF(S)/NMTOKEN(S)/enumerated attributes with #REQUIRED/#IMPLIED/#FIXED/defaults): documents are random walks of the content models validated by libxml2's DTD validator before use; the reference is libxml2's own reading of the input with the DTD loaded (defaults and #FIXED values materialised); the output must show the same elements, attributes and values, and in the order-preserving sub-fragment (compound fields on) the same order and DTD validity. Held on the executions produced.",
    note="Trusted: libxml2 DTD validation and attribute defaulting; codegen stand-ins. Parameter entities, conditional sections, notations are not generated. Three open known findings (namespace declared by the DTD not applied to children, tail text after a mixed/ANY child, wrapper field vs sibling of the same name) have dedicated probes with counterfactuals; their triggers are kept out of the random population.",
    technique="runtime monitoring: generated programs + validated instance documents through the real pipeline, libxml2's DTD-aware infoset as reference oracle",
    ref="DESIGN.md §5 C16",
)

CHECKS["C13"] = dict(
    level="exploration",
    text="Runtime monitoring of generate-from-samples -> import -> parse (strictest settings, ConverterWarning is an error) -> serialize: a hidden regular model (repeated and interleaved children, optional parts, attributes, 1-3 namespaces, mixed content, nil, one leaf of every inferable type in canonical spelling) emits 1-4 XML samples or 1-3 JSON samples; only the samples reach the generator; every sample must parse into the generated root class and serialize to the same elements/attributes/values (XML: modulo prefixes and insignificant whitespace, typed leaves in the value space of the hidden type; JSON: modulo key order and explicit nulls). Held on the executions produced.",
    note="Trusted: vf/samplegen.py (regularity of the hidden model is by construction), lxml/json for reading outputs, codegen stand-ins. Two open known findings (an element that is sometimes bare / a leaf with an optional attribute or nil becomes a union of primitive and class) have dedicated probes with counterfactuals; their triggers are kept out of the random population.",
    technique="runtime monitoring: generated sample sets through the real pipeline, reference infoset from the hidden model, strict parser settings as tripwires",
    ref="DESIGN.md §5 C13",
)

CHECKS["C17"] = dict(
    level="exploration",
    text="Runtime monitoring of WSDL generation and of the real SOAP client at a recording boundary: per seeded WSDL 1.1 definition (1-4 operations, document/rpc, parts by element or type, optional header and fault, inline or imported schema, one-way) the generated service classes are read, a request is built from a plain dictionary and sent through Client with a recording transport that answers with a harness-written response or SOAP fault; judged against expectations computed from the harness IR: service configuration (style, location, transport, SOAPAction, input/output), exactly one POST to the endpoint with content-type and SOAPAction headers and the user's headers, the infoset of the posted envelope (Header first, body parts with the prescribed names and namespaces), and the infoset of the parsed result against the response fed in. Held on the executions produced.",
    note="Trusted: vf/wsdlgen.py rules for literal bindings (stated in ASSUMPTIONS of vf/props/c17.py), lxml for reading envelopes, the requests stand-in is never called. An empty soapAction is not judged. The rpc response wrapper is named after the output message, as the generated output class declares.",
    technique="runtime monitoring: recorded client/transport boundary + reference envelopes from an independent IR",
    ref="DESIGN.md §5 C17",
)

FIX_COMMITS = []  # guarded hook commits in /repo (none: all hooks are installed from the harness side)


def main():
    checks = []
    for pid in ALL:
        if pid not in CHECKS:
            continue
        c = CHECKS[pid]
        checks.append(
            {
                "property_id": pid,
                "quick_cmd": f"./check {pid} --tier quick",
                "thorough_cmd": f"./check {pid} --tier thorough",
                "evidence_file": f"evidence/{pid}.json",
                "replay_cmd_template": f"./check {pid} --replay {{path}}",
                "engine": c.get("engine", "vf"),
                "level_claimed": {"category": c["level"], "text": c["text"], "design_ref": c["ref"]},
                "level_note": c["note"],
                "technique": c["technique"],
            }
        )
    na = [{"property_id": p, "reason": NA.get(p, "check not built yet in this round (work in progress); nothing is claimed for it")} for p in ALL if p not in CHECKS]
    manifest = {
        "version": 1,
        "setup_cmd": "./check --setup",
        "hooks": {
            "guard": "XSDATA_VERIF",
            "enable": "hooks are monkey-patched onto the real xsdata functions from the harness process (vf/monitors, vf/props/*); XSDATA_VERIF=1 is exported by ./check for harness children; /repo contains no hook code",
            "baseline_off_cmd": "cd /repo && /venv/bin/python -m pytest -ra -q -p no:cacheprovider --timeout=900 --continue-on-collection-errors",
            "source_commits": FIX_COMMITS,
            "add_only": True,
        },
        "engines": [
            {"name": "vf", "path": "vf/", "serves_properties": sorted(CHECKS), "kind_free_text": "runtime-monitoring harness: sharded workload drivers, reference-model oracles, hooks on real functions, evidence/verdict writer"},
        ],
        "checks": checks,
        "not_applicable": na,
        "notes": "Every check runs the real code of /repo's working tree under generated workloads and decides with an oracle observing executions. exit 0 held on what was observed, exit 1 VIOLATION, exit 2 INCONCLUSIVE (never folded into held).",
    }
    (ROOT / "MANIFEST.json").write_text(json.dumps(manifest, indent=1) + "\n")
    try:
        import jsonschema

        jsonschema.validate(manifest, json.loads(Path("/root/.vp/MANIFEST.schema.json").read_text()))
        print("MANIFEST.json valid,", len(checks), "checks,", len(na), "not_applicable")
    except ImportError:
        print("jsonschema not importable here; written without validation")


NA = {}

if __name__ == "__main__":
    main()
