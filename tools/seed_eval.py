#!/usr/bin/env python3
"""tools/seed_eval.py <dir-with-patch_k/demo_k/meta_k> <ID> [--checks C01,C03] [--tier quick|thorough]

Imports seeded defects written by an independent sub-agent into /verif/seeded/<ID>-<k>/ (patch.diff,
demo.py, meta.json), confirms each on a scratch worktree of /repo's HEAD (suite still 263 passed,
demo exits 1 with the patch and 0 without), runs the named checks against the scratch tree
(VERIF_REPO) and records the outcome in result.json. /repo itself is never modified.
"""
import json
import os
import re
import shutil
import subprocess
import sys
import tempfile
from pathlib import Path

ROOT = Path("/verif")


def sh(cmd, **kw):
    return subprocess.run(cmd, shell=True, capture_output=True, text=True, **kw)


def main():
    src, pid = Path(sys.argv[1]), sys.argv[2]
    checks = [pid]
    tier = "quick"
    only = None
    label = ""
    args = sys.argv[3:]
    while args:
        a = args.pop(0)
        if a == "--checks":
            checks = args.pop(0).split(",")
        elif a == "--tier":
            tier = args.pop(0)
        elif a == "--only":
            only = args.pop(0).split(",")
        elif a == "--label":  # e.g. r3 -> seeded/<ID>-r3-<k>
            label = args.pop(0) + "-"
    ks = sorted(int(m.group(1)) for p in src.glob("patch_*.diff") if (m := re.match(r"patch_(\d+)\.diff", p.name)))
    for k in ks:
        if only and str(k) not in only:
            continue
        dest = ROOT / "seeded" / f"{pid}-{label}{k}"
        dest.mkdir(parents=True, exist_ok=True)
        shutil.copy(src / f"patch_{k}.diff", dest / "patch.diff")
        if (src / f"demo_{k}.py").exists():
            shutil.copy(src / f"demo_{k}.py", dest / "demo.py")
        for helper in src.glob("*.py"):  # shared helper modules of the demos
            if not re.match(r"demo_\d+\.py", helper.name):
                shutil.copy(helper, dest / helper.name)
        meta = {}
        if (src / f"meta_{k}.json").exists():
            try:
                meta = json.loads((src / f"meta_{k}.json").read_text())
            except ValueError:
                meta = {"summary": (src / f"meta_{k}.json").read_text()[:500]}
        meta.update({"property": pid, "author": "independent sub-agent (saw only the property text and a scratch worktree)"})
        (dest / "meta.json").write_text(json.dumps(meta, indent=1))
        evaluate(dest, pid, checks, tier)


def evaluate(dest, pid, checks, tier):
    w = Path(tempfile.mkdtemp(prefix="xsdata-verif-seed-"))
    res_path = dest / "result.json"
    result = json.loads(res_path.read_text()) if res_path.exists() else {}
    try:
        sh(f"git -C /repo worktree add --detach {w} HEAD")
        demo = dest / "demo.py"
        env = dict(os.environ, PYTHONPATH=f"/verif/shims:{w}", PATH=f"/verif/shims/bin:{os.environ['PATH']}", TMPDIR=str(w / ".tmp"))
        (w / ".tmp").mkdir()
        text = demo.read_text() if demo.exists() else ""
        # demos hard-code their author's worktree path; point them at the scratch tree
        text = re.sub(r"/tmp/mut/C\d\d", str(w), text)
        (w / ".demo.py").write_text(text)
        for helper in dest.glob("*.py"):
            if helper.name != "demo.py":
                (w / helper.name).write_text(re.sub(r"/tmp/mut/C\d\d", str(w), helper.read_text()))
        clean = subprocess.run(["/venv/bin/python", str(w / ".demo.py")], env=env, capture_output=True, text=True, timeout=600, cwd=w).returncode if text else None
        ap = sh(f"cd {w} && git apply {dest / 'patch.diff'}")
        if ap.returncode != 0:
            result.update({"applies": False, "apply_error": ap.stderr[-400:]})
            print(f"{dest.name}: patch does not apply: {ap.stderr[-200:]}")
            return
        mutated = subprocess.run(["/venv/bin/python", str(w / ".demo.py")], env=env, capture_output=True, text=True, timeout=600, cwd=w).returncode if text else None
        t = sh(f"cd {w} && PYTHONPATH={w} TMPDIR={w}/.tmp /venv/bin/python -m pytest -q -p no:cacheprovider --timeout=900 --continue-on-collection-errors --color=no 2>&1 | grep -E '[0-9]+ passed' | tail -1")
        result.update({"applies": True, "demo_exit_clean_tree": clean, "demo_exit_with_patch": mutated, "suite": t.stdout.strip()})
        result.setdefault("checks", {})
        for cid in checks:
            envc = dict(os.environ, VERIF_EVIDENCE_DIR=str(w / ".verif-evidence"), VERIF_REPLAY_DIR=str(w / ".verif-replays"), VERIF_REPO=str(w))
            p = subprocess.run(["./check", cid, "--tier", tier], cwd=ROOT, env=envc, capture_output=True, text=True, timeout=7200)
            lines = [ln for ln in p.stdout.splitlines() if ln.startswith("violation:")]
            verdict = {0: "held (MISSED)", 1: "VIOLATION (caught)", 2: "inconclusive"}.get(p.returncode, f"exit {p.returncode}")
            result["checks"][f"{cid}:{tier}"] = {"verdict": verdict, "exit": p.returncode, "first_violations": [ln[:240] for ln in lines[:3]]}
            print(f"{dest.name}: demo clean={clean} patched={mutated} suite={t.stdout.strip()!r} {cid}[{tier}] -> {verdict}" + (f"  {lines[0][:160]}" if lines else ""))
    finally:
        res_path.write_text(json.dumps(result, indent=1))
        sh(f"git -C /repo worktree remove --force {w}")
        shutil.rmtree(w, ignore_errors=True)
        sh("git -C /repo worktree prune")


if __name__ == "__main__":
    main()
