#!/venv/bin/python
"""tools/dbgkey.py C01 <key-substring> [seeds...]: print first witness matching key with model source."""
import sys, os
sys.path.insert(0, "/verif")
from vf import core
prop, sub = sys.argv[1], sys.argv[2]
seeds = [int(x) for x in sys.argv[3:]] or list(range(10))
mod = core.load_prop(prop)
for seed in seeds:
    ctx = core.ShardCtx(prop, "quick", seed, 0, 64, 20)
    mod.run_shard(ctx)
    for v in ctx.violations:
        if sub in v["key"]:
            print("=====", seed, v["key"]); print(v["summary"][:int(os.environ.get("DBG_W", "1500"))])
            w = v["witness"]
            if isinstance(w, dict) and w.get("source"):
                src = w["source"]; print(src[src.find("class"):][:6000])
                print("OBJ:", str(w.get("obj"))[:1500])
            sys.exit(0)
print("not found")
