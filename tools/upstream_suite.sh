#!/bin/bash
# Runs the *whole* upstream test-suite (incl. codegen tests that need the stand-ins) on a scratch
# worktree of /repo's HEAD plus its uncommitted diff. Not a property check; used after fix: commits.
set -e
W=$(mktemp -d /tmp/xsdata-verif-suite-XXXX)
git -C /repo worktree add --detach "$W" HEAD >/dev/null 2>&1
git -C /repo diff | (cd "$W" && git apply --allow-empty 2>/dev/null || true)
cd "$W"
PYTHONDONTWRITEBYTECODE=1 PYTHONPATH=/verif/shims:"$W" PATH=/verif/shims/bin:$PATH /venv/bin/python -m pytest -q --color=no -p no:cacheprovider --timeout=900 --deselect tests/formats/dataclass/test_generator.py::DataclassGeneratorTests::test_ruff_code_with_invalid_code "$@" 2>&1 | tail -8 || true
cd /
git -C /repo worktree remove --force "$W"
rm -rf "$W"
git -C /repo worktree prune
