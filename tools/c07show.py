#!/venv/bin/python
"""tools/c07show.py <seed> <kind>: regenerate a C07 case and show the error with the offending generated lines."""
import sys, re, random
sys.path.insert(0, "/verif")
from vf import gen
from vf.props import c07
seed, kind = int(sys.argv[1]), sys.argv[2]
rng = random.Random(seed)
sources, entry, feats = c07.gen_sources(rng, f"c7x{seed % 100000}", kind)
cfg = c07.gen_options(rng)
print("options:", cfg)
res = gen.generate(sources, entry=entry, config=cfg, route="api", hooks=False)
print(res.status, res.exc_type, res.message)
m = re.search(r"\((\S+\.py), line (\d+)\)", res.message or "")
if m:
    fn, ln = m.group(1), int(m.group(2))
    for k, v in res.files.items():
        if k.endswith("/" + fn) or k == fn:
            lines = v.decode().splitlines()
            print("---", k)
            for i in range(max(0, ln - 6), min(len(lines), ln + 3)):
                print(f"{i+1:4d} {lines[i]}")
if "--src" in sys.argv:
    for k, v in sources.items():
        print("---", k); print(v if isinstance(v, str) else v.decode()[:3000])
if "--tb" in sys.argv:
    print((res.traceback or "")[-2500:])
