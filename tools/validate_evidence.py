#!/usr/bin/env python3
import json, sys
from pathlib import Path
import jsonschema
schema = json.loads(Path("/root/.vp/EVIDENCE.schema.json").read_text())
root = Path(__file__).resolve().parent.parent
bad = 0
for p in sorted((root / "evidence").glob("*.json")):
    try:
        jsonschema.validate(json.loads(p.read_text()), schema)
        print("ok ", p.name)
    except Exception as e:
        bad += 1
        print("BAD", p.name, str(e)[:300])
sys.exit(1 if bad else 0)
