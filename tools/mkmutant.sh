#!/bin/bash
# tools/mkmutant.sh <out.diff> <file relative to repo> <python-expr old> <python-expr new>  -> writes a git diff
set -e
OUT="$1"; F="$2"; OLD="$3"; NEW="$4"
W=$(mktemp -d /tmp/xsdata-verif-mk-XXXX)
git -C /repo worktree add --detach "$W" HEAD >/dev/null 2>&1
python3 - "$W/$F" "$OLD" "$NEW" <<'PY'
import sys
p, old, new = sys.argv[1:4]
s = open(p).read()
assert s.count(old) == 1, f"old text occurs {s.count(old)} times"
open(p, "w").write(s.replace(old, new))
PY
(cd "$W" && git diff) > "$OUT"
git -C /repo worktree remove --force "$W"; rm -rf "$W"; git -C /repo worktree prune
