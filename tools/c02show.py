#!/venv/bin/python
"""tools/c02show.py <replay.json | seed> : re-run one C02 case in-process and print everything."""
import sys, json
sys.path.insert(0, "/verif")
from vf.props import c02
class Ctx:
    quick=True; samples=[]; extra={}
    def __getattr__(self, n): return lambda *a, **k: None
    def violation(self, key, summary, w, known_key=None):
        if want is None or w.get("doc") == want: print("=== VIOLATION", key); print(summary)
    def inconc(self, m): print("INCONC", m)
    def drop(self, m): print("DROP", m)
a = sys.argv[1]
want = int(sys.argv[2]) if len(sys.argv) > 2 else None
seed = json.load(open(a))["witness"]["seed"] if a.endswith(".json") else int(a)
c02.check(Ctx(), seed)
