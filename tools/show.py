#!/venv/bin/python
"""tools/show.py <prop> <replay.json | seed> [doc] : re-run one generated-program case in-process and print everything."""
import sys, json, importlib
sys.path.insert(0, "/verif")
mod = importlib.import_module(f"vf.props.{sys.argv[1].lower()}")
class Ctx:
    quick=True; samples=[]; extra={}; tier="quick"
    def __getattr__(self, n): return lambda *a, **k: None
    def violation(self, key, summary, w, known_key=None):
        if want is None or w.get("doc") == want: print("=== VIOLATION", key); print(summary)
    def inconc(self, m): print("INCONC", m)
    def drop(self, m): print("DROP", m)
a = sys.argv[2]
want = int(sys.argv[3]) if len(sys.argv) > 3 else None
w = json.load(open(a))["witness"] if a.endswith(".json") else {"seed": int(a)}
mod.replay(w, Ctx()) if len(w) > 1 else mod.check(Ctx(), w["seed"])
