#!/venv/bin/python
"""tools/c15trace.py <replay.json>: re-run the faulted input of a C15 witness and print the traceback."""
import sys, json, traceback, warnings
sys.path.insert(0, "/verif")
from vf import bindcase as bc
w = json.load(open(sys.argv[1]))["witness"]
model, loaded, obj = bc.from_witness({**w, "source": ""})
data = w["faulted"]
print(repr(data)[:600])
try:
    if w.get("fn") == "json":
        from xsdata.formats.dataclass.parsers import DictDecoder, JsonParser
        if w.get("via") == "json":
            print(JsonParser().from_bytes(data.encode("latin-1"), type(obj)))
        else:
            print(DictDecoder().decode(json.loads(data), type(obj)))
    else:
        from xsdata.formats.dataclass.parsers import XmlParser
        with warnings.catch_warnings():
            warnings.simplefilter("ignore")
            print(XmlParser(handler=bc.handler_cls(w["handler"])).from_bytes(data.encode("latin-1"), type(obj)))
except Exception:
    traceback.print_exc(limit=-6)
