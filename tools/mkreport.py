#!/usr/bin/env python3
"""tools/mkreport.py: regenerate the tables of DESIGN.md §11 (between the GENERATED markers) from
known_findings.json, seeded/*/ and the evidence files."""
import json, glob, re, subprocess
from pathlib import Path

ROOT = Path("/verif")


def esc(s):
    return str(s).replace("|", "\\|").replace("\n", " ")


def fixes_table():
    d = json.loads((ROOT / "known_findings.json").read_text())
    rows = ["| property | commit | mechanism key | what failed before the fix |", "|---|---|---|---|"]
    subjects = {}
    for line in subprocess.check_output(["git", "-C", "/repo", "log", "--format=%h %s", "--grep=^fix:"], text=True).splitlines():
        h, s = line.split(" ", 1)
        subjects[h] = s
    for f in d["findings"]:
        if f["status"] == "fixed":
            rows.append(f"| {f['property']} | `{f.get('commit', '?')}` | `{f['key'].split('/', 1)[1]}` | {esc(f.get('summary', ''))[:400]} |")
    listed = {f.get("commit") for f in d["findings"]}
    extra = [f"`{h}` {s}" for h, s in subjects.items() if not any(h.startswith(c or "~") or (c or "~").startswith(h) for c in listed)]
    out = "\n".join(rows)
    if extra:
        out += "\n\nFix commits in /repo not keyed above (earlier entries use other hashes/keys): " + "; ".join(extra[:60])
    return out


def known_table():
    d = json.loads((ROOT / "known_findings.json").read_text())
    rows = ["| property | mechanism key | what fails (witness) | why recorded, not repaired |", "|---|---|---|---|"]
    for f in d["findings"]:
        if f["status"] == "known":
            rows.append(f"| {f['property']} | `{f['key'].split('/', 1)[1]}` | {esc(f.get('summary', ''))[:500]} — *{esc(f.get('witness', ''))[:300]}* | {esc(f.get('why_not_fixed', ''))[:300]} |")
    return "\n".join(rows)


def seeded_table():
    rows = ["| change | file(s) | what it breaks / when it shows | demo (clean / patched) | verdict of the check(s) |", "|---|---|---|---|---|"]
    for d in sorted(glob.glob(str(ROOT / "seeded" / "*"))):
        p = Path(d)
        try:
            meta = json.loads((p / "meta.json").read_text())
            res = json.loads((p / "result.json").read_text())
        except Exception:
            continue
        checks = "; ".join(f"{k} → {v['verdict']}" for k, v in sorted(res.get("checks", {}).items()))
        hist = res.get("history")
        if hist:
            checks += f" ({hist})"
        rows.append(f"| {p.name} | {esc(', '.join(meta.get('files', []) if isinstance(meta.get('files'), list) else [str(meta.get('files'))]))[:90]} | {esc(meta.get('summary', ''))[:260]} — *{esc(meta.get('manifests_when', ''))[:200]}* | {res.get('demo_exit_clean_tree')} / {res.get('demo_exit_with_patch')} | {checks} |")
    return "\n".join(rows)


def cost_table():
    rows = ["| check | quick: evaluations / distinct non-trivial / wall s | thorough (last run recorded) |", "|---|---|---|"]
    for f in sorted(glob.glob(str(ROOT / "evidence" / "C*.json"))):
        e = json.loads(Path(f).read_text())
        cov = e.get("coverage", {})
        rows.append(f"| {Path(f).stem} | {e.get('tier')}: {cov.get('evaluations')} / {cov.get('distinct_nontrivial')} / {e.get('wall_s', cov.get('wall_s', '?'))} | |")
    return "\n".join(rows)


def main():
    p = ROOT / "DESIGN.md"
    s = p.read_text()
    for name, fn in (("fixes", fixes_table), ("known", known_table), ("seeded", seeded_table)):
        a, b = f"<!-- BEGIN GENERATED:{name} -->", f"<!-- END GENERATED:{name} -->"
        if a in s and b in s:
            s = s[: s.index(a) + len(a)] + "\n" + fn() + "\n" + s[s.index(b):]
    p.write_text(s)
    print("DESIGN.md tables regenerated")


if __name__ == "__main__":
    main()
