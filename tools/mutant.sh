#!/bin/bash
# tools/mutant.sh <patch.diff | -R<commit> > <ID> [ID...]   run checks against a scratch worktree of /repo with a change applied.
# -R<commit> reverts that commit (e.g. to confirm a check still detects a repaired defect).
set -e
CHANGE="$1"; shift
W=$(mktemp -d /tmp/xsdata-verif-mutant-XXXX)
git -C /repo worktree add --detach "$W" HEAD >/dev/null 2>&1
if [[ "$CHANGE" == -R* ]]; then
  git -C /repo show "${CHANGE#-R}" | (cd "$W" && git apply -R)
else
  (cd "$W" && git apply "$CHANGE")
fi
cd /verif
for id in "$@"; do
  VERIF_EVIDENCE_DIR="$W/.verif-evidence" VERIF_REPLAY_DIR="$W/.verif-replays" VERIF_REPO="$W" ./check "$id" --tier "${TIER:-quick}" 2>&1 | grep -E "^VIOLATION|^KNOWN|^INCONC|held on|VIOLATED|inconclusive" | cut -c1-220 | head -${LINES_MAX:-6} || true
done
git -C /repo worktree remove --force "$W"; rm -rf "$W"; git -C /repo worktree prune
