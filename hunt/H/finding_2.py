"""C13: the words "Infinity", "inf", "nan" (any case) are inferred as float and rewritten.

ConverterFactory.test(strict=True) returns True for every float that is inf/nan without
comparing the lexical form, and float() accepts "Infinity"/"inf"/"nan"/"NAN"... So a text
node/attribute/JSON string holding such a word is typed float and serialised as INF / NaN.
"""
import json, sys, warnings
from lib import generate, canon
from xsdata.formats.dataclass.parsers import XmlParser, JsonParser
from xsdata.formats.dataclass.serializers import XmlSerializer, JsonSerializer

bad = False
doc = '<glossary><term lang="nan">Infinity</term><abbr>inf</abbr></glossary>'
mod, tmp = generate({"sample.xml": doc}, package="f2gen.doc")
obj = XmlParser().from_string(doc, mod.Glossary)
out = XmlSerializer().render(obj)
print("sample :", doc)
print("parsed :", obj)
print("output :", out)
if canon(doc) != canon(out):
    bad = True

jdoc = '{"word": "Infinity"}'
jmod, _ = generate({"sample.json": jdoc}, package="f2jgen.doc")
jobj = JsonParser().from_string(jdoc, jmod.Doc)
jout = JsonSerializer().render(jobj)
print("json sample:", jdoc)
print("json output:", jout, "(not even valid JSON)")
try:
    if json.loads(jout, parse_constant=lambda c: (_ for _ in ()).throw(ValueError(c))) != json.loads(jdoc):
        bad = True
except ValueError:
    bad = True
sys.exit(1 if bad else 0)
