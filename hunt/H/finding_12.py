"""C17: rpc binding - the wrapper class built from a wsdl:message shares the qname space of the
schema classes, so a message named like a schema element / complexType of the target namespace
breaks the envelope.

Part A (parts by element): message "Get" with part element="tns:Get". The message class
{urn:t}Get replaces the schema element class ("Duplicate type, will keep the last defined");
the result is `class Get: get: Get` - a required self reference, no request can be built and
the element's real content (n) is gone.
Part B (parts by type): message "Put" with part p type="tns:Put". Body.put is bound to the
complexType class instead of the message class, so the part accessor <p> is missing:
<Put><n>1</n></Put> instead of <Put><p><n>1</n></p></Put>.
"""
import dataclasses, sys
from lxml import etree
from wlib import wsdl, generate, client

def build(kind):
    if kind == "element":
        types = '''<xsd:element name="Get"><xsd:complexType><xsd:sequence><xsd:element name="n" type="xsd:int"/></xsd:sequence></xsd:complexType></xsd:element>
   <xsd:element name="GetResponse"><xsd:complexType><xsd:sequence><xsd:element name="m" type="xsd:int"/></xsd:sequence></xsd:complexType></xsd:element>'''
        msgs = '''<message name="Get"><part name="p" element="tns:Get"/></message>
 <message name="GetResponse"><part name="p" element="tns:GetResponse"/></message>'''
        op = "Get"
    else:
        types = '''<xsd:complexType name="Put"><xsd:sequence><xsd:element name="n" type="xsd:int"/></xsd:sequence></xsd:complexType>
   <xsd:complexType name="PutResponse"><xsd:sequence><xsd:element name="m" type="xsd:int"/></xsd:sequence></xsd:complexType>'''
        msgs = '''<message name="Put"><part name="p" type="tns:Put"/></message>
 <message name="PutResponse"><part name="p" type="tns:PutResponse"/></message>'''
        op = "Put"
    return wsdl(f'''
 <types><xsd:schema targetNamespace="urn:t" elementFormDefault="qualified">{types}</xsd:schema></types>
 {msgs}
 <portType name="PT"><operation name="{op}"><input message="tns:{op}"/><output message="tns:{op}Response"/></operation></portType>
 <binding name="B" type="tns:PT">
  <soap:binding style="rpc" transport="http://schemas.xmlsoap.org/soap/http"/>
  <operation name="{op}"><soap:operation soapAction="urn:t/{op}"/>
   <input><soap:body use="literal" namespace="urn:t"/></input>
   <output><soap:body use="literal" namespace="urn:t"/></output></operation>
 </binding>
 <service name="S"><port name="P" binding="tns:B"><soap:address location="http://example.com/x"/></port></service>
''')

bad = False
# Part A
mod, _ = generate({"s.wsdl": build("element")}, package="f12a.svc")
body_type = {f.name: f.type for f in dataclasses.fields(mod.PtGetInput.Body)}
wrapper = mod.Get
print("A: Body fields:", body_type, "| wrapper class fields:", [(f.name, f.type) for f in dataclasses.fields(wrapper)])
names = [f.name for f in dataclasses.fields(wrapper)]
if "n" not in names and not any("n" in [g.name for g in dataclasses.fields(getattr(mod, c))] for c in dir(mod) if dataclasses.is_dataclass(getattr(mod, c))):
    print("A: the content of element tns:Get (n) is not reachable from any generated class")
    bad = True

# Part B
mod, _ = generate({"s.wsdl": build("type")}, package="f12b.svc")
I = mod.PtPutInput
fld = dataclasses.fields(I.Body)[0]
import typing
wrapper_cls = typing.get_type_hints(I.Body, vars(sys.modules[I.__module__]), {"PtPutInput": I})[fld.name]
print("B: Body.put is typed", wrapper_cls.__name__, "with fields", [f.name for f in dataclasses.fields(wrapper_cls)])
req = I(body=I.Body(put=wrapper_cls(**({"n": 1} if "n" in [f.name for f in dataclasses.fields(wrapper_cls)] else {"p": None}))))
c, fake = client(mod.PtPut, b'<e:Envelope xmlns:e="http://schemas.xmlsoap.org/soap/envelope/"><e:Body/></e:Envelope>')
try:
    c.send(req)
except Exception as e:
    print("B: (response ignored)", type(e).__name__)
payload = fake.calls[0][1]
print("B:", payload)
body = etree.fromstring(payload.encode()).find("{http://schemas.xmlsoap.org/soap/envelope/}Body")
kids = [etree.QName(ch).localname for ch in body[0]]
print("B: children of the rpc wrapper:", kids, "(the WSDL prescribes the part accessor ['p'])")
if kids != ["p"]:
    bad = True
sys.exit(1 if bad else 0)
