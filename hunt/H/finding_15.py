"""C17: rpc part declared by type - the part accessor gets a namespace when a global element
with the same name as the complexType exists.

Schema: <complexType name="Item"/> and <element name="Item" type="tns:Item"/> (very common).
Message parts: <part name="item" type="tns:Item"/>, <part name="result" type="tns:Item"/>.
detect_lazy_namespace resolves the part's *type* to the merged element class and copies the
element's namespace, so the accessors become <t:item>/<t:result> (urn:t) instead of the
unqualified <item>/<result> that rpc/literal prescribes (and that xsdata itself emits when the
same-named element is absent). A conformant response is rejected: Unknown property ...:result.
"""
import sys
from lxml import etree
from wlib import wsdl, generate, client

W = wsdl('''
 <types>
  <xsd:schema targetNamespace="urn:t" elementFormDefault="qualified">
   <xsd:complexType name="Item"><xsd:sequence><xsd:element name="n" type="xsd:int"/></xsd:sequence></xsd:complexType>
   <xsd:element name="Item" type="tns:Item"/>
  </xsd:schema>
 </types>
 <message name="GetIn"><part name="item" type="tns:Item"/></message>
 <message name="GetOut"><part name="result" type="tns:Item"/></message>
 <portType name="PT">
  <operation name="Get"><input message="tns:GetIn"/><output message="tns:GetOut"/></operation>
 </portType>
 <binding name="B" type="tns:PT">
  <soap:binding style="rpc" transport="http://schemas.xmlsoap.org/soap/http"/>
  <operation name="Get"><soap:operation soapAction="urn:t/Get"/>
   <input><soap:body use="literal" namespace="urn:o"/></input>
   <output><soap:body use="literal" namespace="urn:o"/></output></operation>
 </binding>
 <service name="S"><port name="P" binding="tns:B"><soap:address location="http://example.com/x"/></port></service>
''')
RESP = b'''<e:Envelope xmlns:e="http://schemas.xmlsoap.org/soap/envelope/"><e:Body><o:GetOut xmlns:o="urn:o"><result><t:n xmlns:t="urn:t">4</t:n></result></o:GetOut></e:Body></e:Envelope>'''
mod, _ = generate({"s.wsdl": W}, package="f15.svc")
I = mod.PtGetInput
c, fake = client(mod.PtGet, RESP)
bad = False
try:
    out = c.send(I(body=I.Body(get=mod.GetIn(item=mod.Item(n=1)))))
    print("parsed:", out)
except Exception as e:
    print("response with unqualified <result> rejected:", type(e).__name__, e)
    bad = True
payload = fake.calls[0][1]
print(payload)
body = etree.fromstring(payload.encode()).find("{http://schemas.xmlsoap.org/soap/envelope/}Body")
acc = body[0][0].tag
print("part accessor in request:", acc)
if acc != "item":
    bad = True
sys.exit(1 if bad else 0)
