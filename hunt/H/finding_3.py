"""C13: canonical time/dateTime values with fractional seconds are rewritten.

The strict lexical test is only applied to int/float/Decimal/XmlPeriod; XmlTime/XmlDateTime
are accepted as soon as they parse. Their str() pads fractional seconds to 3/6/9 digits, so
the canonical XSD lexical forms 12:00:00.5 and 2020-01-01T12:00:00.25Z come back as
12:00:00.500 and 2020-01-01T12:00:00.250Z.
"""
import sys
from lib import generate, canon
from xsdata.formats.dataclass.parsers import XmlParser
from xsdata.formats.dataclass.serializers import XmlSerializer

doc = '<log at="2020-01-01T12:00:00.25Z"><t>12:00:00.5</t></log>'
mod, tmp = generate({"sample.xml": doc}, package="f3gen.doc")
obj = XmlParser().from_string(doc, mod.Log)
out = XmlSerializer().render(obj)
print("sample :", doc)
print("parsed :", obj)
print("output :", out)
sys.exit(0 if canon(doc) == canon(out) else 1)
