"""C17: soapAction="" and an omitted style are not carried by the service description.

The binding is the WS-I style <soap:binding transport=.../> (style omitted => "document" by
WSDL 1.1 sect. 3.3) with <soap:operation soapAction=""/>. DefinitionsMapper drops falsy/missing
binding attributes, so the generated operation class has neither `style` nor `soap_action`;
Config.from_service yields style=None, soap_action=None and Client.send posts WITHOUT the
SOAPAction HTTP header, which SOAP 1.1 over HTTP requires (sect. 6.1.1, empty value allowed).
"""
import sys
from wlib import wsdl, generate, client
from xsdata.formats.dataclass.client import Config

W = wsdl('''
 <types>
  <xsd:schema targetNamespace="urn:t" elementFormDefault="qualified">
   <xsd:element name="Get"><xsd:complexType><xsd:sequence><xsd:element name="n" type="xsd:int"/></xsd:sequence></xsd:complexType></xsd:element>
   <xsd:element name="GetResponse"><xsd:complexType><xsd:sequence><xsd:element name="m" type="xsd:int"/></xsd:sequence></xsd:complexType></xsd:element>
  </xsd:schema>
 </types>
 <message name="GetIn"><part name="p" element="tns:Get"/></message>
 <message name="GetOut"><part name="p" element="tns:GetResponse"/></message>
 <portType name="PT"><operation name="Get"><input message="tns:GetIn"/><output message="tns:GetOut"/></operation></portType>
 <binding name="B" type="tns:PT">
  <soap:binding transport="http://schemas.xmlsoap.org/soap/http"/>
  <operation name="Get"><soap:operation soapAction=""/>
   <input><soap:body use="literal"/></input><output><soap:body use="literal"/></output></operation>
 </binding>
 <service name="S"><port name="P" binding="tns:B"><soap:address location="http://example.com/x"/></port></service>
''')
RESP = b'<e:Envelope xmlns:e="http://schemas.xmlsoap.org/soap/envelope/"><e:Body><t:GetResponse xmlns:t="urn:t"><t:m>7</t:m></t:GetResponse></e:Body></e:Envelope>'
mod, _ = generate({"s.wsdl": W}, package="f16.svc")
svc = mod.PtGet
print("service class:", {k: v for k, v in vars(svc).items() if not k.startswith("_")})
cfg = Config.from_service(svc)
print("config:", cfg)
I = mod.PtGetInput
c, fake = client(svc, RESP)
c.send(I(body=I.Body(get=mod.Get(n=3))))
headers = fake.calls[0][2]
print("posted headers:", headers)
bad = False
if cfg.style != "document":
    print("-> style of the binding (document, by default) not carried"); bad = True
if "soapaction" not in {k.lower() for k in headers}:
    print("-> SOAPAction header not sent"); bad = True
sys.exit(1 if bad else 0)
