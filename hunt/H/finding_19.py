"""C17: document/literal parts that reference global elements of a schema WITHOUT targetNamespace
end up in the SOAP envelope namespace.

<wsdl:part name="p" element="Get"/> with Get declared in a no-namespace inline schema: the
Body field gets namespace None and therefore inherits the Envelope class namespace. The request
carries <soapenv:Get> instead of <Get>, and the conformant response <GetResponse> (no
namespace) is rejected with Unknown property Body:GetResponse.
(The same inheritance hits a soap:header part declared by complex *type*: <soapenv:it>.)
"""
import sys
from lxml import etree
from wlib import generate, client

W = '''<?xml version="1.0"?>
<wsdl:definitions xmlns:wsdl="http://schemas.xmlsoap.org/wsdl/" xmlns:soap="http://schemas.xmlsoap.org/wsdl/soap/"
  xmlns:xsd="http://www.w3.org/2001/XMLSchema" xmlns:tns="urn:t" targetNamespace="urn:t">
 <wsdl:types>
  <xsd:schema elementFormDefault="unqualified">
   <xsd:element name="Get"><xsd:complexType><xsd:sequence><xsd:element name="n" type="xsd:int"/></xsd:sequence></xsd:complexType></xsd:element>
   <xsd:element name="GetResponse"><xsd:complexType><xsd:sequence><xsd:element name="m" type="xsd:int"/></xsd:sequence></xsd:complexType></xsd:element>
  </xsd:schema>
 </wsdl:types>
 <wsdl:message name="GetIn"><wsdl:part name="p" element="Get"/></wsdl:message>
 <wsdl:message name="GetOut"><wsdl:part name="p" element="GetResponse"/></wsdl:message>
 <wsdl:portType name="PT"><wsdl:operation name="Get"><wsdl:input message="tns:GetIn"/><wsdl:output message="tns:GetOut"/></wsdl:operation></wsdl:portType>
 <wsdl:binding name="B" type="tns:PT">
  <soap:binding style="document" transport="http://schemas.xmlsoap.org/soap/http"/>
  <wsdl:operation name="Get"><soap:operation soapAction="urn:get"/>
   <wsdl:input><soap:body use="literal"/></wsdl:input><wsdl:output><soap:body use="literal"/></wsdl:output></wsdl:operation>
 </wsdl:binding>
 <wsdl:service name="S"><wsdl:port name="P" binding="tns:B"><soap:address location="http://example.com/x"/></wsdl:port></wsdl:service>
</wsdl:definitions>'''
RESP = b'<e:Envelope xmlns:e="http://schemas.xmlsoap.org/soap/envelope/"><e:Body><GetResponse><m>7</m></GetResponse></e:Body></e:Envelope>'
mod, _ = generate({"main.wsdl": W}, package="f19.svc")
I = mod.PtGetInput
c, fake = client(mod.PtGet, RESP)
bad = False
try:
    print("parsed:", c.send(I(body=I.Body(get=mod.Get(n=1)))))
except Exception as e:
    print("response <GetResponse> (no namespace) rejected:", type(e).__name__, e)
    bad = True
payload = fake.calls[0][1]
print(payload)
body = etree.fromstring(payload.encode()).find("{http://schemas.xmlsoap.org/soap/envelope/}Body")
print("body child:", body[0].tag, "(prescribed: Get, no namespace)")
if body[0].tag != "Get":
    bad = True
sys.exit(1 if bad else 0)
