"""C13: JSON object keys are treated as qualified names.

DictMapper passes every key through split_qname: the legal key "" makes generation crash
(IndexError: string index out of range) and a key that starts with "{...}" is split into a
namespace and a local name, after which the sample is rejected (Unknown property).
"""
import sys, traceback
from lib import generate
from xsdata.formats.dataclass.parsers import JsonParser
from xsdata.formats.dataclass.serializers import JsonSerializer

bad = False
for i, doc in enumerate(['{"": 8, "a": 1}', '{"{id}name": "x", "a": 1}']):
    print("sample :", doc)
    try:
        mod, tmp = generate({"sample.json": doc}, package=f"f6gen{i}.doc")
        obj = JsonParser().from_string(doc, mod.Doc)
        print("output :", JsonSerializer().render(obj))
    except Exception as e:
        bad = True
        print("FAILED :", type(e).__name__, e)
sys.exit(1 if bad else 0)
