"""C13: an attribute that is empty in one occurrence and numeric in another -> conversion warning.

<r><c a=""/><c a="5"/></r>: "" is typed anySimpleType, "5" int; filter_types drops
anySimpleType when another type is present, the field is `int`, and parsing the very same
sample emits ConverterWarning "`` is not a valid `int`". (For element text the same
situation is handled silently.)
"""
import sys, warnings
from lib import generate, canon
from xsdata.formats.dataclass.parsers import XmlParser
from xsdata.formats.dataclass.serializers import XmlSerializer

doc = '<r><c a=""/><c a="5"/></r>'
mod, tmp = generate({"sample.xml": doc}, package="f8gen.doc")
with warnings.catch_warnings(record=True) as w:
    warnings.simplefilter("always")
    obj = XmlParser().from_string(doc, mod.R)
    out = XmlSerializer().render(obj)
print("sample  :", doc)
print("parsed  :", obj)
print("output  :", out)
print("warnings:", [f"{x.category.__name__}: {x.message}" for x in w])
sys.exit(1 if w or canon(doc) != canon(out) else 0)
