"""C17: rpc binding - the `parts` attribute of soap:body is ignored.

Message GetIn has parts item, count (body) and token (sent as soap:header, same message);
the binding says <soap:body parts="item count"/> + <soap:header message="tns:GetIn" part="token"/>.
The generated rpc wrapper class still contains ALL parts, `token` being required, so the Body
wrapper carries <token> too although the WSDL puts it in the Header only.
"""
import sys
from lxml import etree
from wlib import wsdl, generate, client

W = wsdl('''
 <types>
  <xsd:schema targetNamespace="urn:t" elementFormDefault="qualified">
   <xsd:complexType name="Item"><xsd:sequence><xsd:element name="n" type="xsd:int"/></xsd:sequence></xsd:complexType>
  </xsd:schema>
 </types>
 <message name="GetIn"><part name="item" type="tns:Item"/><part name="count" type="xsd:int"/><part name="token" type="xsd:string"/></message>
 <message name="GetOut"><part name="result" type="tns:Item"/></message>
 <portType name="PT">
  <operation name="Get"><input message="tns:GetIn"/><output message="tns:GetOut"/></operation>
 </portType>
 <binding name="B" type="tns:PT">
  <soap:binding style="rpc" transport="http://schemas.xmlsoap.org/soap/http"/>
  <operation name="Get"><soap:operation soapAction="urn:t/Get"/>
   <input><soap:body use="literal" namespace="urn:o" parts="item count"/><soap:header message="tns:GetIn" part="token" use="literal"/></input>
   <output><soap:body use="literal" namespace="urn:o"/></output></operation>
 </binding>
 <service name="S"><port name="P" binding="tns:B"><soap:address location="http://example.com/x"/></port></service>
''')
mod, _ = generate({"s.wsdl": W}, package="f11.svc")
I = mod.PtGetInput
bad = False
try:
    wrapper = mod.GetIn(item=mod.Item(n=1), count=2)      # what the WSDL prescribes for the body
    print("wrapper without token accepted")
except TypeError as e:
    print("cannot build the body wrapper without the header part:", e)
    bad = True
    wrapper = mod.GetIn(item=mod.Item(n=1), count=2, token="SECRET")
req = I(header=I.Header(token="SECRET"), body=I.Body(get=wrapper))
c, fake = client(mod.PtGet, b'<e:Envelope xmlns:e="http://schemas.xmlsoap.org/soap/envelope/"><e:Body><o:GetOut xmlns:o="urn:o"><result><t:n xmlns:t="urn:t">4</t:n></result></o:GetOut></e:Body></e:Envelope>')
c.send(req)
payload = fake.calls[0][1]
print(payload)
root = etree.fromstring(payload.encode())
body = root.find("{http://schemas.xmlsoap.org/soap/envelope/}Body")
names = [etree.QName(ch).localname for ch in body[0]]
print("children of the rpc wrapper in Body:", names)
if names != ["item", "count"]:
    bad = True
sys.exit(1 if bad else 0)
