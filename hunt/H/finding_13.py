"""C17: generation crashes when two faults of one operation use the same detail element.

Operation Get declares faults NotFound (message tns:NotFound) and Denied (message tns:Denied),
both messages have the single part element="tns:Err" (a shared fault element, very common).
build_envelope_fault adds the element twice to the `detail` class and the analyzer dies with
AssertionError in update_attributes_effective_choice.merge_attrs.
"""
import sys, traceback
from wlib import wsdl, generate

W = wsdl('''
 <types>
  <xsd:schema targetNamespace="urn:t" elementFormDefault="qualified">
   <xsd:element name="Get"><xsd:complexType><xsd:sequence><xsd:element name="n" type="xsd:int"/></xsd:sequence></xsd:complexType></xsd:element>
   <xsd:element name="GetResponse"><xsd:complexType><xsd:sequence><xsd:element name="m" type="xsd:int"/></xsd:sequence></xsd:complexType></xsd:element>
   <xsd:element name="Err"><xsd:complexType><xsd:sequence><xsd:element name="code" type="xsd:int"/></xsd:sequence></xsd:complexType></xsd:element>
  </xsd:schema>
 </types>
 <message name="GetIn"><part name="p" element="tns:Get"/></message>
 <message name="GetOut"><part name="p" element="tns:GetResponse"/></message>
 <message name="NotFound"><part name="f" element="tns:Err"/></message>
 <message name="Denied"><part name="f" element="tns:Err"/></message>
 <portType name="PT">
  <operation name="Get"><input message="tns:GetIn"/><output message="tns:GetOut"/>
    <fault name="NotFound" message="tns:NotFound"/><fault name="Denied" message="tns:Denied"/></operation>
 </portType>
 <binding name="B" type="tns:PT">
  <soap:binding style="document" transport="http://schemas.xmlsoap.org/soap/http"/>
  <operation name="Get"><soap:operation soapAction="urn:get"/>
   <input><soap:body use="literal"/></input>
   <output><soap:body use="literal"/></output>
   <fault name="NotFound"><soap:fault name="NotFound" use="literal"/></fault>
   <fault name="Denied"><soap:fault name="Denied" use="literal"/></fault>
   </operation>
 </binding>
 <service name="S"><port name="P" binding="tns:B"><soap:address location="http://example.com/x"/></port></service>
''')
try:
    mod, _ = generate({"s.wsdl": W}, package="f13.svc")
    print("generation succeeded")
    sys.exit(0)
except Exception as e:
    traceback.print_exc(limit=-3)
    print("generation FAILED:", type(e).__name__, e)
    sys.exit(1)
