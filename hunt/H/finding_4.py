"""C13: the strict lexical test is applied when a type is INFERRED but not when a union is PARSED.

When the occurrences of one field pass the strict test for different types, the merged field
is a union (float | Decimal, int | str, ...). The parser tries the union members in priority
order with the ordinary, lenient conversion, so a value is captured by a type whose strict
test it had failed:
  A. decimal field: "0.5" (float) + "123456789.123456789" (Decimal only) -> float | Decimal;
     the second value is parsed as float and written back as 123456789.12345679 (digits lost).
  B. code field: "10" (int) + "07" (str, leading zero) -> int | str; "07" comes back as "7".
"""
import sys
from lib import generate, canon
from xsdata.formats.dataclass.parsers import XmlParser
from xsdata.formats.dataclass.serializers import XmlSerializer

bad = False
s1 = '<r><amount cur="0.5">0.5</amount></r>'
s2 = '<r><amount cur="123456789.123456789">123456789.123456789</amount></r>'
mod, tmp = generate({"s1.xml": s1, "s2.xml": s2}, package="f4gen.doc")
for doc in (s1, s2):
    obj = XmlParser().from_string(doc, mod.R)
    out = XmlSerializer().render(obj)
    print("A sample :", doc)
    print("A parsed :", obj)
    print("A output :", out)
    if canon(doc) != canon(out):
        bad = True

doc = '<months><m>10</m><m>07</m><q n="10"/><q n="07"/></months>'
mod, tmp = generate({"s.xml": doc}, package="f4bgen.doc")
obj = XmlParser().from_string(doc, mod.Months)
out = XmlSerializer().render(obj)
print("B sample :", doc)
print("B parsed :", obj)
print("B output :", out)
if canon(doc) != canon(out):
    bad = True
sys.exit(1 if bad else 0)
