"""Scratch helper: generate classes from samples/wsdl in a temp dir and import them."""
import importlib
import logging
import os
import sys
import tempfile
import warnings
from pathlib import Path

sys.dont_write_bytecode = True
sys.path.insert(0, "/verif/shims")
os.environ["PATH"] = "/verif/shims/bin:" + os.environ.get("PATH", "")

from xsdata.codegen.transformer import ResourceTransformer  # noqa: E402
from xsdata.models.config import GeneratorConfig  # noqa: E402


def generate(files, package="gen.pkg", show=False, only=None, **kw):
    """files: name -> str content. Returns (module, tmpdir)."""
    os.makedirs("/tmp/hunt/H/tmp", exist_ok=True)
    tmp = tempfile.mkdtemp(prefix="h_", dir="/tmp/hunt/H/tmp")
    uris = []
    for name, content in files.items():
        p = Path(tmp) / name
        p.write_text(content, encoding="utf-8")
        if only is None or name in only:
            uris.append(p.as_uri())
    config = GeneratorConfig()
    config.output.package = package
    for k, v in kw.items():
        setattr(config.output, k, v)
    cwd = os.getcwd()
    os.chdir(tmp)
    try:
        ResourceTransformer(config=config).process(uris)
    finally:
        os.chdir(cwd)
    sys.path.insert(0, tmp)
    importlib.invalidate_caches()
    mod = importlib.import_module(package)
    if show:
        for f in sorted(Path(tmp).rglob("*.py")):
            txt = f.read_text()
            if txt.strip():
                print("-----", f.relative_to(tmp))
                print(txt)
    return mod, tmp


def canon(el):
    from lxml import etree
    if isinstance(el, (str, bytes)):
        if isinstance(el, str):
            el = el.encode()
        el = etree.fromstring(el)
    kids = [c for c in el if isinstance(c.tag, str)]
    mixed = any((c.tail or "").strip() for c in kids) or (kids and (el.text or "").strip())
    def t(s):
        s = s or ""
        return s.strip() if (kids and not mixed) else s
    return (el.tag, tuple(sorted(el.attrib.items())), t(el.text),
            tuple((canon(c), t(c.tail) if mixed else "") for c in kids))


def xml_roundtrip(mod, clsname, samples, verbose=True):
    """Return list of problems."""
    import warnings
    from xsdata.formats.dataclass.parsers import XmlParser
    from xsdata.formats.dataclass.serializers import XmlSerializer
    from xsdata.formats.dataclass.context import XmlContext
    ctx = XmlContext()
    problems = []
    for name, doc in samples.items():
        try:
            with warnings.catch_warnings(record=True) as w:
                warnings.simplefilter("always")
                obj = XmlParser(context=ctx).from_string(doc, getattr(mod, clsname))
                out = XmlSerializer(context=ctx).render(obj)
        except Exception as e:
            problems.append((name, "EXC", repr(e)))
            if verbose:
                print(name, "EXCEPTION", repr(e))
            continue
        if w:
            problems.append((name, "WARN", [str(x.message) for x in w]))
        if canon(doc) != canon(out):
            problems.append((name, "DIFF", out))
        if verbose:
            print(name, "obj:", obj)
            print(name, "out:", out)
            print(name, "warnings:", [str(x.message) for x in w], "same:", canon(doc) == canon(out))
    return problems
