"""C17 (lower confidence): rpc response wrapper must be named after the wsdl:message.

For rpc output envelopes DefinitionsMapper names the Body child after the output *message*
(GetOut). SOAP 1.1 sect. 7.1 says the name of the response struct is not significant and by
convention is <operation>Response; WS-I BP R2729 even requires <operation>Response. Every
mainstream stack therefore answers <o:GetResponse>, which the generated client rejects
(Unknown property Body:GetResponse) whenever the message is not itself named GetResponse.
"""
import sys
from wlib import wsdl, generate, client

W = wsdl('''
 <message name="GetIn"><part name="n" type="xsd:int"/></message>
 <message name="GetOut"><part name="result" type="xsd:int"/></message>
 <portType name="PT"><operation name="Get"><input message="tns:GetIn"/><output message="tns:GetOut"/></operation></portType>
 <binding name="B" type="tns:PT">
  <soap:binding style="rpc" transport="http://schemas.xmlsoap.org/soap/http"/>
  <operation name="Get"><soap:operation soapAction="urn:t/Get"/>
   <input><soap:body use="literal" namespace="urn:o"/></input>
   <output><soap:body use="literal" namespace="urn:o"/></output></operation>
 </binding>
 <service name="S"><port name="P" binding="tns:B"><soap:address location="http://example.com/x"/></port></service>
''')
RESP = b'<e:Envelope xmlns:e="http://schemas.xmlsoap.org/soap/envelope/"><e:Body><o:GetResponse xmlns:o="urn:o"><result>4</result></o:GetResponse></e:Body></e:Envelope>'
mod, _ = generate({"s.wsdl": W}, package="f18.svc")
I = mod.PtGetInput
c, fake = client(mod.PtGet, RESP)
try:
    out = c.send(I(body=I.Body(get=mod.GetIn(n=1))))
    print("parsed:", out)
    ok = True
except Exception as e:
    print("request :", fake.calls[0][1])
    print("response <o:GetResponse> rejected:", type(e).__name__, e)
    ok = False
sys.exit(0 if ok else 1)
