"""C17: document style, part declared by a complex *type*: the part element is put in the SOAP
envelope namespace.

<part name="item" type="tns:Item"/> under a document/literal binding. For a complex type
detect_lazy_namespace sets the field namespace to None (the Body/Header inner class has no
namespace of its own), so the field inherits the Envelope namespace and the request carries
<soapenv:item> - an application element in http://schemas.xmlsoap.org/soap/envelope/.
A part typed xsd:int in the same position is emitted unqualified (<result>), which shows the
intended behaviour. Same defect for soap:header parts declared by complex type.
"""
import sys
from lxml import etree
from wlib import wsdl, generate, client

W = wsdl('''
 <types>
  <xsd:schema targetNamespace="urn:t" elementFormDefault="qualified">
   <xsd:complexType name="Item"><xsd:sequence><xsd:element name="n" type="xsd:int"/></xsd:sequence></xsd:complexType>
  </xsd:schema>
 </types>
 <message name="GetIn"><part name="item" type="tns:Item"/></message>
 <message name="GetOut"><part name="result" type="tns:Item"/></message>
 <portType name="PT"><operation name="Get"><input message="tns:GetIn"/><output message="tns:GetOut"/></operation></portType>
 <binding name="B" type="tns:PT">
  <soap:binding style="document" transport="http://schemas.xmlsoap.org/soap/http"/>
  <operation name="Get"><soap:operation soapAction="urn:t/Get"/>
   <input><soap:body use="literal"/></input>
   <output><soap:body use="literal"/></output></operation>
 </binding>
 <service name="S"><port name="P" binding="tns:B"><soap:address location="http://example.com/x"/></port></service>
''')
SOAP = "http://schemas.xmlsoap.org/soap/envelope/"
RESP = b'<e:Envelope xmlns:e="http://schemas.xmlsoap.org/soap/envelope/"><e:Body><result><t:n xmlns:t="urn:t">4</t:n></result></e:Body></e:Envelope>'
mod, _ = generate({"s.wsdl": W}, package="f20.svc")
I = mod.PtGetInput
c, fake = client(mod.PtGet, RESP)
bad = False
try:
    print("parsed:", c.send(I(body=I.Body(item=mod.Item(n=1)))))
except Exception as e:
    print("response with <result> rejected:", type(e).__name__, e)
    bad = True
payload = fake.calls[0][1]
print(payload)
body = etree.fromstring(payload.encode()).find("{%s}Body" % SOAP)
print("body child:", body[0].tag)
if etree.QName(body[0]).namespace == SOAP:
    print("-> message part placed in the SOAP envelope namespace")
    bad = True
sys.exit(1 if bad else 0)
