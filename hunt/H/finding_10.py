"""C17: two bindings of one portType (e.g. the usual SOAP 1.1 + SOAP 1.2 pair, or a document
and an rpc SOAP 1.1 binding) collapse into one set of classes named after the portType; the
LAST port wins ("Duplicate type ... will keep the last defined").

Part A: SOAP 1.1 port + SOAP 1.2 port (typical .NET WSDL): the only service description that
is generated has the SOAP 1.1 envelope but the SOAP 1.2 port's location and soapAction.
Part B: two SOAP 1.1 bindings (document, then rpc) of one portType: the document binding's
service description/envelopes are gone altogether.
"""
import sys
from lib import generate

HEAD = '''<?xml version="1.0"?>
<definitions xmlns="http://schemas.xmlsoap.org/wsdl/" xmlns:soap="http://schemas.xmlsoap.org/wsdl/soap/"
  xmlns:soap12="http://schemas.xmlsoap.org/wsdl/soap12/"
  xmlns:xsd="http://www.w3.org/2001/XMLSchema" xmlns:tns="urn:t" targetNamespace="urn:t">
 <types>
  <xsd:schema targetNamespace="urn:t" elementFormDefault="qualified">
   <xsd:element name="Add"><xsd:complexType><xsd:sequence><xsd:element name="a" type="xsd:int"/></xsd:sequence></xsd:complexType></xsd:element>
   <xsd:element name="AddResponse"><xsd:complexType><xsd:sequence><xsd:element name="r" type="xsd:int"/></xsd:sequence></xsd:complexType></xsd:element>
  </xsd:schema>
 </types>
 <message name="AddIn"><part name="parameters" element="tns:Add"/></message>
 <message name="AddOut"><part name="parameters" element="tns:AddResponse"/></message>
 <portType name="Calc">
  <operation name="Add"><input message="tns:AddIn"/><output message="tns:AddOut"/></operation>
 </portType>
 <binding name="CalcSoap" type="tns:Calc">
  <soap:binding style="document" transport="http://schemas.xmlsoap.org/soap/http"/>
  <operation name="Add"><soap:operation soapAction="urn:t/Add"/>
   <input><soap:body use="literal"/></input><output><soap:body use="literal"/></output></operation>
 </binding>
'''
A = HEAD + '''
 <binding name="CalcSoap12" type="tns:Calc">
  <soap12:binding style="document" transport="http://schemas.xmlsoap.org/soap/http"/>
  <operation name="Add"><soap12:operation soapAction="urn:t/Add12"/>
   <input><soap12:body use="literal"/></input><output><soap12:body use="literal"/></output></operation>
 </binding>
 <service name="CalcService">
  <port name="CalcSoap" binding="tns:CalcSoap"><soap:address location="http://example.com/soap11"/></port>
  <port name="CalcSoap12" binding="tns:CalcSoap12"><soap12:address location="http://example.com/soap12"/></port>
 </service>
</definitions>'''
B = HEAD + '''
 <binding name="CalcRpc" type="tns:Calc">
  <soap:binding style="rpc" transport="http://schemas.xmlsoap.org/soap/http"/>
  <operation name="Add"><soap:operation soapAction="urn:t/AddRpc"/>
   <input><soap:body use="literal" namespace="urn:t"/></input><output><soap:body use="literal" namespace="urn:t"/></output></operation>
 </binding>
 <service name="CalcService">
  <port name="CalcSoap" binding="tns:CalcSoap"><soap:address location="http://example.com/doc"/></port>
  <port name="CalcRpc" binding="tns:CalcRpc"><soap:address location="http://example.com/rpc"/></port>
 </service>
</definitions>'''

def describe(mod):
    out = {}
    for name in dir(mod):
        obj = getattr(mod, name)
        if isinstance(obj, type) and hasattr(obj, "location") and hasattr(obj, "input"):
            out[name] = {k: v for k, v in vars(obj).items() if not k.startswith("_") and isinstance(v, str)}
    return out

bad = False
mod, _ = generate({"calc.wsdl": A}, package="f10a.svc")
d = describe(mod)
print("A:", d)
ok = any(v.get("location") == "http://example.com/soap11" and v.get("soap_action") == "urn:t/Add" for v in d.values())
print("A: SOAP 1.1 operation described with its own location/soapAction:", ok)
bad |= not ok

mod, _ = generate({"calc.wsdl": B}, package="f10b.svc")
d = describe(mod)
print("B:", d)
ok = any(v.get("location") == "http://example.com/doc" and v.get("style") == "document" for v in d.values())
print("B: document binding's operation still described:", ok)
bad |= not ok
sys.exit(1 if bad else 0)
