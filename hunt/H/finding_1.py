"""C13: JSON string values that look like numbers/booleans come back as JSON numbers/booleans.

DictMapper.build_attr_type runs the strict lexical test on *string* values, so
{"id": "7", "flag": "false"} yields fields `id: int`, `flag: bool`; the sample parses
without complaint but serialises as {"id": 7, "flag": false} - the JSON value type changed.
"""
import json, sys, warnings
from lib import generate
from xsdata.formats.dataclass.parsers import JsonParser
from xsdata.formats.dataclass.serializers import JsonSerializer

doc = '{"zip": "02134", "id": "7", "flag": "false", "ratio": "1.5"}'
mod, tmp = generate({"sample.json": doc}, package="f1gen.doc")
with warnings.catch_warnings(record=True) as w:
    warnings.simplefilter("always")
    obj = JsonParser().from_string(doc, mod.Doc)
    out = JsonSerializer().render(obj)
print("sample :", doc)
print("parsed :", obj)
print("output :", out)
same = json.loads(out) == json.loads(doc)
print("same values:", same)
sys.exit(0 if same else 1)
