"""C13: an element named like an xsdata datatype class (XmlDate, XmlTime, XmlDateTime,
XmlDuration, XmlPeriod) shadows the imported datatype in the generated module.

text.stop_words protects Decimal/QName/Enum/... but not the Xml* datatypes, so
<cal><XmlDate tz="Z">2020-01-01</XmlDate></cal> generates `class XmlDate` with
`value: XmlDate` (now meaning the dataclass itself) and the sample cannot be parsed.
"""
import sys
from lib import generate, canon
from xsdata.formats.dataclass.parsers import XmlParser
from xsdata.formats.dataclass.serializers import XmlSerializer

doc = '<cal><XmlDate tz="Z">2020-01-01</XmlDate></cal>'
try:
    mod, tmp = generate({"sample.xml": doc}, package="f9gen.doc")
    obj = XmlParser().from_string(doc, mod.Cal)
    out = XmlSerializer().render(obj)
    print("output :", out)
    ok = canon(doc) == canon(out)
except Exception as e:
    print("FAILED :", type(e).__name__, e)
    ok = False
sys.exit(0 if ok else 1)
