"""C17 (client): Client(config, parser=..., serializer=...) silently discards the given parser.

In Client.__init__ the final `else` branch (serializer given) always builds a fresh
XmlParser(context=serializer.context), also when the caller passed a parser. A lenient parser
(fail_on_unknown_properties=False) passed together with a serializer is therefore ignored and
a response carrying an element the model does not know makes send() raise.
"""
import sys
from wlib import wsdl, generate, Fake
from xsdata.formats.dataclass.client import Client, Config
from xsdata.formats.dataclass.context import XmlContext
from xsdata.formats.dataclass.parsers import XmlParser
from xsdata.formats.dataclass.parsers.config import ParserConfig
from xsdata.formats.dataclass.serializers import XmlSerializer

W = wsdl('''
 <types>
  <xsd:schema targetNamespace="urn:t" elementFormDefault="qualified">
   <xsd:element name="Get"><xsd:complexType><xsd:sequence><xsd:element name="n" type="xsd:int"/></xsd:sequence></xsd:complexType></xsd:element>
   <xsd:element name="GetResponse"><xsd:complexType><xsd:sequence><xsd:element name="m" type="xsd:int"/></xsd:sequence></xsd:complexType></xsd:element>
  </xsd:schema>
 </types>
 <message name="GetIn"><part name="p" element="tns:Get"/></message>
 <message name="GetOut"><part name="p" element="tns:GetResponse"/></message>
 <portType name="PT"><operation name="Get"><input message="tns:GetIn"/><output message="tns:GetOut"/></operation></portType>
 <binding name="B" type="tns:PT">
  <soap:binding style="document" transport="http://schemas.xmlsoap.org/soap/http"/>
  <operation name="Get"><soap:operation soapAction="urn:get"/>
   <input><soap:body use="literal"/></input><output><soap:body use="literal"/></output></operation>
 </binding>
 <service name="S"><port name="P" binding="tns:B"><soap:address location="http://example.com/x"/></port></service>
''')
# the server adds a header block the WSDL does not declare
RESP = b'<e:Envelope xmlns:e="http://schemas.xmlsoap.org/soap/envelope/"><e:Header><x:trace xmlns:x="urn:x">1</x:trace></e:Header><e:Body><t:GetResponse xmlns:t="urn:t"><t:m>7</t:m></t:GetResponse></e:Body></e:Envelope>'
mod, _ = generate({"s.wsdl": W}, package="f17.svc")
ctx = XmlContext()
parser = XmlParser(context=ctx, config=ParserConfig(fail_on_unknown_properties=False))
serializer = XmlSerializer(context=ctx)
fake = Fake(RESP)
c = Client(Config.from_service(mod.PtGet), transport=fake, parser=parser, serializer=serializer)
print("client uses the parser it was given:", c.parser is parser)
I = mod.PtGetInput
try:
    print(c.send(I(body=I.Body(get=mod.Get(n=3)))))
    ok = c.parser is parser
except Exception as e:
    print("send FAILED although a lenient parser was supplied:", type(e).__name__, e)
    ok = False
sys.exit(0 if ok else 1)
