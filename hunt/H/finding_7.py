"""C13: an array key that is absent in one object of an array comes back as an empty array.

{"a": [{"x": 1}, {"x": 2, "z": [1]}]}: `z` becomes a list field (default_factory=list), so
the first object is written back with an extra "z": [] - a structural difference that is
not an explicit null.
"""
import json, sys
from lib import generate
from xsdata.formats.dataclass.parsers import JsonParser
from xsdata.formats.dataclass.serializers import JsonSerializer

def strip_nulls(x):
    if isinstance(x, dict):
        return {k: strip_nulls(v) for k, v in x.items() if v is not None}
    if isinstance(x, list):
        return [strip_nulls(v) for v in x]
    return x

doc = '{"a": [{"x": 1}, {"x": 2, "z": [1]}]}'
mod, tmp = generate({"sample.json": doc}, package="f7gen.doc")
obj = JsonParser().from_string(doc, mod.Doc)
out = JsonSerializer().render(obj)
print("sample :", doc)
print("output :", out)
same = strip_nulls(json.loads(out)) == strip_nulls(json.loads(doc))
sys.exit(0 if same else 1)
