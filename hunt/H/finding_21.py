"""C17 (medium confidence): a response envelope containing a SOAP Header - even an EMPTY
<soapenv:Header/> as Spring-WS, Axis2 etc. always send - is rejected when the binding's
<output> declares no soap:header.

The output Envelope class only gets a Header field when the WSDL declares one, and the client's
default parser fails on unknown properties, so Client.send raises
ParserError: Unknown property Envelope:Header for a perfectly valid SOAP 1.1 response.
"""
import sys
from wlib import wsdl, generate, client

W = wsdl('''
 <types>
  <xsd:schema targetNamespace="urn:t" elementFormDefault="qualified">
   <xsd:element name="Get"><xsd:complexType><xsd:sequence><xsd:element name="n" type="xsd:int"/></xsd:sequence></xsd:complexType></xsd:element>
   <xsd:element name="GetResponse"><xsd:complexType><xsd:sequence><xsd:element name="m" type="xsd:int"/></xsd:sequence></xsd:complexType></xsd:element>
  </xsd:schema>
 </types>
 <message name="GetIn"><part name="p" element="tns:Get"/></message>
 <message name="GetOut"><part name="p" element="tns:GetResponse"/></message>
 <portType name="PT"><operation name="Get"><input message="tns:GetIn"/><output message="tns:GetOut"/></operation></portType>
 <binding name="B" type="tns:PT">
  <soap:binding style="document" transport="http://schemas.xmlsoap.org/soap/http"/>
  <operation name="Get"><soap:operation soapAction="urn:get"/>
   <input><soap:body use="literal"/></input><output><soap:body use="literal"/></output></operation>
 </binding>
 <service name="S"><port name="P" binding="tns:B"><soap:address location="http://example.com/x"/></port></service>
''')
RESP = b'<SOAP-ENV:Envelope xmlns:SOAP-ENV="http://schemas.xmlsoap.org/soap/envelope/"><SOAP-ENV:Header/><SOAP-ENV:Body><t:GetResponse xmlns:t="urn:t"><t:m>1</t:m></t:GetResponse></SOAP-ENV:Body></SOAP-ENV:Envelope>'
mod, _ = generate({"s.wsdl": W}, package="f21.svc")
I = mod.PtGetInput
c, fake = client(mod.PtGet, RESP)
try:
    out = c.send(I(body=I.Body(get=mod.Get(n=1))))
    print("parsed:", out)
    ok = out.body.get_response.m == 1
except Exception as e:
    print("response with empty <Header/> rejected:", type(e).__name__, e)
    ok = False
sys.exit(0 if ok else 1)
