"""C17: when the binding's <output> declares a soap:header, a SOAP Fault response cannot be parsed.

build_envelope_fault relaxes the Body fields to optional but the output envelope's `header`
field stays required. A fault response (which normally has no Header) makes Client.send raise
ParserError: ...__init__() missing 1 required keyword-only argument: 'header'.
The same happens for a normal response in which the optional SOAP Header is absent.
"""
import sys
from wlib import wsdl, generate, client

W = wsdl('''
 <types>
  <xsd:schema targetNamespace="urn:t" elementFormDefault="qualified">
   <xsd:element name="Get"><xsd:complexType><xsd:sequence><xsd:element name="n" type="xsd:int"/></xsd:sequence></xsd:complexType></xsd:element>
   <xsd:element name="GetResponse"><xsd:complexType><xsd:sequence><xsd:element name="m" type="xsd:int"/></xsd:sequence></xsd:complexType></xsd:element>
   <xsd:element name="Err"><xsd:complexType><xsd:sequence><xsd:element name="code" type="xsd:int"/></xsd:sequence></xsd:complexType></xsd:element>
   <xsd:element name="Session" type="xsd:string"/>
  </xsd:schema>
 </types>
 <message name="GetIn"><part name="p" element="tns:Get"/></message>
 <message name="GetOut"><part name="p" element="tns:GetResponse"/></message>
 <message name="Hd"><part name="session" element="tns:Session"/></message>
 <message name="F"><part name="f" element="tns:Err"/></message>
 <portType name="PT">
  <operation name="Get"><input message="tns:GetIn"/><output message="tns:GetOut"/><fault name="F" message="tns:F"/></operation>
 </portType>
 <binding name="B" type="tns:PT">
  <soap:binding style="document" transport="http://schemas.xmlsoap.org/soap/http"/>
  <operation name="Get"><soap:operation soapAction="urn:get"/>
   <input><soap:body use="literal"/></input>
   <output><soap:header message="tns:Hd" part="session" use="literal"/><soap:body use="literal"/></output>
   <fault name="F"><soap:fault name="F" use="literal"/></fault>
   </operation>
 </binding>
 <service name="S"><port name="P" binding="tns:B"><soap:address location="http://example.com/x"/></port></service>
''')
FAULT = b'''<soapenv:Envelope xmlns:soapenv="http://schemas.xmlsoap.org/soap/envelope/"><soapenv:Body><soapenv:Fault><faultcode>soapenv:Server</faultcode><faultstring>bad</faultstring><detail><t:Err xmlns:t="urn:t"><t:code>7</t:code></t:Err></detail></soapenv:Fault></soapenv:Body></soapenv:Envelope>'''
mod, _ = generate({"s.wsdl": W}, package="f14.svc")
I = mod.PtGetInput
c, fake = client(mod.PtGet, FAULT)
try:
    out = c.send(I(body=I.Body(get=mod.Get(n=3))))
    print("parsed:", out)
    ok = out.body.fault is not None and out.body.fault.detail.err.code == 7
except Exception as e:
    print("send FAILED on a fault response:", type(e).__name__, e)
    ok = False
sys.exit(0 if ok else 1)
