"""C13: one sample with an unevenly interleaved repeating group is reordered.

<r><f>1</f><f>2</f><g>x</g><f>3</f><g>y</g></r>  (hidden model: (f+, g)+ or (f|g)*)
ElementMapper.sequential_groups puts f and g in one sequence group, but a sequence group is
serialised by zipping the lists, so the document comes back as f g f g f.
"""
import sys
from lib import generate, canon
from xsdata.formats.dataclass.parsers import XmlParser
from xsdata.formats.dataclass.serializers import XmlSerializer

doc = '<r><f>1</f><f>2</f><g>x</g><f>3</f><g>y</g></r>'
mod, tmp = generate({"sample.xml": doc}, package="f5gen.doc")
obj = XmlParser().from_string(doc, mod.R)
out = XmlSerializer().render(obj)
print("sample :", doc)
print("parsed :", obj)
print("output :", out)
sys.exit(0 if canon(doc) == canon(out) else 1)
