from lib import generate
from xsdata.formats.dataclass.client import Client
from xsdata.formats.dataclass.transports import Transport

HEAD = '''<?xml version="1.0"?>
<definitions xmlns="http://schemas.xmlsoap.org/wsdl/" xmlns:soap="http://schemas.xmlsoap.org/wsdl/soap/"
  xmlns:xsd="http://www.w3.org/2001/XMLSchema" xmlns:tns="urn:t" xmlns:o="urn:o" targetNamespace="urn:t">'''


class Fake(Transport):
    """Transport double: records the post and returns a canned response."""

    def __init__(self, response=b""):
        self.response = response
        self.calls = []

    def get(self, url, params, headers):
        raise NotImplementedError

    def post(self, url, data, headers):
        self.calls.append((url, data, headers))
        return self.response


def wsdl(body):
    return HEAD + body + "</definitions>"


def client(service, response=b""):
    fake = Fake(response)
    c = Client.from_service(service)
    c.transport = fake
    return c, fake
