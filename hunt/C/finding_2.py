"""C05: valid xs:QName / NCName lexical forms that contain combining marks or other
non "alpha/digit" NameChars are rejected (namespaces.is_ncname only allows
str.isalpha()/isdigit() and . - _ U+00B7 U+0387). XML NameChar includes combining
characters (U+0300-U+036F, Indic/Thai vowel signs...), so ordinary Hindi/Thai words
or NFD-normalised accented names are refused."""
import sys
from xml.etree.ElementTree import QName
from lxml import etree
from xsdata.formats.converter import converter
from xsdata.exceptions import ConverterError

names = ["हिन्दी",  # Hindi word "hindi"
         "ชื่อ",               # Thai word "name"
         "áb",                               # NFD form of 'ab' with acute accent
         "a‿b"]                               # U+203F is an XML NameChar
bad = 0
for n in names:
    # prove it is a valid XML name: lxml accepts it as an element name (NCName)
    etree.fromstring(f"<{n}/>".encode("utf-8"))
    etree.QName(n)
    try:
        q = converter.deserialize(n, [QName])
        print(repr(n), "->", q)
    except ConverterError as e:
        print(f"VIOLATION: valid NCName {n!r} rejected as QName: {e}")
        bad += 1
    try:
        q = converter.deserialize("p:" + n, [QName], ns_map={"p": "urn:x"})
    except ConverterError as e:
        print(f"VIOLATION: valid QName {'p:' + n!r} rejected: {e}")
        bad += 1
sys.exit(1 if bad else 0)
