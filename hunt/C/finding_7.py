"""C05: date/time/datetime values with a format do not accept surrounding
whitespace (every other converter strips/collapses it, as XSD whiteSpace=collapse
demands for all non-string types). A pretty-printed element body fails to parse."""
import sys
import datetime as dt
from xsdata.formats.converter import converter
from xsdata.exceptions import ConverterError

bad = 0
cases = [(dt.date, "%Y-%m-%d", " 2021-01-01 ", dt.date(2021, 1, 1)),
         (dt.time, "%H:%M:%S", "\n10:11:12\n", dt.time(10, 11, 12)),
         (dt.datetime, "%Y-%m-%dT%H:%M:%S", "\t2021-01-01T10:11:12 ", dt.datetime(2021, 1, 1, 10, 11, 12))]
for tp, fmt, text, expected in cases:
    try:
        got = converter.deserialize(text, [tp], format=fmt)
        print(repr(text), "->", got)
        bad += got != expected
    except ConverterError as e:
        print(f"VIOLATION: {text!r} rejected for {tp.__name__} format {fmt!r}: {e}")
        bad += 1
# controls: other types accept the same padding
from xsdata.models.datatype import XmlDate
assert converter.deserialize(" 2021-01-01 ", [XmlDate]) == XmlDate(2021, 1, 1)
assert converter.deserialize(" 12 ", [int]) == 12

from dataclasses import dataclass, field
from typing import Optional
from xsdata.formats.dataclass.parsers import XmlParser
from xsdata.formats.dataclass.parsers.config import ParserConfig

@dataclass
class A:
    d: Optional[dt.date] = field(default=None, metadata={"type": "Element", "format": "%Y-%m-%d"})

try:
    obj = XmlParser(config=ParserConfig(fail_on_converter_warnings=True)).from_string("<A>\n  <d>\n    2021-01-01\n  </d>\n</A>", A)
    print(obj)
    bad += obj.d != dt.date(2021, 1, 1)
except Exception as e:
    print("VIOLATION end-to-end:", type(e).__name__, str(e).replace("\n", "\\n"))
    bad += 1
sys.exit(1 if bad else 0)
