"""C05: datetime.time with a format containing %z: serialize writes the offset, but
TimeConverter.deserialize uses datetime.time() (not timetz()), so the tzinfo is
dropped and the value read back differs from the original."""
import sys
import datetime as dt
from xsdata.formats.converter import converter

fmt = "%H:%M:%S%z"
bad = 0
for tz in (dt.timezone.utc, dt.timezone(dt.timedelta(hours=5, minutes=30))):
    orig = dt.time(10, 0, 0, tzinfo=tz)
    s = converter.serialize(orig, format=fmt)
    back = converter.deserialize(s, [dt.time], format=fmt)
    print(f"{orig!r} -> {s!r} -> {back!r}")
    if back != orig or back.tzinfo is None:
        print("VIOLATION: time zone lost in round trip")
        bad += 1
# control: datetime keeps it
o = dt.datetime(2020, 1, 1, 10, 0, tzinfo=dt.timezone.utc)
assert converter.deserialize(converter.serialize(o, format="%Y-%m-%dT" + fmt), [dt.datetime], format="%Y-%m-%dT" + fmt) == o
sys.exit(1 if bad else 0)
