"""C05 (platform dependent, glibc): date/datetime with a %Y format and a year < 1000:
serialize uses strftime which writes the year unpadded ('999-01-01'), deserialize uses
strptime which demands four digits -> the converter cannot read its own output."""
import sys
import datetime as dt
from xsdata.formats.converter import converter
from xsdata.exceptions import ConverterError

bad = 0
for value, tp, fmt in ((dt.date(999, 1, 1), dt.date, "%Y-%m-%d"), (dt.datetime(33, 4, 3, 15, 0), dt.datetime, "%Y-%m-%dT%H:%M:%S")):
    s = converter.serialize(value, format=fmt)
    try:
        back = converter.deserialize(s, [tp], format=fmt)
        print(value, "->", s, "->", back)
        bad += back != value
    except ConverterError as e:
        print(f"VIOLATION: serialize({value!r}, format={fmt!r}) = {s!r}; deserialize raises: {e}")
        bad += 1
sys.exit(1 if bad else 0)
