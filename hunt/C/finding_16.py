"""C06: XmlDuration stores the seconds component as a float, so a valid duration with
nanosecond precision and a large seconds count does not yield the component XSD
assigns (a decimal): digits are lost although they are within nanosecond precision."""
import sys
from decimal import Decimal
from xsdata.models.datatype import XmlDuration

bad = 0
for text, expected in (("PT100000000.000000001S", "100000000.000000001"),
                       ("PT123456789012.123456789S", "123456789012.123456789"),
                       ("PT86400.000000001S", "86400.000000001")):
    d = XmlDuration(text)
    got = Decimal(repr(d.seconds))
    print(text, "-> seconds", repr(d.seconds))
    if got != Decimal(expected):
        print(f"VIOLATION: seconds component {d.seconds!r} != {expected}")
        bad += 1
sys.exit(1 if bad else 0)
