"""C06: DateTimeParser reads fixed-width fields with int(value[a:b]) and digits with
str.isdigit(), so strings that are not date/time literals at all are accepted:
a sign or blank inside a two-digit field, a '+' before the year, non-ASCII digits, an
empty fraction. XmlDuration's regex has an unescaped '.' and uses float()/\\d, so
'PT1_5S', 'PT1e5S' are accepted too."""
import sys
from xsdata.models.datatype import XmlDate, XmlDateTime, XmlDuration, XmlPeriod, XmlTime

cases = [(XmlDate.from_string, "2021-+1-01"),
         (XmlDate.from_string, "2021- 1- 1"),
         (XmlDate.from_string, "+2021-01-01"),
         (XmlDate.from_string, "٢٠٢١-٠١-٠١"),
         (XmlTime.from_string, "10:-0:+5"),
         (XmlTime.from_string, "10:00:00."),
         (XmlTime.from_string, "10:00:00+ 1:-0"),
         (XmlDateTime.from_string, "2021-01-01T 1: 2: 3"),
         (XmlPeriod, "--+1"),
         (XmlPeriod, "--- 1"),
         (XmlDuration, "PT1_5S"),
         (XmlDuration, "PT1e5S"),
         (XmlDuration, "P١Y")]
bad = 0
for func, text in cases:
    try:
        v = func(text)
        print(f"VIOLATION: {text!r} accepted -> {v!r} / str {str(v)!r}")
        bad += 1
    except ValueError as e:
        print("rejected", repr(text))
sys.exit(1 if bad else 0)
