"""C06: XmlTime.now(tz) and XmlTime.utcnow() build the value from
datetime.now(tz).time(), which strips tzinfo (timetz() keeps it). The result has
offset None, so the instant is lost: the same moment taken in two zones compares hours
apart, whereas XmlDateTime.now(tz)/utcnow() keep the offset."""
import sys
import datetime as dt
from xsdata.models.datatype import XmlDateTime, XmlTime

bad = 0
tz = dt.timezone(dt.timedelta(hours=5))
u = XmlTime.utcnow()
n = XmlTime.now(tz)
print("XmlTime.utcnow()      =", repr(u), "-> str", str(u))
print("XmlTime.now(+05:00)   =", repr(n), "-> str", str(n))
print("XmlDateTime.utcnow()  =", repr(XmlDateTime.utcnow()))
if u.offset != 0:
    print("VIOLATION: XmlTime.utcnow() has offset", u.offset, "instead of 0 (Z)")
    bad += 1
if n.offset != 300:
    print("VIOLATION: XmlTime.now(tz=+05:00) has offset", n.offset, "instead of 300")
    bad += 1
# the two calls are a few microseconds apart, yet differ by ~5h on the timeline
diff_hours = abs((n.hour * 60 + n.minute) - (u.hour * 60 + u.minute)) / 60
if n.offset is None and u.offset is None and 4.9 < min(diff_hours, 24 - diff_hours) < 5.1:
    print("VIOLATION: same instant, values ~5h apart and no offset to tell them apart")
    bad += 1
# and a direct conversion from an aware time keeps the offset, so this is not intended
assert XmlTime.from_time(dt.datetime.now(tz).timetz()).offset == 300
sys.exit(1 if bad else 0)
