"""C06: the timezone designator is never range checked. XSD allows (+|-)hh:mm with
hh 00..13, mm 00..59, or 14:00. '+99:99', '+24:00', '+14:01', '-00:60' are accepted by
XmlDate/XmlTime/XmlDateTime/XmlPeriod; formatting such a value produces strings like
'+100:39' that the library itself cannot parse, and to_datetime()/to_time() blow up."""
import sys
from xsdata.models.datatype import XmlDate, XmlDateTime, XmlPeriod, XmlTime

bad = 0
cases = [(XmlDateTime.from_string, "2021-01-01T00:00:00+99:99"),
         (XmlDateTime.from_string, "2021-01-01T00:00:00+14:01"),
         (XmlTime.from_string, "10:00:00-24:00"),
         (XmlTime.from_string, "10:00:00+00:60"),
         (XmlDate.from_string, "2021-01-01+15:00"),
         (XmlPeriod, "2021+99:99"),
         (XmlPeriod, "---15-25:00")]
for func, text in cases:
    try:
        v = func(text)
    except ValueError as e:
        print("rejected", text, e)
        continue
    print(f"VIOLATION: {text!r} accepted -> {v!r}")
    bad += 1
    out = str(v)
    try:
        again = func(out)
        if out != text:
            print(f"   formatted as {out!r}")
    except ValueError:
        print(f"   and str() gives {out!r} which does not parse back")
    for meth in ("to_datetime", "to_time"):
        if hasattr(v, meth):
            try:
                getattr(v, meth)()
            except Exception as e:
                print(f"   and {meth}() raises {type(e).__name__}: {e}")
sys.exit(1 if bad else 0)
