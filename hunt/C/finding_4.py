"""C05: a QName WITHOUT namespace, serialized with a prefix map that has a default
namespace, is written as the bare local name; reading that string back with the
same prefix map yields a QName IN the default namespace (different value)."""
import sys
from dataclasses import dataclass, field
from typing import Optional
from xml.etree.ElementTree import QName
from xsdata.formats.converter import converter

bad = 0
q = QName("foo")
ns_map = {None: "urn:x"}
s = converter.serialize(q, ns_map=ns_map)
back = converter.deserialize(s, [QName], ns_map=ns_map)
print(f"serialize({q!r}, ns_map={ns_map}) = {s!r}; deserialize -> {back!r}")
if back != q:
    print("VIOLATION: converter round trip changed the QName value")
    bad += 1

# end to end
from xsdata.formats.dataclass.parsers import XmlParser
from xsdata.formats.dataclass.serializers import XmlSerializer
from xsdata.formats.dataclass.serializers.config import SerializerConfig

@dataclass
class A:
    class Meta:
        namespace = "urn:x"
    q: Optional[QName] = field(default=None, metadata={"type": "Element"})

obj = A(q=QName("foo"))
xml = XmlSerializer(config=SerializerConfig(xml_declaration=False)).render(obj, ns_map={None: "urn:x"})
back = XmlParser().from_string(xml, A)
print(xml, "->", back)
if back != obj:
    print("VIOLATION: XML round trip changed the QName value")
    bad += 1
sys.exit(1 if bad else 0)
