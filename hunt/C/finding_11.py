"""C06: the XSD-valid end-of-day form 24:00:00 parses, but conversion to the
standard library does not preserve the instant: XmlDateTime.to_datetime() and
XmlTime.to_time() raise ValueError instead of returning the next day's 00:00:00
(dateTime) / 00:00:00 (time)."""
import sys
import datetime as dt
from xsdata.models.datatype import XmlDateTime, XmlTime

bad = 0
v = XmlDateTime.from_string("2021-12-31T24:00:00Z")
same = XmlDateTime.from_string("2022-01-01T00:00:00Z")
assert v == same  # the library itself knows it is the same instant
try:
    got = v.to_datetime()
    print("to_datetime ->", got)
    bad += got != dt.datetime(2022, 1, 1, tzinfo=dt.timezone.utc)
except ValueError as e:
    print(f"VIOLATION: {v!r}.to_datetime() raises ValueError: {e}  (equal value {same!r} gives {same.to_datetime()!r})")
    bad += 1
t = XmlTime.from_string("24:00:00")
try:
    got = t.to_time()
    print("to_time ->", got)
    bad += got != dt.time(0, 0, 0)
except ValueError as e:
    print(f"VIOLATION: {t!r}.to_time() raises ValueError: {e}")
    bad += 1
sys.exit(1 if bad else 0)
