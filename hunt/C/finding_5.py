"""C05: enums with a mixin type (IntEnum, StrEnum, class E(str, Enum)) never reach the
EnumConverter: ConverterFactory.type_converter walks the MRO and finds int/str before
Enum. deserialize returns a plain int/str (not the member) and accepts values that are
not members at all; no ConverterError / warning is produced."""
import sys
from enum import Enum, IntEnum, StrEnum
from xsdata.formats.converter import converter
from xsdata.exceptions import ConverterError

class Plain(Enum):
    RED = "red"
class Color(str, Enum):
    RED = "red"
class Color2(StrEnum):
    RED = "red"
class Num(IntEnum):
    ONE = 1

bad = 0
# control: plain Enum behaves
assert converter.deserialize("red", [Plain]) is Plain.RED
try:
    converter.deserialize("bogus", [Plain]); raise SystemExit("control failed")
except ConverterError:
    pass

for enum, good, bogus in ((Color, "red", "bogus"), (Color2, "red", "bogus"), (Num, "1", "7")):
    got = converter.deserialize(good, [enum])
    if not isinstance(got, enum):
        print(f"VIOLATION: deserialize({good!r}, [{enum.__name__}]) -> {got!r} ({type(got).__name__}), not an enum member")
        bad += 1
    try:
        got = converter.deserialize(bogus, [enum])
        print(f"VIOLATION: deserialize({bogus!r}, [{enum.__name__}]) -> {got!r} accepted although it is no member")
        bad += 1
    except ConverterError:
        print("rejected", bogus)

# end to end, strict parser config
from dataclasses import dataclass, field
from typing import Optional
from xsdata.formats.dataclass.parsers import XmlParser
from xsdata.formats.dataclass.parsers.config import ParserConfig

@dataclass
class A:
    c: Optional[Color] = field(default=None, metadata={"type": "Element"})
    n: Optional[Num] = field(default=None, metadata={"type": "Element"})

p = XmlParser(config=ParserConfig(fail_on_converter_warnings=True))
try:
    obj = p.from_string("<A><c>bogus</c><n>7</n></A>", A)
    print("VIOLATION end-to-end (fail_on_converter_warnings=True):", obj)
    bad += 1
except Exception as e:
    print("parser rejected:", e)
sys.exit(1 if bad else 0)
