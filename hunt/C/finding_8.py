"""C05: bytes with format: BytesConverter.serialize checks isinstance(value,
XmlHexBinary/XmlBase64Binary) BEFORE the explicit format, so a bytes value that is an
XmlHexBinary instance is written as hex into a base64 field (the explicit format is ignored). The
string is not the lexical form requested by `format`, and converting it back with
the same type and format gives different bytes or a ConverterError."""
import sys
from xsdata.formats.converter import converter
from xsdata.models.datatype import XmlBase64Binary, XmlHexBinary
from xsdata.exceptions import ConverterError

bad = 0
for value, fmt in ((XmlHexBinary(b"hello"), "base64"), (XmlHexBinary(b"abc"), "base64"), (XmlBase64Binary(b"hello"), "base16")):
    s = converter.serialize(value, format=fmt)
    control = converter.serialize(bytes(value), format=fmt)
    print(f"serialize({value!r}, format={fmt!r}) = {s!r}   (plain bytes give {control!r})")
    try:
        back = converter.deserialize(s, [type(value)], format=fmt)
    except ConverterError as e:
        back = f"ConverterError({e})"
    if back != value:
        print(f"VIOLATION: deserialize({s!r}, format={fmt!r}) -> {back!r} != {value!r}")
        bad += 1

# end to end: a base64Binary element receives hex text and cannot be parsed again
from dataclasses import dataclass, field
from typing import Optional
from xsdata.formats.dataclass.parsers import XmlParser
from xsdata.formats.dataclass.parsers.config import ParserConfig
from xsdata.formats.dataclass.serializers import XmlSerializer
from xsdata.formats.dataclass.serializers.config import SerializerConfig

@dataclass
class A:
    b: Optional[bytes] = field(default=None, metadata={"type": "Element", "format": "base64"})

obj = A(b=XmlHexBinary(b"abc"))
xml = XmlSerializer(config=SerializerConfig(xml_declaration=False)).render(obj)
print(xml)
try:
    back = XmlParser(config=ParserConfig(fail_on_converter_warnings=True)).from_string(xml, A)
    print("parsed:", back)
    if back.b != b"abc":
        print("VIOLATION: silently different bytes after XML round trip")
        bad += 1
except Exception as e:
    print("VIOLATION end-to-end:", str(e).replace("\n", " "))
    bad += 1
sys.exit(1 if bad else 0)
