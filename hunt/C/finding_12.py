"""C06: xs:time '24:00:00' and '00:00:00' denote the same value in XSD (the lexical
mapping turns hour 24 into hour 0; the canonical form is 00:00:00), but XmlTime
treats 24:00:00 as a different, later value - while XmlDateTime does normalise
24:00:00 to the next day. Equality / ordering of time values disagree with XSD."""
import sys
from xsdata.models.datatype import XmlDateTime, XmlTime

a = XmlTime.from_string("24:00:00")
b = XmlTime.from_string("00:00:00")
print("XmlTime 24:00:00 == 00:00:00 :", a == b, "| 24:00:00 > 23:59:59 :", a > XmlTime.from_string("23:59:59"),
      "| 24:00:00 > 00:00:01 :", a > XmlTime.from_string("00:00:01"))
# control: dateTime handles the roll over
assert XmlDateTime.from_string("2021-01-01T24:00:00") == XmlDateTime.from_string("2021-01-02T00:00:00")
bad = 0
if a != b:
    print("VIOLATION: XmlTime('24:00:00') != XmlTime('00:00:00')")
    bad += 1
if a > XmlTime.from_string("00:00:01"):
    print("VIOLATION: XmlTime('24:00:00') sorts after 00:00:01 although it is the value 00:00:00")
    bad += 1
sys.exit(1 if bad else 0)
