"""C05: QName '{uri}local' string form cannot be read back when the namespace URI
contains a hyphen (e.g. the XSI namespace). namespaces.URI_REGEX char classes are
written as `\\\\-` inside a raw string, so '-' is not an allowed URI character."""
import sys
from xml.etree.ElementTree import QName
from xsdata.formats.converter import converter
from xsdata.exceptions import ConverterError

bad = 0
for uri in ("http://www.w3.org/2001/XMLSchema-instance", "http://my-domain.com/ns", "urn:my-app:v1", "tag:example.com,2005:ns"):
    q = QName(uri, "type")
    s = converter.serialize(q)  # no ns_map -> "{uri}local"
    try:
        back = converter.deserialize(s, [QName])
        ok = back == q
        print(f"{s!r} -> {back!r} equal={ok}")
        bad += not ok
    except ConverterError as e:
        print(f"VIOLATION: serialize({q!r}) = {s!r} but deserialize raises ConverterError: {e}")
        bad += 1

# end to end through the JSON bindings
from dataclasses import dataclass, field
from typing import Optional
from xsdata.formats.dataclass.parsers import JsonParser
from xsdata.formats.dataclass.parsers.config import ParserConfig
from xsdata.formats.dataclass.serializers import JsonSerializer

@dataclass
class A:
    q: Optional[QName] = field(default=None, metadata={"type": "Element"})

obj = A(q=QName("http://www.w3.org/2001/XMLSchema-instance", "type"))
js = JsonSerializer().render(obj)
try:
    back = JsonParser(config=ParserConfig(fail_on_converter_warnings=True)).from_string(js, A)
    print("json roundtrip", back == obj)
    bad += back != obj
except Exception as e:
    print("VIOLATION (json roundtrip):", js, "->", type(e).__name__, str(e).replace("\n", " "))
    bad += 1
sys.exit(1 if bad else 0)
