"""C05: the QName 'xml:lang' (prefix xml is bound by definition to
http://www.w3.org/XML/1998/namespace in every XML document and may never be
undeclared) is rejected unless the caller's prefix map happens to contain 'xml'.
Both XML handlers fail to parse <q>xml:lang</q> into a QName field."""
import sys
from dataclasses import dataclass, field
from typing import Optional
from xml.etree.ElementTree import QName
from xsdata.formats.converter import converter
from xsdata.formats.dataclass.parsers import XmlParser
from xsdata.formats.dataclass.parsers.config import ParserConfig
from xsdata.formats.dataclass.parsers.handlers import LxmlEventHandler, XmlEventHandler

expected = QName("http://www.w3.org/XML/1998/namespace", "lang")
bad = 0
try:
    got = converter.deserialize("xml:lang", [QName], ns_map={"x": "urn:x"})
    print("converter ->", got)
    bad += got != expected
except Exception as e:
    print("VIOLATION converter:", type(e).__name__, e)
    bad += 1

@dataclass
class A:
    q: Optional[QName] = field(default=None, metadata={"type": "Element"})

for handler in (LxmlEventHandler, XmlEventHandler):
    p = XmlParser(config=ParserConfig(fail_on_converter_warnings=True), handler=handler)
    try:
        got = p.from_string("<A><q>xml:lang</q></A>", A)
        print(handler.__name__, "->", got)
        bad += got.q != expected
    except Exception as e:
        print("VIOLATION", handler.__name__, type(e).__name__, str(e).replace("\n", " "))
        bad += 1
sys.exit(1 if bad else 0)
