"""C06: XmlDateTime / XmlTime override __eq__ with timeline semantics but keep the
tuple hash of the raw fields. Two values that are equal (same instant written with
different offsets, or 24:00:00 vs next day 00:00:00) hash differently, so sets and
dict lookups disagree with ==."""
import sys
from xsdata.models.datatype import XmlDateTime, XmlTime

bad = 0
pairs = [(XmlDateTime.from_string("2021-01-01T12:00:00Z"), XmlDateTime.from_string("2021-01-01T13:00:00+01:00")),
         (XmlDateTime.from_string("2021-01-01T24:00:00"), XmlDateTime.from_string("2021-01-02T00:00:00")),
         (XmlTime.from_string("12:00:00Z"), XmlTime.from_string("13:00:00+01:00"))]
for a, b in pairs:
    eq = a == b
    same_hash = hash(a) == hash(b)
    in_set = b in {a}
    print(f"{a} == {b}: {eq}; hash equal: {same_hash}; b in {{a}}: {in_set}; len({{a, b}}) = {len({a, b})}")
    if eq and not same_hash:
        print("VIOLATION: equal values with different hashes")
        bad += 1
sys.exit(1 if bad else 0)
