"""C04 ("only JSON-native values so any JSON library can dump it"):
a float field holding INF/-INF/NaN (valid xs:float/xs:double values) is encoded
as the python float itself. The JSON text is `Infinity`, which is not JSON;
a strict dumper (json.dump(allow_nan=False), ujson, ...) refuses the encoded
form. Decimal infinity, by contrast, is encoded as the string "INF".
"""
import functools
import json
import sys
from dataclasses import dataclass, field

from xsdata.formats.dataclass.serializers import DictEncoder, JsonSerializer


@dataclass
class Root:
    a: float = field(default=0.0, metadata={"type": "Element"})


bad = False
obj = Root(a=float("inf"))
data = DictEncoder().encode(obj)
print("encoded:", data)
print("default json.dumps ->", json.dumps(data), "(not valid JSON text)")
try:
    json.dumps(data, allow_nan=False)
except ValueError as exc:
    print("strict json.dumps(allow_nan=False) ->", type(exc).__name__, exc)
    bad = True

strict_dump = functools.partial(json.dump, allow_nan=False)
try:
    print(JsonSerializer(dump_factory=strict_dump).render(obj))
except ValueError as exc:
    print("JsonSerializer(dump_factory=strict json.dump) ->", type(exc).__name__, exc)
    bad = True

# A strict JSON reader rejects the text produced by the default dumper too
text = JsonSerializer().render(obj)


def reject(name):
    raise ValueError(f"non JSON constant {name}")


try:
    json.loads(text, parse_constant=reject)
except ValueError as exc:
    print("strict json.loads ->", exc)
    bad = True
sys.exit(1 if bad else 0)
