"""C10 (dict/JSON decoder): with fail_on_unknown_properties=False an unknown key
inside an object that sits under a field with subclasses, a union-of-classes
field or a compound field makes decoding FAIL with ParserError.

bind_best_dataclass filters the candidates with context.local_names_match(),
which demands that the class knows *all* keys, regardless of the config.
(No value conversion is involved, this is not the known converter-warning case.)
"""
import sys
from dataclasses import dataclass, field
from typing import List, Optional, Union

from xsdata.exceptions import ParserError
from xsdata.formats.dataclass.parsers import DictDecoder, JsonParser
from xsdata.formats.dataclass.parsers.config import ParserConfig


@dataclass
class A:
    x: Optional[int] = field(default=None, metadata={"type": "Element"})


@dataclass
class A2(A):
    z: Optional[int] = field(default=None, metadata={"type": "Element"})


@dataclass
class B:
    y: Optional[str] = field(default=None, metadata={"type": "Element"})


@dataclass
class Root:
    plain: Optional[B] = field(default=None, metadata={"type": "Element"})
    sub: Optional[A] = field(default=None, metadata={"type": "Element"})
    uni: Optional[Union[B, A2]] = field(default=None, metadata={"type": "Element"})
    comp: List[Union[B, int]] = field(
        default_factory=list,
        metadata={
            "type": "Elements",
            "choices": ({"name": "b", "type": B}, {"name": "i", "type": int}),
        },
    )


lenient = ParserConfig(fail_on_unknown_properties=False)
cases = {
    "plain class field": ({"plain": {"y": "s"}}, {"plain": {"y": "s", "unk": 1}}),
    "field with subclasses": ({"sub": {"x": 1}}, {"sub": {"x": 1, "unk": 1}}),
    "union of classes": ({"uni": {"y": "s"}}, {"uni": {"y": "s", "unk": {"k": [1]}}}),
    "compound field": ({"comp": [{"y": "s"}]}, {"comp": [{"y": "s", "unk": None}]}),
}
bad = False
for name, (clean, dirty) in cases.items():
    expected = DictDecoder(config=lenient).decode(clean, Root)
    try:
        actual = DictDecoder(config=lenient).decode(dirty, Root)
        verdict = "same" if actual == expected else f"CHANGED {actual}"
        bad |= actual != expected
    except ParserError as exc:
        verdict = f"VIOLATION ParserError: {exc}"
        bad = True
    print(f"{name}: {verdict}")

try:
    JsonParser(config=lenient).from_string('{"sub": {"x": 1, "unk": 1}}', Root)
except ParserError as exc:
    print("JsonParser too:", exc)
sys.exit(1 if bad else 0)
