"""C10 (XML parser): with fail_on_unknown_properties=False an unknown element
injected at the FIRST child position of a simple-content element (class with a
text field + attributes) makes the text value disappear: the characters after
the skipped element are its tail and SkipNode/ElementNode drop them.
<v k="1">ab</v> -> V(value='ab') but <v k="1"><unk/>ab</v> -> V(value=None).
(Injected after the text the object is unchanged.)
"""
import sys
from dataclasses import dataclass, field
from typing import Optional

from xsdata.formats.dataclass.parsers import XmlParser
from xsdata.formats.dataclass.parsers.config import ParserConfig
from xsdata.formats.dataclass.parsers.handlers import XmlEventHandler


@dataclass
class V:
    value: Optional[str] = field(default=None)
    k: Optional[str] = field(default=None, metadata={"type": "Attribute"})


@dataclass
class Root:
    v: Optional[V] = field(default=None, metadata={"type": "Element"})


config = ParserConfig(fail_on_unknown_properties=False)
bad = False
for handler in (None, XmlEventHandler):
    kwargs = {"handler": handler} if handler else {}
    parser = XmlParser(config=config, **kwargs)
    expected = parser.from_string('<Root><v k="1">ab</v></Root>', Root)
    for doc in (
        '<Root><v k="1">ab<unk><d/></unk></v></Root>',
        '<Root><v k="1"><unk><d/></unk>ab</v></Root>',
    ):
        actual = parser.from_string(doc, Root)
        same = actual == expected
        print(f"{doc} -> {actual} {'same' if same else 'VIOLATION: object changed'}")
        bad |= not same
sys.exit(1 if bad else 0)
