"""C04: a model instance held by a wildcard (xs:any) field cannot be decoded.

The XML parser itself binds <other> inside a wildcard to the imported model
`Other` (plain instance, no wrapper). Encoding that object works, decoding it
back fails: DictDecoder only tries the types of the parent's *declared*
elements (meta.element_types), never the classes known to the context.
"""
import sys
from dataclasses import dataclass, field
from typing import List, Optional

from xsdata.formats.dataclass.parsers import XmlParser

from common import roundtrip


@dataclass
class Other:
    class Meta:
        name = "other"

    x: int = field(default=0, metadata={"type": "Element"})


@dataclass
class Root:
    a: Optional[int] = field(default=None, metadata={"type": "Element"})
    any_element: List[object] = field(
        default_factory=list, metadata={"type": "Wildcard", "namespace": "##any"}
    )


obj = XmlParser().from_string("<Root><a>1</a><other><x>3</x></other></Root>", Root)
print("object produced by XmlParser:", obj)
assert obj == Root(a=1, any_element=[Other(x=3)])
ok = roundtrip(obj)
sys.exit(0 if ok else 1)
