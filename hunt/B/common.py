"""Small helpers shared by the finding scripts (only stdlib + xsdata)."""
import json
import warnings

from xsdata.formats.dataclass.parsers import DictDecoder, JsonParser
from xsdata.formats.dataclass.serializers import DictEncoder, JsonSerializer


def roundtrip(obj, cls=None, factory=dict):
    """Return list of (channel, outcome, ok) for dict and json round trips."""
    cls = cls or type(obj)
    results = []
    with warnings.catch_warnings():
        warnings.simplefilter("ignore")
        try:
            data = DictEncoder(dict_factory=factory).encode(obj)
            print("  encoded dict:", data)
            json.dumps(data)
            back = DictDecoder().decode(data, cls)
            results.append(("dict", repr(back), back == obj))
        except Exception as exc:  # noqa
            results.append(("dict", f"{type(exc).__name__}: {exc}", False))
        try:
            text = JsonSerializer(dict_factory=factory).render(obj)
            back = JsonParser().from_string(text, cls)
            results.append(("json", repr(back), back == obj))
        except Exception as exc:  # noqa
            results.append(("json", f"{type(exc).__name__}: {exc}", False))
    for channel, outcome, ok in results:
        print(f"  [{channel}] {'EQUAL' if ok else 'VIOLATION'}: {outcome}")
    return all(ok for _, _, ok in results)
