"""C04: an instance of a SUBCLASS held by a compound (Elements) field or by a
union-of-classes field cannot be decoded.

For a plain element field DictDecoder.bind_complex_type adds the subclasses of
the declared class to the candidates; for compound fields and class unions it
only tries the declared types, so the extra key of the subclass makes every
candidate fail. The XML parser produces exactly such objects for xsi:type.
"""
import sys
from dataclasses import dataclass, field
from typing import List, Optional, Union

from xsdata.formats.dataclass.parsers import XmlParser
from xsdata.formats.dataclass.serializers import XmlSerializer

from common import roundtrip


@dataclass
class A:
    x: Optional[int] = field(default=None, metadata={"type": "Element"})


@dataclass
class A2(A):
    z: Optional[int] = field(default=None, metadata={"type": "Element"})


@dataclass
class B:
    y: Optional[str] = field(default=None, metadata={"type": "Element"})


@dataclass
class Compound:
    c: List[Union[A, B]] = field(
        default_factory=list,
        metadata={
            "type": "Elements",
            "choices": ({"name": "a", "type": A}, {"name": "b", "type": B}),
        },
    )


@dataclass
class ClassUnion:
    u: Optional[Union[A, B]] = field(default=None, metadata={"type": "Element"})


xml = (
    '<Compound xmlns:xsi="http://www.w3.org/2001/XMLSchema-instance">'
    '<a xsi:type="A2"><x>1</x><z>2</z></a></Compound>'
)
obj = XmlParser().from_string(xml, Compound)
print("object produced by XmlParser:", obj)
assert obj == Compound(c=[A2(x=1, z=2)])
ok = roundtrip(obj)

obj2 = ClassUnion(u=A2(x=1, z=2))
xml2 = XmlSerializer().render(obj2)
assert XmlParser().from_string(xml2, ClassUnion).u.value == A2(x=1, z=2)  # xml is fine
print("class union:", obj2)
ok &= roundtrip(obj2)
sys.exit(0 if ok else 1)
