"""C04: an optional tokens field (Optional[List[int]], default None) with the
value None: the encoder writes null, the decoder rejects the key as
"Unknown property" because null is not an array (default dict factory).
The XML round trip of the same object is fine.
"""
import sys
from dataclasses import dataclass, field
from typing import List, Optional

from xsdata.formats.dataclass.parsers import XmlParser
from xsdata.formats.dataclass.serializers import XmlSerializer

from common import roundtrip


@dataclass
class Root:
    t: Optional[List[int]] = field(
        default=None, metadata={"type": "Attribute", "tokens": True}
    )
    e: Optional[List[int]] = field(
        default=None, metadata={"type": "Element", "tokens": True, "nillable": True}
    )


for obj in (Root(t=[1, 2], e=[3]), Root()):
    xml = XmlSerializer().render(obj)
    assert XmlParser().from_string(xml, Root) == obj, xml  # xml round trip is fine

ok = roundtrip(Root(t=[1, 2], e=[3]))
ok &= roundtrip(Root())
sys.exit(0 if ok else 1)
