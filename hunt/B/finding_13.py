"""C10 (XML parser): an unknown attribute (or a tolerated xsi:* attribute) on an
element bound to a union field that mixes a primitive and a class
(Union[int, A]) changes the parsed object although unknown attributes are
configured to be ignored.

UnionNode.filter_fixed_attrs drops every primitive candidate as soon as the
element carries *any* attribute (`return not self.attrs`), so <m foo="1">12</m>
is bound to an empty A() instead of 12.
"""
import sys
from dataclasses import dataclass, field
from typing import Optional, Union

from xsdata.formats.dataclass.parsers import XmlParser
from xsdata.formats.dataclass.parsers.config import ParserConfig


@dataclass
class A:
    x: Optional[int] = field(default=None, metadata={"type": "Element"})
    s: Optional[str] = field(default=None, metadata={"type": "Attribute"})


@dataclass
class Root:
    m: Optional[Union[int, A]] = field(default=None, metadata={"type": "Element"})


XSI = 'xmlns:xsi="http://www.w3.org/2001/XMLSchema-instance"'
config = ParserConfig(fail_on_unknown_properties=False, fail_on_unknown_attributes=False)
parser = XmlParser(config=config)
expected = parser.from_string("<Root><m>12</m></Root>", Root)
print("clean:", expected)
bad = False
for doc in (
    '<Root><m foo="1">12</m></Root>',
    f'<Root {XSI}><m xsi:nil="false">12</m></Root>',
    f'<Root {XSI}><m xsi:schemaLocation="urn:a a.xsd">12</m></Root>',
):
    actual = parser.from_string(doc, Root)
    same = actual == expected
    bad |= not same
    print(f"{doc}\n   -> {actual} {'same' if same else 'VIOLATION: object changed'}")
sys.exit(1 if bad else 0)
