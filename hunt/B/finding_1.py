"""C04: a nil (None) value of a field that has a default decodes to the default.

The model is exactly what the generator emits for
<xs:element name="a" type="xs:int" nillable="true" default="5"/>.
With the DEFAULT dict factory the key is present with value null, so the
decoded object must have a=None, but DictDecoder/JsonParser return a=5.
"""
import sys
from dataclasses import dataclass, field
from typing import Optional

from common import roundtrip


@dataclass
class Root:
    a: Optional[int] = field(
        default=5, metadata={"type": "Element", "nillable": True}
    )


obj = Root(a=None)
print("original:", obj)
ok = roundtrip(obj)
sys.exit(0 if ok else 1)
