"""C04: compound (Elements) field whose choices are a str element and an element
of a type that is encoded as a JSON string (XmlDate, Decimal, QName, bytes,
enum...). The choices are NOT ambiguous for xsdata (distinct python types, the
context accepts the model, XML round trips), but after encoding the typed value
is a JSON string and find_primitive_choice lets the "exact type match" (str)
win over the successful conversion, so XmlDate(2000,1,1) comes back as the
plain string "2000-01-01".
Schema shape: <xs:choice maxOccurs="unbounded"><xs:element name="note"
type="xs:string"/><xs:element name="date" type="xs:date"/></xs:choice>.
"""
import sys
from dataclasses import dataclass, field
from decimal import Decimal
from typing import List, Union

from xsdata.formats.dataclass.parsers import XmlParser
from xsdata.formats.dataclass.serializers import XmlSerializer
from xsdata.models.datatype import XmlDate

from common import roundtrip


@dataclass
class Root:
    note_or_date: List[Union[str, XmlDate, Decimal]] = field(
        default_factory=list,
        metadata={
            "type": "Elements",
            "choices": (
                {"name": "note", "type": str},
                {"name": "date", "type": XmlDate},
                {"name": "amount", "type": Decimal},
            ),
        },
    )


obj = Root(note_or_date=["hello", XmlDate(2000, 1, 1), Decimal("1.50")])
xml = XmlSerializer().render(obj)
print(xml)
assert XmlParser().from_string(xml, Root) == obj  # xml round trip is fine
ok = roundtrip(obj)
sys.exit(0 if ok else 1)
