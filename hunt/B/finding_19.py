"""C10 (XML parser): with fail_on_unknown_attributes=True an unknown attribute
only fails on elements bound to a class. On an element bound to a primitive
field, on a wrapper element and on a nil (xsi:nil="true") element of a nillable
field it is silently accepted, so the option does not do what it says there.
"""
import sys
from dataclasses import dataclass, field
from typing import List, Optional

from xsdata.exceptions import ParserError
from xsdata.formats.dataclass.parsers import XmlParser
from xsdata.formats.dataclass.parsers.config import ParserConfig


@dataclass
class A:
    x: Optional[int] = field(default=None, metadata={"type": "Element"})


@dataclass
class Root:
    a: Optional[int] = field(default=None, metadata={"type": "Element"})
    n: Optional[A] = field(default=None, metadata={"type": "Element", "nillable": True})
    vals: List[int] = field(
        default_factory=list, metadata={"type": "Element", "wrapper": "items"}
    )


XSI = 'xmlns:xsi="http://www.w3.org/2001/XMLSchema-instance"'
parser = XmlParser(config=ParserConfig(fail_on_unknown_attributes=True))
docs = {
    "control: class-bound element": f'<Root {XSI}><n foo="1"><x>1</x></n></Root>',
    "primitive element": f'<Root {XSI}><a foo="1">12</a></Root>',
    "wrapper element": f'<Root {XSI}><items foo="1"><vals>1</vals></items></Root>',
    "wrapped primitive item": f'<Root {XSI}><items><vals foo="1">1</vals></items></Root>',
    "nil element": f'<Root {XSI}><n xsi:nil="true" foo="1"/></Root>',
}
bad = False
for name, doc in docs.items():
    try:
        obj = parser.from_string(doc, Root)
        print(f"{name}: no error -> {obj}" + ("" if name.startswith("control") else "  VIOLATION"))
        bad = True
    except ParserError as exc:
        print(f"{name}: ParserError {exc}")
sys.exit(1 if bad else 0)
