"""C10 (XML parser): the item element of a WRAPPED list field that appears
outside its wrapper (directly under the parent, where the model declares no
such element) is not treated as unknown: under the strict default nothing is
raised, and in both modes the stray element is bound into the wrapped list,
so adding it changes the parsed object.
"""
import sys
from dataclasses import dataclass, field
from typing import List

from xsdata.exceptions import ParserError
from xsdata.formats.dataclass.parsers import XmlParser
from xsdata.formats.dataclass.parsers.config import ParserConfig
from xsdata.formats.dataclass.serializers import XmlSerializer


@dataclass
class Root:
    vals: List[int] = field(
        default_factory=list, metadata={"type": "Element", "wrapper": "items"}
    )


print(XmlSerializer().render(Root(vals=[1])))
clean = "<Root><items><vals>1</vals></items></Root>"
dirty = "<Root><vals>9</vals><items><vals>1</vals></items></Root>"
bad = False
for strict in (True, False):
    parser = XmlParser(config=ParserConfig(fail_on_unknown_properties=strict))
    expected = parser.from_string(clean, Root)
    try:
        actual = parser.from_string(dirty, Root)
        if strict:
            print(f"strict: VIOLATION no ParserError, parsed {actual}")
            bad = True
        else:
            same = actual == expected
            print(f"lenient: {actual} {'same' if same else 'VIOLATION: object changed'}")
            bad |= not same
    except ParserError as exc:
        print(f"strict={strict}: ParserError {exc}", "ok" if strict else "VIOLATION")
        bad |= not strict
sys.exit(1 if bad else 0)
