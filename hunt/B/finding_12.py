"""C10 (XML parser): an unknown child element injected into an element that is
bound to a PRIMITIVE field (<a>12<unk/></a>) raises XmlContextError
("Primitive node doesn't support child nodes!") for every config:
  - fail_on_unknown_properties=False: must be ignored, object unchanged
  - strict default: must be a ParserError (XmlContextError is not a ParserError)
Same for an xsi:type'd standard value under an anyType/wildcard field.
"""
import sys
from dataclasses import dataclass, field
from typing import List, Optional

from xsdata.exceptions import ParserError
from xsdata.formats.dataclass.parsers import XmlParser
from xsdata.formats.dataclass.parsers.config import ParserConfig
from xsdata.formats.dataclass.parsers.handlers import XmlEventHandler


@dataclass
class Root:
    a: Optional[int] = field(default=None, metadata={"type": "Element"})
    b: List[str] = field(default_factory=list, metadata={"type": "Element"})


clean = "<Root><a>12</a><b>x</b></Root>"
dirty = "<Root><a>12<unk><deep k='1'>t</deep></unk></a><b>x</b></Root>"
bad = False
for strict in (False, True):
    config = ParserConfig(fail_on_unknown_properties=strict)
    for handler in (None, XmlEventHandler):
        kwargs = {"handler": handler} if handler else {}
        parser = XmlParser(config=config, **kwargs)
        expected = parser.from_string(clean, Root)
        try:
            actual = parser.from_string(dirty, Root)
            outcome = "same object" if actual == expected else f"changed: {actual}"
            ok = (not strict) and actual == expected
        except ParserError as exc:
            outcome = f"ParserError: {exc}"
            ok = strict
        except Exception as exc:  # noqa
            outcome = f"{type(exc).__name__} (not a ParserError): {exc}"
            ok = False
        print(f"fail_on_unknown_properties={strict} handler={handler and handler.__name__}: "
              f"{'ok' if ok else 'VIOLATION'} -> {outcome}")
        bad |= not ok
sys.exit(1 if bad else 0)
