"""C10 (XML parser, "xsi attributes being always tolerated"): adding
xsi:nil="false" to a nillable element bound to a class makes the element
"unknown": ParserError `Unknown property Root:n` under the strict default, and
the whole element is silently dropped when unknown properties are ignored.

ElementNode.build_element_node returns None when `nillable != xsi_nil`,
i.e. also for the perfectly valid nillable=True / xsi:nil="false".
"""
import sys
from dataclasses import dataclass, field
from typing import Optional

from xsdata.exceptions import ParserError
from xsdata.formats.dataclass.parsers import XmlParser
from xsdata.formats.dataclass.parsers.config import ParserConfig


@dataclass
class A:
    x: Optional[int] = field(default=None, metadata={"type": "Element"})


@dataclass
class Root:
    n: Optional[A] = field(default=None, metadata={"type": "Element", "nillable": True})


XSI = 'xmlns:xsi="http://www.w3.org/2001/XMLSchema-instance"'
clean = f"<Root {XSI}><n><x>1</x></n></Root>"
dirty = f'<Root {XSI}><n xsi:nil="false"><x>1</x></n></Root>'
bad = False
for strict in (True, False):
    parser = XmlParser(config=ParserConfig(fail_on_unknown_properties=strict))
    expected = parser.from_string(clean, Root)
    try:
        actual = parser.from_string(dirty, Root)
        same = actual == expected
        print(f"fail_on_unknown_properties={strict}: {actual} "
              f"{'same' if same else 'VIOLATION: object changed, expected ' + repr(expected)}")
        bad |= not same
    except ParserError as exc:
        print(f"fail_on_unknown_properties={strict}: VIOLATION ParserError: {exc}")
        bad = True
sys.exit(1 if bad else 0)
