"""C10 (XML parser): a value that cannot be converted, located below a
union-of-classes element field, makes the XML parser fail with ParserError
although fail_on_converter_warnings=False (the same value below an ordinary
class field is kept as given with a ConverterWarning).

UnionNode.bind replays the events for every candidate with
fail_on_converter_warnings forced to True and has no lenient fallback.
(XML-parser counterpart of the behaviour already known for the dict decoder.)
"""
import sys
import warnings
from dataclasses import dataclass, field
from typing import Optional, Union

from xsdata.exceptions import ParserError
from xsdata.formats.dataclass.parsers import XmlParser
from xsdata.formats.dataclass.parsers.config import ParserConfig


@dataclass
class A:
    x: Optional[int] = field(default=None, metadata={"type": "Element"})


@dataclass
class B:
    y: Optional[str] = field(default=None, metadata={"type": "Element"})


@dataclass
class Root:
    n: Optional[A] = field(default=None, metadata={"type": "Element"})
    u: Optional[Union[A, B]] = field(default=None, metadata={"type": "Element"})


parser = XmlParser(config=ParserConfig(fail_on_converter_warnings=False))
bad = False
for doc in ("<Root><n><x>abc</x></n></Root>", "<Root><u><x>abc</x></u></Root>"):
    with warnings.catch_warnings(record=True) as caught:
        warnings.simplefilter("always")
        try:
            obj = parser.from_string(doc, Root)
            print(doc, "->", obj, "| warnings:", len(caught))
        except ParserError as exc:
            print(doc, "-> VIOLATION ParserError:", exc)
            bad = True
sys.exit(1 if bad else 0)
