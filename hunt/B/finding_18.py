"""C10 (dict/JSON decoder): under the strict default an unknown key placed
inside the object of a WRAPPER ({"items": {"vals": [...], "unk": 1}}) is
silently ignored, while the same key anywhere else raises ParserError.
bind_dataclass only picks value[var.local_name] out of the wrapper object.
"""
import sys
from dataclasses import dataclass, field
from typing import List

from xsdata.exceptions import ParserError
from xsdata.formats.dataclass.parsers import DictDecoder
from xsdata.formats.dataclass.parsers.config import ParserConfig
from xsdata.formats.dataclass.serializers import DictEncoder


@dataclass
class Root:
    vals: List[int] = field(
        default_factory=list, metadata={"type": "Element", "wrapper": "items"}
    )


print("encoded form:", DictEncoder().encode(Root(vals=[1])))
strict = ParserConfig(fail_on_unknown_properties=True)
bad = False
for data in (
    {"items": {"vals": [1]}, "unk": 1},
    {"items": {"vals": [1], "unk": 1}},
    {"items": {"vals": [1], "unk": {"deep": [1, 2]}}},
):
    try:
        obj = DictDecoder(config=strict).decode(data, Root)
        print(data, "-> VIOLATION no error:", obj)
        bad = True
    except ParserError as exc:
        print(data, "-> ParserError:", exc)
sys.exit(1 if bad else 0)
