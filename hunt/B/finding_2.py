"""C04: an element and an attribute with the same local name share one JSON key.

The generator emits this model for a complex type that has both a child element
`id` and an attribute `id` (fields `id` and `id_attribute`, both named "id").
DictEncoder writes both under the key "id", the second overwrites the first,
and the decoder binds the survivor to the wrong field.
"""
import sys
from dataclasses import dataclass, field
from typing import Optional

from common import roundtrip


@dataclass
class Root:
    id: Optional[str] = field(
        default=None, metadata={"type": "Element", "namespace": ""}
    )
    id_attribute: Optional[int] = field(
        default=None, metadata={"name": "id", "type": "Attribute"}
    )


obj = Root(id="abc", id_attribute=7)
print("original:", obj)
ok = roundtrip(obj)
sys.exit(0 if ok else 1)
