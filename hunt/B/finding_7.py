"""C04: non-repeating compound field (Elements) holding the value of a TOKENS
choice: the encoded array is not matched to the field ("Unknown property").

The generator (compound_fields enabled) emits exactly this field for
<xs:choice minOccurs="0"><xs:element name="num" type="xs:int"/>
<xs:element name="toks" type="xs:NMTOKENS"/></xs:choice>.
DictDecoder.find_var compares "value is an array" with
"var.list_element or var.tokens", both False for the compound var itself.
"""
import sys
from dataclasses import dataclass, field
from typing import List, Optional, Union

from xsdata.formats.dataclass.parsers import XmlParser
from xsdata.formats.dataclass.serializers import XmlSerializer

from common import roundtrip


@dataclass
class Root:
    num_or_toks: Optional[Union[int, List[str]]] = field(
        default=None,
        metadata={
            "type": "Elements",
            "choices": (
                {"name": "num", "type": int, "namespace": ""},
                {
                    "name": "toks",
                    "type": List[str],
                    "namespace": "",
                    "default_factory": list,
                    "tokens": True,
                },
            ),
        },
    )


obj = Root(num_or_toks=["x", "y"])
xml = XmlSerializer().render(obj)
print(xml)
assert XmlParser().from_string(xml, Root) == obj  # the xml round trip is fine
ok = roundtrip(Root(num_or_toks=3))
ok &= roundtrip(obj)
sys.exit(0 if ok else 1)
