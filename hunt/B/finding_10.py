"""C04 (None-filtering factory), residual of the known AnyElement/tail fix:
generic elements whose *qname* (AnyElement) or *value* (DerivedElement) is None.

The XML parser creates AnyElement(qname=None, text=..., children=[...]) for a
single-valued wildcard that receives text plus a child. With
DictFactory.FILTER_NONE the key "qname" is dropped and DictDecoder.is_generic
(which only treats tail/text/type as optional) no longer recognises the object.
"""
import sys
from dataclasses import dataclass, field
from typing import Optional

from xsdata.formats.dataclass.parsers import XmlParser
from xsdata.formats.dataclass.serializers import DictFactory

from common import roundtrip


@dataclass
class Root:
    any_element: Optional[object] = field(
        default=None, metadata={"type": "Wildcard", "namespace": "##any"}
    )


obj = XmlParser().from_string("<Root>text<foo/></Root>", Root)
print("object produced by XmlParser:", obj)
print("default factory")
ok = roundtrip(obj)
print("filter-none factory")
ok &= roundtrip(obj, factory=DictFactory.FILTER_NONE)
sys.exit(0 if ok else 1)
