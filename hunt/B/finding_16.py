"""C10 (dict/JSON decoder): a value that cannot be converted is NOT "kept as
given": the decoder first turns the JSON value into its XML lexical string and
keeps that string. 1.5 -> "1.5", true -> "true", [1, 2.5] -> "1 2.5".
"""
import sys
import warnings
from dataclasses import dataclass, field
from typing import List, Optional

from xsdata.formats.dataclass.parsers import JsonParser
from xsdata.formats.dataclass.parsers.config import ParserConfig


@dataclass
class Root:
    a: Optional[int] = field(default=None, metadata={"type": "Element"})
    f: Optional[float] = field(default=None, metadata={"type": "Element"})
    t: List[int] = field(default_factory=list, metadata={"type": "Element", "tokens": True})


parser = JsonParser(config=ParserConfig(fail_on_converter_warnings=False))
bad = False
for text, name, given in (
    ('{"a": 1.5}', "a", 1.5),
    ('{"a": true}', "a", True),
    ('{"f": false}', "f", False),
    ('{"t": [1, 2.5]}', "t", [1, 2.5]),
    ('{"a": "abc"}', "a", "abc"),
):
    with warnings.catch_warnings(record=True) as caught:
        warnings.simplefilter("always")
        obj = parser.from_string(text, Root)
    kept = getattr(obj, name)
    same = kept == given and type(kept) is type(given)
    print(f"{text}: given {given!r}, kept {kept!r}, warnings={len(caught)} "
          f"{'ok' if same else 'VIOLATION: not kept as given'}")
    bad |= not same
sys.exit(1 if bad else 0)
