"""C04: field declared with a base class that has subclasses: an instance of the
BASE class decodes as an instance of a subclass (default dict factory).

Base(x=1) encodes to {"x": 1}. A Derived would encode to {"x": 1, "y": null}
with the default factory, so the document identifies Base exactly. The decoder
scores Base(x=1) and Derived(x=1, y=None) equally (None scores 0) and keeps the
first of an unordered set, which is the subclass.
"""
import sys
from dataclasses import dataclass, field
from typing import Optional

from common import roundtrip


@dataclass
class Base:
    x: int = field(default=0, metadata={"type": "Element"})


@dataclass
class Derived(Base):
    y: Optional[int] = field(default=None, metadata={"type": "Element"})


@dataclass
class Root:
    b: Optional[Base] = field(default=None, metadata={"type": "Element"})


ok = True
for value in (Base(x=1), Derived(x=1), Derived(x=1, y=2)):
    obj = Root(b=value)
    print("original:", obj)
    ok &= roundtrip(obj)
sys.exit(0 if ok else 1)
