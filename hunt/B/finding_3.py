"""C04: a user model whose fields are named qname/value(/type) is mistaken for
the generic DerivedElement by DictDecoder.is_generic.

The generator emits exactly this model for
<param qname="..." type="...">text</param> (simple content + 2 attributes).
"""
import sys
from dataclasses import dataclass, field
from typing import List, Optional

from common import roundtrip


@dataclass
class Param:
    class Meta:
        name = "param"

    value: str = field(default="")
    qname: Optional[str] = field(default=None, metadata={"type": "Attribute"})
    type_value: Optional[str] = field(
        default=None, metadata={"name": "type", "type": "Attribute"}
    )


@dataclass
class Holder:
    param: List[Param] = field(default_factory=list, metadata={"type": "Element"})


ok = True
print("as document root")
ok &= roundtrip(Param(value="v", qname="q", type_value="t"))
print("as nested element")
ok &= roundtrip(Holder(param=[Param(value="v", qname="q", type_value="t")]))
sys.exit(0 if ok else 1)
