from dataclasses import dataclass, field
from typing import Optional, List, Dict, Union, Tuple
from decimal import Decimal
from enum import Enum
from xml.etree.ElementTree import QName
from h import rt
from xsdata.formats.dataclass.models.generics import AnyElement, DerivedElement
from xsdata.formats.dataclass.serializers.config import SerializerConfig
from xsdata.models.datatype import *
def t(name, obj, **kw):
    print(name, rt(obj, verbose=False, **kw))

@dataclass
class Base:
    class Meta:
        namespace = "urn:a"
    x: Optional[int] = field(default=None, metadata={"type": "Element"})

@dataclass
class Der(Base):
    class Meta:
        namespace = "urn:b"
        name = "der"
    y: Optional[int] = field(default=None, metadata={"type": "Element"})

@dataclass
class Der2(Base):
    y: Optional[int] = field(default=None, metadata={"type": "Element"})

@dataclass
class Root:
    class Meta:
        namespace = "urn:r"
    b: Optional[Base] = field(default=None, metadata={"type": "Element"})
    bs: List[Base] = field(default_factory=list, metadata={"type": "Element", "namespace": ""})

t("X1", Root(b=Der(1, 2)))
t("X2", Root(b=Der2(1, 2)))
t("X3", Root(bs=[Der(1, 2), Base(3), Der2(4,5)]))
t("X4", Root(bs=[Der(1, 2), Base(3), Der2(4,5)]), ns_map={None: "urn:r"})
t("X5", Root(bs=[Der(1, 2), Base(3), Der2(4,5)]), ns_map={None: "urn:b"})
t("X6", Root(b=Der(1,2), bs=[Der(1, 2), Base(3), Der2(4,5)]), ns_map={None: "urn:a"})
t("X7", Der(1,2))
t("X8", Der(1,2), clazz=Base)

# Root-level derived element
t("X9", DerivedElement(qname="{urn:zz}foo", value=Der(1,2)), clazz=Der)

# union of dataclasses
@dataclass
class U1:
    a: int = field(metadata={"type": "Element"})
@dataclass
class U2:
    a: str = field(metadata={"type": "Element"})
@dataclass
class UR:
    u: Union[U1, U2] = field(metadata={"type": "Element"})
    us: List[Union[U1, U2, int]] = field(default_factory=list, metadata={"type": "Element"})
t("U1", UR(u=U1(1)))
t("U2", UR(u=U2("x")))
t("U3", UR(u=U2("1")))
t("U4", UR(u=U1(1), us=[U1(1), 5, U2("z")]))
t("U5", UR(u=U1(1), us=[0]))
