import sys, warnings
from dataclasses import dataclass, field
from typing import Dict, List, Optional, Tuple, Union
from xml.etree.ElementTree import QName

from xsdata.formats.dataclass.context import XmlContext
from xsdata.formats.dataclass.models.generics import AnyElement, DerivedElement
from xsdata.formats.dataclass.parsers import XmlParser
from xsdata.formats.dataclass.parsers.handlers import LxmlEventHandler, XmlEventHandler
from xsdata.formats.dataclass.serializers import XmlSerializer
from xsdata.formats.dataclass.serializers.config import SerializerConfig
from xsdata.formats.dataclass.serializers.writers import LxmlEventWriter, XmlEventWriter

WRITERS = {"native": XmlEventWriter, "lxml": LxmlEventWriter}
HANDLERS = {"native": XmlEventHandler, "lxml": LxmlEventHandler}
XSI = "http://www.w3.org/2001/XMLSchema-instance"
XS = "http://www.w3.org/2001/XMLSchema"


def roundtrip(obj, ns_map=None, config=None, writers=WRITERS, handlers=HANDLERS):
    """Render + parse back with every writer/handler combination.

    Returns the number of combinations for which parse(render(obj)) != obj
    (or for which rendering / parsing raised)."""
    bad = 0
    for wn, writer in writers.items():
        for hn, handler in handlers.items():
            ctx = XmlContext()
            try:
                xml = XmlSerializer(context=ctx, config=config or SerializerConfig(), writer=writer).render(obj, ns_map=ns_map)
            except Exception as e:
                print(f"[{wn} writer / {hn} handler] render raised {type(e).__name__}: {e}")
                bad += 1
                continue
            print(f"[{wn} writer / {hn} handler] xml: {xml!r}")
            try:
                with warnings.catch_warnings():
                    warnings.simplefilter("ignore")
                    back = XmlParser(context=ctx, handler=handler).from_string(xml, type(obj))
            except Exception as e:
                print(f"    parse raised {type(e).__name__}: {e}")
                bad += 1
                continue
            if back != obj:
                print(f"    MISMATCH\n      original: {obj!r}\n      parsed  : {back!r}")
                bad += 1
            else:
                print("    ok")
    return bad

# C01: empty string in an element whose type is a union of a class and str
# (Union[U1, int, str]).  "" is written as <us/>, the UnionNode receives text=None,
# every candidate yields None and the parser raises "Failed to parse union node".
# (In a plain List[Union[int, str]] field the same value round-trips.)
@dataclass
class U1:
    a: int = field(metadata={"type": "Element"})


@dataclass
class Root:
    us: List[Union[U1, int, str]] = field(default_factory=list, metadata={"type": "Element"})


@dataclass
class Plain:
    us: List[Union[int, str]] = field(default_factory=list, metadata={"type": "Element"})


print("--- control: primitive-only union")
control = roundtrip(Plain(us=["a", "", 0]))
print("--- union with a class")
bad = roundtrip(Root(us=["a", "", 0]))
print("control failures:", control, " failures:", bad)
sys.exit(1 if (bad and not control) else 0)
