from dataclasses import dataclass, field
from typing import Optional, List, Dict, Union, Tuple
from decimal import Decimal
from enum import Enum
from xml.etree.ElementTree import QName
from h import rt
from xsdata.formats.dataclass.models.generics import AnyElement, DerivedElement
from xsdata.formats.dataclass.serializers.config import SerializerConfig
from xsdata.models.datatype import *
cfg = SerializerConfig(ignore_default_attributes=True)
def t(name, obj, **kw):
    print(name, rt(obj, verbose=False, config=cfg, **kw))

class E(Enum):
    A = 1
    B = 2

@dataclass
class D:
    i: int = field(default=1, metadata={"type": "Attribute"})
    f: float = field(default=1.0, metadata={"type": "Attribute"})
    s: str = field(default="x", metadata={"type": "Attribute"})
    b: bool = field(default=True, metadata={"type": "Attribute"})
    e: E = field(default=E.A, metadata={"type": "Attribute"})
    l: List[int] = field(default_factory=lambda: [1, 2], metadata={"type": "Attribute", "tokens": True})
    o: Optional[int] = field(default=3, metadata={"type": "Attribute"})
    q: QName = field(default=QName("{urn:a}b"), metadata={"type": "Attribute"})
    d: Decimal = field(default=Decimal("1.0"), metadata={"type": "Attribute"})
    fx: int = field(init=False, default=7, metadata={"type": "Attribute"})
    r: int = field(default=4, metadata={"type": "Attribute", "required": True})

t("D0", D())
t("D1", D(i=True))  # bool 1 == 1
t("D2", D(f=1))
t("D3", D(b=1))
t("D4", D(d=Decimal("1.00")))
t("D5", D(l=[]))
t("D6", D(i=2, f=2.0, s="", b=False, e=E.B, l=[3], o=4, q=QName("c"), d=Decimal(2)))
t("D7", D(s=""))

@dataclass
class P:
    class Meta:
        nillable = True
    a: Optional[int] = field(default=None, metadata={"type": "Attribute"})
    v: Optional[str] = field(default=None, metadata={"type": "Text"})
@dataclass
class PR:
    p: Optional[P] = field(default=None, metadata={"type": "Element"})
    ps: List[P] = field(default_factory=list, metadata={"type": "Element"})
print("P1", rt(PR(p=P(), ps=[P(), P(v="x")]), verbose=False))
print("P2", rt(P(), verbose=False))
print("P3", rt(P(v="x", a=1), verbose=False))
