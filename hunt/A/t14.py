from dataclasses import dataclass, field
from typing import Optional, List, Dict, Union, Tuple
from h import rt
def t(name, obj, **kw):
    print(name, rt(obj, verbose=False, **kw))
@dataclass
class U1:
    a: int = field(metadata={"type": "Element"})
@dataclass
class UP:
    u: Optional[Union[U1, int]] = field(default=None, metadata={"type": "Element"})
    us: List[Union[U1, int, str]] = field(default_factory=list, metadata={"type": "Element"})
t("a", UP(u=0))
t("b", UP(us=[0]))
t("c", UP(us=["a"]))
t("d", UP(us=[""]))
t("e", UP(us=[U1(1)]))
t("f", UP(us=[" "]))
