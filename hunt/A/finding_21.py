import sys, warnings
from dataclasses import dataclass, field
from typing import Dict, List, Optional, Tuple, Union
from xml.etree.ElementTree import QName

from xsdata.formats.dataclass.context import XmlContext
from xsdata.formats.dataclass.models.generics import AnyElement, DerivedElement
from xsdata.formats.dataclass.parsers import XmlParser
from xsdata.formats.dataclass.parsers.handlers import LxmlEventHandler, XmlEventHandler
from xsdata.formats.dataclass.serializers import XmlSerializer
from xsdata.formats.dataclass.serializers.config import SerializerConfig
from xsdata.formats.dataclass.serializers.writers import LxmlEventWriter, XmlEventWriter

WRITERS = {"native": XmlEventWriter, "lxml": LxmlEventWriter}
HANDLERS = {"native": XmlEventHandler, "lxml": LxmlEventHandler}
XSI = "http://www.w3.org/2001/XMLSchema-instance"
XS = "http://www.w3.org/2001/XMLSchema"


def roundtrip(obj, ns_map=None, config=None, writers=WRITERS, handlers=HANDLERS):
    """Render + parse back with every writer/handler combination.

    Returns the number of combinations for which parse(render(obj)) != obj
    (or for which rendering / parsing raised)."""
    bad = 0
    for wn, writer in writers.items():
        for hn, handler in handlers.items():
            ctx = XmlContext()
            try:
                xml = XmlSerializer(context=ctx, config=config or SerializerConfig(), writer=writer).render(obj, ns_map=ns_map)
            except Exception as e:
                print(f"[{wn} writer / {hn} handler] render raised {type(e).__name__}: {e}")
                bad += 1
                continue
            print(f"[{wn} writer / {hn} handler] xml: {xml!r}")
            try:
                with warnings.catch_warnings():
                    warnings.simplefilter("ignore")
                    back = XmlParser(context=ctx, handler=handler).from_string(xml, type(obj))
            except Exception as e:
                print(f"    parse raised {type(e).__name__}: {e}")
                bad += 1
                continue
            if back != obj:
                print(f"    MISMATCH\n      original: {obj!r}\n      parsed  : {back!r}")
                bad += 1
            else:
                print("    ok")
    return bad

# C03: user prefix maps that bind reserved namespace names are written verbatim and give
# documents that are not namespace-well-formed (both writers, no serializer error):
#   a) {"p": "http://www.w3.org/2000/xmlns/"}  - the xmlns namespace must never be declared
#   b) {None: "http://www.w3.org/XML/1998/namespace"} on a qualified root - the xml
#      namespace must not be the default namespace
# EventHandler.validate_prefix only looks at the prefix "xml"/"xmlns" and returns early
# for the default namespace.
import xml.dom.minidom
from lxml import etree
from xsdata.exceptions import SerializerError, XmlWriterError


@dataclass
class Root:
    class Meta:
        namespace = "urn:a"

    x: Optional[int] = field(default=None, metadata={"type": "Element"})


bad = 0
for ns_map in ({"p": "http://www.w3.org/2000/xmlns/"}, {None: "http://www.w3.org/XML/1998/namespace"}):
    for wn, writer in WRITERS.items():
        try:
            out = XmlSerializer(writer=writer).render(Root(1), ns_map=dict(ns_map))
        except (SerializerError, XmlWriterError) as e:
            print(wn, ns_map, "serializer error (allowed):", e)
            continue
        print(wn, ns_map, "->", repr(out))
        errors = []
        try:
            xml.dom.minidom.parseString(out)
        except Exception as e:
            errors.append(f"expat: {e}")
        try:
            etree.fromstring(out.encode())
        except Exception as e:
            errors.append(f"libxml2: {e}")
        if errors:
            print("   NOT namespace-well-formed:", "; ".join(errors))
            bad += 1
print("violations:", bad)
sys.exit(1 if bad else 0)
