from dataclasses import dataclass, field
from typing import Optional, List, Dict, Union, Tuple
from decimal import Decimal
from enum import Enum
import datetime
from xml.etree.ElementTree import QName
from h import rt
from xsdata.formats.dataclass.models.generics import AnyElement, DerivedElement
from xsdata.formats.dataclass.serializers.config import SerializerConfig
from xsdata.models.datatype import *
def t(name, obj, **kw):
    print(name, rt(obj, verbose=False, **kw))

@dataclass
class N:
    f: Optional[float] = field(default=None, metadata={"type": "Element"})
    d: Optional[Decimal] = field(default=None, metadata={"type": "Attribute"})
    i: Optional[int] = field(default=None, metadata={"type": "Attribute"})
    b: Optional[bool] = field(default=None, metadata={"type": "Attribute"})
for i, f in enumerate([0.0, -0.0, 1e22, 1e-7, 5e-324, 1.7976931348623157e308, float("inf"), float("-inf"), 123456789.123456789]):
    t(f"F{i}", N(f=f))
for i, d in enumerate(["0", "-0", "1E+2", "1E-10", "1.10", "Infinity", "-Infinity", "123456789012345678901234567890.123456789", "0E-8", "1E+30"]):
    t(f"D{i}", N(d=Decimal(d)))
t("I", N(i=-2**100, b=False))

@dataclass
class DT:
    d: Optional[datetime.date] = field(default=None, metadata={"type": "Element", "format": "%Y-%m-%d"})
    t: Optional[datetime.time] = field(default=None, metadata={"type": "Element", "format": "%H:%M:%S.%f"})
    dt: Optional[datetime.datetime] = field(default=None, metadata={"type": "Attribute", "format": "%Y-%m-%dT%H:%M:%S%z"})
t("DT1", DT(d=datetime.date(2020,1,2), t=datetime.time(1,2,3,4), dt=datetime.datetime(2020,1,2,3,4,5,tzinfo=datetime.timezone.utc)))
t("DT2", DT(d=datetime.date(99,1,2)))
t("DT3", DT(dt=datetime.datetime(2020,1,2,3,4,5,tzinfo=datetime.timezone(datetime.timedelta(hours=5, minutes=30)))))
t("DT4", DT(dt=datetime.datetime(2020,1,2,3,4,5,tzinfo=datetime.timezone(datetime.timedelta(seconds=30)))))

@dataclass
class X:
    d: Optional[XmlDate] = field(default=None, metadata={"type": "Element"})
    t: Optional[XmlTime] = field(default=None, metadata={"type": "Element"})
    dt: Optional[XmlDateTime] = field(default=None, metadata={"type": "Attribute"})
    du: Optional[XmlDuration] = field(default=None, metadata={"type": "Attribute"})
    p: Optional[XmlPeriod] = field(default=None, metadata={"type": "Attribute"})
    ds: List[XmlDate] = field(default_factory=list, metadata={"type": "Attribute", "tokens": True})
t("XD1", X(d=XmlDate(0,1,1), t=XmlTime(24,0,0), dt=XmlDateTime(-1,12,31,23,59,59,999999999,-840), du=XmlDuration("-P1Y2M3DT4H5M6.7S"), p=XmlPeriod("-0001-05"), ds=[XmlDate(2020,2,29,0), XmlDate(12345,1,1,14*60)]))
t("XD2", X(d=XmlDate(2020,1,1,-30), t=XmlTime(0,0,0,1), dt=XmlDateTime(2020,1,1,0,0,0,1000), p=XmlPeriod("---31+14:00")))
t("XD3", X(t=XmlTime(0,0,0,100000000), p=XmlPeriod("--02-29"), du=XmlDuration("PT0S")))
t("XD4", X(p=XmlPeriod("12345"), du=XmlDuration("P1M")))
t("XD5", X(p=XmlPeriod("-12345-12Z")))
t("XD6", X(d=XmlDate(-12345,1,1)))
t("XD7", X(p=XmlPeriod("2020Z")))
t("XD8", X(p=XmlPeriod("--12Z")))
t("XD9", X(p=XmlPeriod("2020-05-05:00")))

@dataclass
class By:
    h: Optional[bytes] = field(default=None, metadata={"type": "Element", "format": "base16"})
    b: Optional[bytes] = field(default=None, metadata={"type": "Attribute", "format": "base64"})
    hs: List[bytes] = field(default_factory=list, metadata={"type": "Element", "format": "base16", "tokens": True})
    bl: List[bytes] = field(default_factory=list, metadata={"type": "Element", "format": "base64"})
t("B1", By(h=b"\x00\xff", b=b"\x00\xff\x10", hs=[b"a", b"bc"], bl=[b"", b"x"]))
t("B2", By(h=b"", b=b""))
t("B3", By(hs=[b""]))
