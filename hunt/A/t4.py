from dataclasses import dataclass, field
from typing import Optional, List, Dict, Union, Tuple
from decimal import Decimal
from enum import Enum
from xml.etree.ElementTree import QName
from h import rt
from xsdata.formats.dataclass.models.generics import AnyElement, DerivedElement
from xsdata.formats.dataclass.serializers.config import SerializerConfig
from xsdata.models.datatype import *

@dataclass
class Item:
    v: int = field(default=0, metadata={"type": "Attribute"})

@dataclass
class Item2(Item):
    w: int = field(default=0, metadata={"type": "Attribute"})

class Col(Enum):
    R = "r"
    G = "g"

@dataclass
class C1:
    v: List[object] = field(default_factory=list, metadata={"type": "Elements", "choices": (
        {"name": "i", "type": int},
        {"name": "s", "type": str},
        {"name": "f", "type": float},
        {"name": "it", "type": Item},
        {"name": "toks", "type": List[Decimal], "tokens": True},
        {"name": "e", "type": Col},
        {"name": "b", "type": bytes, "format": "base16"},
        {"name": "q", "type": QName},
        {"name": "d", "type": XmlDate},
    )})

def t(name, obj, **kw):
    print(name, rt(obj, verbose=False, **kw))

t("C1a", C1(v=[1, "a", 1.5, Item(1), [Decimal("1.0"), Decimal("2")], Col.G, b"\x01", QName("{urn:x}a"), XmlDate(2020,1,1)]))
t("C1b", C1(v=[Item2(1,2)]))
t("C1c", C1(v=[True]))
t("C1d", C1(v=[DerivedElement(qname="it", value=Item2(1,2), type="Item2")]))
t("C1e", C1(v=[DerivedElement(qname="i", value=5)]))
t("C1f", C1(v=["", " ", "1"]))

@dataclass
class C2:
    v: Optional[object] = field(default=None, metadata={"type": "Elements", "choices": (
        {"name": "i", "type": int, "nillable": True},
        {"name": "s", "type": str},
        {"name": "toks", "type": List[int], "tokens": True},
    )})
t("C2a", C2(v=[1,2]))
t("C2b", C2(v=1))
t("C2c", C2(v="x"))

@dataclass
class C3:
    v: List[object] = field(default_factory=list, metadata={"type": "Elements", "choices": (
        {"name": "i", "type": Optional[int], "nillable": True},
        {"name": "s", "type": str},
    )})
t("C3a", C3(v=[1, None, "x"]))

# any_type element
@dataclass
class O1:
    v: List[object] = field(default_factory=list, metadata={"type": "Element"})
t("O1a", O1(v=[1, "a", 1.5, True, Decimal("1.10"), XmlDate(2020,1,1), XmlTime(1,2,3), XmlDateTime(2020,1,1,1,1,1), XmlDuration("P1D"), XmlPeriod("--05"), XmlPeriod("2020"), XmlPeriod("---05"), XmlPeriod("--05-05"), XmlPeriod("2020-05"), QName("{urn:x}a"), XmlHexBinary(b"ab"), XmlBase64Binary(b"ab"), 2**40, 2**70, float("inf"), -1e300]))
t("O1b", O1(v=[Item(1)]))
t("O1c", O1(v=["", "  "]))
t("O1d", O1(v=[QName("a")]))
t("O1e", O1(v=[XmlHexBinary(b""), XmlBase64Binary(b"")]))
t("O1f", O1(v=[AnyElement(qname="v", text="x", attributes={"a": "b"})]))
t("O1g", O1(v=[AnyElement(qname="v", children=[AnyElement(qname="c", text="x")])]))

@dataclass
class O2:
    v: Optional[object] = field(default=None, metadata={"type": "Element", "nillable": True})
t("O2a", O2(v=None))
t("O2b", O2(v=0))
t("O2c", O2(v=False))
t("O2d", O2(v=0.0))
