from dataclasses import dataclass, field
from typing import Optional, List, Dict, Union, Tuple
from h import rt
def t(name, obj, **kw):
    print(name, rt(obj, verbose=True, **kw))

@dataclass
class U1:
    a: int = field(metadata={"type": "Element"})
@dataclass
class U2:
    b: str = field(metadata={"type": "Element"})
@dataclass
class UR:
    u: Optional[Union[U1, U2]] = field(default=None, metadata={"type": "Element", "nillable": True})
    us: List[Union[U1, U2, None]] = field(default_factory=list, metadata={"type": "Element", "nillable": True})
t("UN1", UR(u=None))
t("UN2", UR(u=U2("x"), us=[U1(1), None]))

@dataclass
class UP:
    u: Optional[Union[U1, int]] = field(default=None, metadata={"type": "Element"})
    us: List[Union[U1, int, str]] = field(default_factory=list, metadata={"type": "Element"})
t("UP1", UP(u=0, us=[0, "", "a", U1(1)]))

@dataclass
class UA:
    a: int = field(metadata={"type": "Attribute"})
@dataclass
class UB:
    b: int = field(metadata={"type": "Attribute"})
    v: str = field(default="", metadata={"type": "Text"})
@dataclass
class UQ:
    u: Optional[Union[UA, UB]] = field(default=None, metadata={"type": "Element"})
t("UQ1", UQ(u=UB(b=1, v="x")))
t("UQ2", UQ(u=UA(a=1)))
