import sys, warnings
from dataclasses import dataclass, field
from typing import Dict, List, Optional, Tuple, Union
from xml.etree.ElementTree import QName

from xsdata.formats.dataclass.context import XmlContext
from xsdata.formats.dataclass.models.generics import AnyElement, DerivedElement
from xsdata.formats.dataclass.parsers import XmlParser
from xsdata.formats.dataclass.parsers.handlers import LxmlEventHandler, XmlEventHandler
from xsdata.formats.dataclass.serializers import XmlSerializer
from xsdata.formats.dataclass.serializers.config import SerializerConfig
from xsdata.formats.dataclass.serializers.writers import LxmlEventWriter, XmlEventWriter

WRITERS = {"native": XmlEventWriter, "lxml": LxmlEventWriter}
HANDLERS = {"native": XmlEventHandler, "lxml": LxmlEventHandler}
XSI = "http://www.w3.org/2001/XMLSchema-instance"
XS = "http://www.w3.org/2001/XMLSchema"


def roundtrip(obj, ns_map=None, config=None, writers=WRITERS, handlers=HANDLERS):
    """Render + parse back with every writer/handler combination.

    Returns the number of combinations for which parse(render(obj)) != obj
    (or for which rendering / parsing raised)."""
    bad = 0
    for wn, writer in writers.items():
        for hn, handler in handlers.items():
            ctx = XmlContext()
            try:
                xml = XmlSerializer(context=ctx, config=config or SerializerConfig(), writer=writer).render(obj, ns_map=ns_map)
            except Exception as e:
                print(f"[{wn} writer / {hn} handler] render raised {type(e).__name__}: {e}")
                bad += 1
                continue
            print(f"[{wn} writer / {hn} handler] xml: {xml!r}")
            try:
                with warnings.catch_warnings():
                    warnings.simplefilter("ignore")
                    back = XmlParser(context=ctx, handler=handler).from_string(xml, type(obj))
            except Exception as e:
                print(f"    parse raised {type(e).__name__}: {e}")
                bad += 1
                continue
            if back != obj:
                print(f"    MISMATCH\n      original: {obj!r}\n      parsed  : {back!r}")
                bad += 1
            else:
                print("    ok")
    return bad

# C01 + C03: a plain *string* attribute whose value happens to look like the
# Clark notation of an XML Schema datatype ("{http://www.w3.org/2001/XMLSchema}string")
# is silently rewritten by EventHandler.add_attribute/is_xsi_type into a prefixed QName
# ("xs:string").  The field is a str Attribute, the metadata prescribes the value verbatim.
@dataclass
class Root:
    x: Optional[str] = field(default=None, metadata={"type": "Attribute"})


obj = Root(x="{http://www.w3.org/2001/XMLSchema}string")
bad = roundtrip(obj)
print("failing combinations:", bad)
sys.exit(1 if bad else 0)
