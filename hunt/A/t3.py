from dataclasses import dataclass, field
from typing import Optional, List, Dict, Union, Tuple
from decimal import Decimal
from enum import Enum
from xml.etree.ElementTree import QName
from h import rt
from xsdata.formats.dataclass.models.generics import AnyElement, DerivedElement
from xsdata.formats.dataclass.serializers.config import SerializerConfig
from xsdata.models.datatype import *

@dataclass
class W1:
    books: Optional[List[str]] = field(default=None, metadata={"wrapper": "Books", "name": "Title", "type": "Element"})
print("W1 empty-list", rt(W1(books=[]), verbose=False))

@dataclass
class W2:
    a: List[str] = field(default_factory=list, metadata={"wrapper": "As", "name": "item", "type": "Element"})
    b: List[str] = field(default_factory=list, metadata={"wrapper": "Bs", "name": "item", "type": "Element"})
print("W2", rt(W2(a=["1"], b=["2", "3"]), verbose=False))
print("W2b", rt(W2(a=[], b=["2", "3"]), verbose=False))

@dataclass
class W3:
    class Meta:
        namespace = "urn:a"
    a: Optional[int] = field(default=None, metadata={"wrapper": "As", "name": "item", "type": "Element", "namespace": "urn:b"})
print("W3", rt(W3(a=1), verbose=False))

@dataclass
class Item:
    v: int = field(default=0, metadata={"type": "Attribute"})

@dataclass
class W4:
    a: List[Item] = field(default_factory=list, metadata={"wrapper": "As", "name": "item", "type": "Element"})
    c: Optional[Item] = field(default=None, metadata={"name": "As2", "type": "Element"})
print("W4", rt(W4(a=[Item(1), Item(2)], c=Item(3)), verbose=False))

# wrapper with tokens
@dataclass
class W5:
    a: List[int] = field(default_factory=list, metadata={"wrapper": "As", "name": "item", "type": "Element", "tokens": True})
print("W5", rt(W5(a=[1,2]), verbose=False))
@dataclass
class W6:
    a: List[List[int]] = field(default_factory=list, metadata={"wrapper": "As", "name": "item", "type": "Element", "tokens": True})
print("W6", rt(W6(a=[[1,2],[3]]), verbose=False))

# wrapper nillable
@dataclass
class W7:
    a: List[Optional[int]] = field(default_factory=list, metadata={"wrapper": "As", "name": "item", "type": "Element", "nillable": True})
print("W7", rt(W7(a=[1,None]), verbose=False))

# wrapper + sequence
@dataclass
class W8:
    a: List[int] = field(default_factory=list, metadata={"wrapper": "As", "name": "item", "type": "Element", "sequence": 1})
    b: List[int] = field(default_factory=list, metadata={"name": "b", "type": "Element", "sequence": 1})
print("W8", rt(W8(a=[1,2], b=[3,4]), verbose=False))
