from dataclasses import dataclass, field
from typing import Optional, List, Dict, Union, Tuple
from h import rt
from xsdata.formats.dataclass.models.generics import AnyElement, DerivedElement
from xsdata.formats.dataclass.serializers.config import SerializerConfig
def t(name, obj, **kw):
    print(name, rt(obj, verbose=True, **kw))
XSI="http://www.w3.org/2001/XMLSchema-instance"
@dataclass
class Inner:
    any: Optional[object] = field(default=None, metadata={"type": "Wildcard", "namespace": "##any"})
@dataclass
class Root:
    inner: Optional[Inner] = field(default=None, metadata={"type": "Element", "nillable": True})
t("N18", Root(inner=Inner(any=AnyElement(children=[AnyElement(qname="x", text="1"), AnyElement(qname="y", text="2")]))))

@dataclass
class M:
    content: List[object] = field(default_factory=list, metadata={"type": "Wildcard", "namespace": "##any", "mixed": True})
t("N19a", M(content=["a", "b"]))
t("N19b", Inner(any=AnyElement(text="hello", tail="bye")))

@dataclass
class Wl:
    any: List[object] = field(default_factory=list, metadata={"type": "Wildcard", "namespace": "##any"})
t("N20", Wl(any=[AnyElement(qname="x", text="abc", attributes={f"{{{XSI}}}nil": "false"})]))
@dataclass
class At:
    v: Optional[str] = field(default=None, metadata={"type": "Element"})
    attrs: Dict[str, str] = field(default_factory=dict, metadata={"type": "Attributes"})
t("N20b", At(v="x", attrs={f"{{{XSI}}}nil": "false"}))
