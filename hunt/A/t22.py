from dataclasses import dataclass, field
from typing import Optional, List, Dict
from h import rt
def t(name, obj, **kw):
    print(name, rt(obj, verbose=True, **kw))
@dataclass
class R1:
    value: Optional[str] = field(default=None, metadata={"type": "Text"})
    a: Optional[int] = field(default=None, metadata={"type": "Element"})
@dataclass
class R2:
    a: Optional[int] = field(default=None, metadata={"type": "Element"})
    value: Optional[str] = field(default=None, metadata={"type": "Text"})
t("R1", R1("text", 1))
t("R2", R2(1, "text"))
XML="http://www.w3.org/XML/1998/namespace"
@dataclass
class R3:
    attrs: Dict[str, str] = field(default_factory=dict, metadata={"type": "Attributes", "namespace": "##any"})
t("R3", R3(attrs={"{%s}lang" % XML: "en", "{%s}space" % XML: "preserve"}))
