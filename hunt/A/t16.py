from dataclasses import dataclass, field
from typing import Optional, List, Dict, Union, Tuple
from h import *
from lxml import etree
import xml.dom.minidom
from xsdata.formats.dataclass.models.generics import AnyElement, DerivedElement
def t(name, obj, **kw):
    print(name, rt(obj, verbose=True, **kw))
XSI="http://www.w3.org/2001/XMLSchema-instance"
@dataclass
class Wl:
    class Meta:
        namespace = "urn:a"
    any: List[object] = field(default_factory=list, metadata={"type": "Wildcard", "namespace": "##any"})
t("Q20", Wl(any=[AnyElement(qname="{urn:a}x", text="abc", attributes={f"{{{XSI}}}type": "{urn:a}T"})]), ns_map={None: "urn:a"})

@dataclass
class R:
    x: Optional[int] = field(default=None, metadata={"type": "Element"})
for nm in ({None: "http://www.w3.org/XML/1998/namespace"}, {"p": "http://www.w3.org/2000/xmlns/"}, {None: "http://www.w3.org/2000/xmlns/"}):
    for wn, w in WRITERS.items():
        try:
            xml_ = XmlSerializer(writer=w).render(R(1), ns_map=nm)
        except Exception as e:
            print(nm, wn, "render error", type(e).__name__, e); continue
        print(nm, wn, xml_)
        for pn, p in (("lxml", lambda s: etree.fromstring(s.encode())), ("expat", lambda s: xml.dom.minidom.parseString(s))):
            try:
                p(xml_); print("   ", pn, "ok")
            except Exception as e:
                print("   ", pn, "ERR", e)
