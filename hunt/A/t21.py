from dataclasses import dataclass, field
from typing import Optional, List
from decimal import Decimal
from h import rt
from xsdata.formats.dataclass.models.generics import AnyElement, DerivedElement
from xsdata.models.datatype import XmlDate
import datetime
def t(name, obj, **kw):
    print(name, rt(obj, verbose=False, **kw))
@dataclass
class Item:
    v: int = field(default=0, metadata={"type": "Attribute"})
@dataclass
class M:
    content: List[object] = field(default_factory=list, metadata={"type": "Wildcard", "namespace": "##any", "mixed": True,
        "choices": ({"name": "i", "type": int}, {"name": "it", "type": Item}, {"name": "d", "type": Decimal}, {"name": "s", "type": str},
                    {"name": "dt", "type": datetime.date, "format": "%d/%m/%Y"}, {"name": "toks", "type": List[float], "tokens": True}, {"name": "x", "type": XmlDate})})
t("M1", M(content=["a", Item(1), "b", 5, "c", Decimal("1.50"), "tail"]))
t("M2", M(content=[AnyElement(qname="s", text="str"), "x"]))
t("M3", M(content=[datetime.date(2020,1,2)]))
t("M4", M(content=[[1.0, 2.0]]))
t("M5", M(content=[XmlDate(2020,1,1), "t", DerivedElement(qname="it", value=Item(2))]))
t("M6", M(content=[0, Decimal("0")]))
t("M7", M(content=[True]))
t("M8", M(content=[AnyElement(qname="other", text="q", tail="t")]))
