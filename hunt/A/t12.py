from dataclasses import dataclass, field
from typing import Optional, List, Dict, Union, Tuple
from h import rt
def t(name, obj, **kw):
    print(name, rt(obj, verbose=True, **kw))

@dataclass
class Base:
    x: Optional[int] = field(default=None, metadata={"type": "Element"})

@dataclass
class Der(Base):
    y: Optional[int] = field(default=None, metadata={"type": "Element"})

@dataclass
class Root:
    der: Optional[Base] = field(default=None, metadata={"type": "Element", "name": "Der"})

t("XT1", Root(der=Der(1, 2)))
