from dataclasses import dataclass, field
from typing import Optional, List, Dict
from h import rt

@dataclass
class A:
    x: Optional[str] = field(default=None, metadata={"type": "Attribute"})
    y: Optional[str] = field(default=None, metadata={"type": "Element"})

print(rt(A(x="{http://www.w3.org/2001/XMLSchema}string")))
print(rt(A(y="{http://www.w3.org/2001/XMLSchema}string")))
print(rt(A(x=" a\tb\nc ", y="  ")))
print(rt(A(x="", y="")))

@dataclass
class B:
    class Meta:
        namespace = "urn:a"
    attrs: Dict[str, str] = field(default_factory=dict, metadata={"type": "Attributes"})
print(rt(B(attrs={"k": "ns0:x"})))
print(rt(B(attrs={"k": "xml:x"})))
print(rt(B(attrs={"k": "http://x"})))
