import random, itertools, warnings
from dataclasses import dataclass, field
from typing import Optional, List, Dict, Union, Tuple
from xml.etree.ElementTree import QName
from lxml import etree
from h import *
from xsdata.formats.dataclass.models.generics import AnyElement, DerivedElement
from xsdata.exceptions import XmlWriterError, SerializerError

XSI="http://www.w3.org/2001/XMLSchema-instance"; XS="http://www.w3.org/2001/XMLSchema"; XML="http://www.w3.org/XML/1998/namespace"

@dataclass
class Base:
    class Meta:
        namespace = "urn:b"
    x: Optional[int] = field(default=None, metadata={"type": "Element"})
    q: Optional[QName] = field(default=None, metadata={"type": "Attribute", "namespace": "urn:c"})
@dataclass
class Der(Base):
    class Meta:
        namespace = "urn:c"
    y: Optional[object] = field(default=None, metadata={"type": "Element", "namespace": ""})
@dataclass
class Root:
    class Meta:
        namespace = "urn:a"
    lang: Optional[str] = field(default=None, metadata={"type": "Attribute", "namespace": XML})
    a: Optional[str] = field(default=None, metadata={"type": "Attribute", "namespace": "urn:a"})
    b: List[Base] = field(default_factory=list, metadata={"type": "Element"})
    u: Optional[QName] = field(default=None, metadata={"type": "Element", "namespace": ""})
    n: Optional[int] = field(default=None, metadata={"type": "Element", "nillable": True, "namespace": "urn:b"})
    w: List[object] = field(default_factory=list, metadata={"type": "Wildcard", "namespace": "##any"})
    attrs: Dict[str, str] = field(default_factory=dict, metadata={"type": "Attributes", "namespace": "##any"})

obj = Root(lang="en", a="1", b=[Base(1, QName("{urn:a}k")), Der(2, QName("{urn:b}k"), y=5), Der(3, QName("{urn:d}k"), y=QName("{urn:a}z"))],
           u=QName("{urn:a}uu"), n=None, w=[AnyElement(qname="{urn:d}w", text="", attributes={"{urn:a}k": "v"}), DerivedElement(qname="{urn:b}dd", value=7)],
           attrs={"{urn:e}z": "1"})

prefixes = [None, "", "ns0", "ns1", "ns2", "ns3", "xsi", "xs", "xml", "a", "b"]
uris = ["urn:a", "urn:b", "urn:c", "urn:d", "urn:e", XSI, XS, "urn:unused"]
random.seed(1)
bad = 0
for it in range(3000):
    k = random.randint(0, 5)
    ns_map = {}
    for _ in range(k):
        ns_map[random.choice(prefixes)] = random.choice(uris)
    for wn, w in WRITERS.items():
        try:
            xml = XmlSerializer(writer=w).render(obj, ns_map=dict(ns_map))
        except (XmlWriterError, SerializerError) as e:
            continue
        except Exception as e:
            print("RENDER EXC", wn, ns_map, type(e).__name__, e); bad += 1; continue
        try:
            etree.fromstring(xml.encode())
        except Exception as e:
            print("NOT WF", wn, ns_map, e, xml); bad += 1; continue
        for hn, hd in HANDLERS.items():
            try:
                with warnings.catch_warnings():
                    warnings.simplefilter("ignore")
                    back = XmlParser(handler=hd).from_string(xml, Root)
                if back != obj:
                    print("MISMATCH", wn, hn, ns_map, xml[:0], back); bad += 1
            except Exception as e:
                print("PARSE EXC", wn, hn, ns_map, e, xml); bad += 1
    if bad > 5: break
print("bad", bad)
