from dataclasses import dataclass, field
from typing import Optional, List
from h import rt
from xsdata.formats.dataclass.models.generics import AnyElement
@dataclass
class Big:
    t: str = field(default="", metadata={"type": "Element"})
    a: str = field(default="", metadata={"type": "Attribute"})
    m: List[object] = field(default_factory=list, metadata={"type": "Wildcard", "namespace": "##any", "mixed": True})
s = "abc"
print("small", rt(Big(t=s, a=s, m=[s, AnyElement(qname="x", text=s, tail=s), AnyElement(qname="y", text="", tail=s)]), verbose=True) )
print("small2", rt(Big(t=s, a=s, m=[AnyElement(qname="x", text=s)]), verbose=True) )
