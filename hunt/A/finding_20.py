import sys, warnings
from dataclasses import dataclass, field
from typing import Dict, List, Optional, Tuple, Union
from xml.etree.ElementTree import QName

from xsdata.formats.dataclass.context import XmlContext
from xsdata.formats.dataclass.models.generics import AnyElement, DerivedElement
from xsdata.formats.dataclass.parsers import XmlParser
from xsdata.formats.dataclass.parsers.handlers import LxmlEventHandler, XmlEventHandler
from xsdata.formats.dataclass.serializers import XmlSerializer
from xsdata.formats.dataclass.serializers.config import SerializerConfig
from xsdata.formats.dataclass.serializers.writers import LxmlEventWriter, XmlEventWriter

WRITERS = {"native": XmlEventWriter, "lxml": LxmlEventWriter}
HANDLERS = {"native": XmlEventHandler, "lxml": LxmlEventHandler}
XSI = "http://www.w3.org/2001/XMLSchema-instance"
XS = "http://www.w3.org/2001/XMLSchema"


def roundtrip(obj, ns_map=None, config=None, writers=WRITERS, handlers=HANDLERS):
    """Render + parse back with every writer/handler combination.

    Returns the number of combinations for which parse(render(obj)) != obj
    (or for which rendering / parsing raised)."""
    bad = 0
    for wn, writer in writers.items():
        for hn, handler in handlers.items():
            ctx = XmlContext()
            try:
                xml = XmlSerializer(context=ctx, config=config or SerializerConfig(), writer=writer).render(obj, ns_map=ns_map)
            except Exception as e:
                print(f"[{wn} writer / {hn} handler] render raised {type(e).__name__}: {e}")
                bad += 1
                continue
            print(f"[{wn} writer / {hn} handler] xml: {xml!r}")
            try:
                with warnings.catch_warnings():
                    warnings.simplefilter("ignore")
                    back = XmlParser(context=ctx, handler=handler).from_string(xml, type(obj))
            except Exception as e:
                print(f"    parse raised {type(e).__name__}: {e}")
                bad += 1
                continue
            if back != obj:
                print(f"    MISMATCH\n      original: {obj!r}\n      parsed  : {back!r}")
                bad += 1
            else:
                print("    ok")
    return bad

# C01: generic element carrying an xsi:type attribute (AnyElement.attributes, the Clark
# form "{urn:a}T" is what the parser itself produces) rendered with a user prefix map
# that makes urn:a the default namespace.  The writer turns the value into a QName and
# writes it UNPREFIXED (xsi:type="T"); ParserUtils.parse_any_attribute only expands
# prefixed values, so the value comes back as "T".  Same for any attribute whose value
# is the Clark name of an xs datatype when XS is the default namespace.
@dataclass
class Root:
    class Meta:
        namespace = "urn:a"

    any: List[object] = field(default_factory=list, metadata={"type": "Wildcard", "namespace": "##any"})


obj = Root(any=[AnyElement(qname="{urn:a}x", text="abc", attributes={"{%s}type" % XSI: "{urn:a}T"})])
print("--- control: no user prefix map")
control = roundtrip(obj)
print("--- ns_map={None: 'urn:a'}")
bad = roundtrip(obj, ns_map={None: "urn:a"})
print("control failures:", control, " failures:", bad)
sys.exit(1 if (bad and not control) else 0)
