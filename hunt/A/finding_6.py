import sys, warnings
from dataclasses import dataclass, field
from typing import Dict, List, Optional, Tuple, Union
from xml.etree.ElementTree import QName

from xsdata.formats.dataclass.context import XmlContext
from xsdata.formats.dataclass.models.generics import AnyElement, DerivedElement
from xsdata.formats.dataclass.parsers import XmlParser
from xsdata.formats.dataclass.parsers.handlers import LxmlEventHandler, XmlEventHandler
from xsdata.formats.dataclass.serializers import XmlSerializer
from xsdata.formats.dataclass.serializers.config import SerializerConfig
from xsdata.formats.dataclass.serializers.writers import LxmlEventWriter, XmlEventWriter

WRITERS = {"native": XmlEventWriter, "lxml": LxmlEventWriter}
HANDLERS = {"native": XmlEventHandler, "lxml": LxmlEventHandler}
XSI = "http://www.w3.org/2001/XMLSchema-instance"
XS = "http://www.w3.org/2001/XMLSchema"


def roundtrip(obj, ns_map=None, config=None, writers=WRITERS, handlers=HANDLERS):
    """Render + parse back with every writer/handler combination.

    Returns the number of combinations for which parse(render(obj)) != obj
    (or for which rendering / parsing raised)."""
    bad = 0
    for wn, writer in writers.items():
        for hn, handler in handlers.items():
            ctx = XmlContext()
            try:
                xml = XmlSerializer(context=ctx, config=config or SerializerConfig(), writer=writer).render(obj, ns_map=ns_map)
            except Exception as e:
                print(f"[{wn} writer / {hn} handler] render raised {type(e).__name__}: {e}")
                bad += 1
                continue
            print(f"[{wn} writer / {hn} handler] xml: {xml!r}")
            try:
                with warnings.catch_warnings():
                    warnings.simplefilter("ignore")
                    back = XmlParser(context=ctx, handler=handler).from_string(xml, type(obj))
            except Exception as e:
                print(f"    parse raised {type(e).__name__}: {e}")
                bad += 1
                continue
            if back != obj:
                print(f"    MISMATCH\n      original: {obj!r}\n      parsed  : {back!r}")
                bad += 1
            else:
                print("    ok")
    return bad

# C03: element / attribute NAMES coming from instance data (keys of an `Attributes` map,
# AnyElement.qname) are never validated by the native XmlEventWriter.  A key with an
# undeclared prefix ("a:b") gives a document that is not namespace-well-formed, a key
# with a space ("a b") or an AnyElement qname "x y" gives a document that is not
# well-formed at all.  No serializer error is raised.
import xml.dom.minidom


@dataclass
class Root:
    attrs: Dict[str, str] = field(default_factory=dict, metadata={"type": "Attributes", "namespace": "##any"})
    any: List[object] = field(default_factory=list, metadata={"type": "Wildcard", "namespace": "##any"})


bad = 0
for obj in (Root(attrs={"a:b": "v"}), Root(attrs={"a b": "v"}), Root(any=[AnyElement(qname="x y", text="1")]), Root(any=[AnyElement(qname="p:x", text="1")])):
    try:
        xml_ = XmlSerializer(writer=XmlEventWriter).render(obj)
    except Exception as e:
        print("render raised", type(e).__name__, e, "(fine)")
        continue
    print("rendered:", repr(xml_))
    try:
        xml.dom.minidom.parseString(xml_)
        print("   expat accepts it")
    except Exception as e:
        print("   NOT (namespace-)well-formed according to expat:", e)
        bad += 1
print("malformed documents:", bad)
sys.exit(1 if bad else 0)
