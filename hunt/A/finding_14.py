import sys, warnings
from dataclasses import dataclass, field
from typing import Dict, List, Optional, Tuple, Union
from xml.etree.ElementTree import QName

from xsdata.formats.dataclass.context import XmlContext
from xsdata.formats.dataclass.models.generics import AnyElement, DerivedElement
from xsdata.formats.dataclass.parsers import XmlParser
from xsdata.formats.dataclass.parsers.handlers import LxmlEventHandler, XmlEventHandler
from xsdata.formats.dataclass.serializers import XmlSerializer
from xsdata.formats.dataclass.serializers.config import SerializerConfig
from xsdata.formats.dataclass.serializers.writers import LxmlEventWriter, XmlEventWriter

WRITERS = {"native": XmlEventWriter, "lxml": LxmlEventWriter}
HANDLERS = {"native": XmlEventHandler, "lxml": LxmlEventHandler}
XSI = "http://www.w3.org/2001/XMLSchema-instance"
XS = "http://www.w3.org/2001/XMLSchema"


def roundtrip(obj, ns_map=None, config=None, writers=WRITERS, handlers=HANDLERS):
    """Render + parse back with every writer/handler combination.

    Returns the number of combinations for which parse(render(obj)) != obj
    (or for which rendering / parsing raised)."""
    bad = 0
    for wn, writer in writers.items():
        for hn, handler in handlers.items():
            ctx = XmlContext()
            try:
                xml = XmlSerializer(context=ctx, config=config or SerializerConfig(), writer=writer).render(obj, ns_map=ns_map)
            except Exception as e:
                print(f"[{wn} writer / {hn} handler] render raised {type(e).__name__}: {e}")
                bad += 1
                continue
            print(f"[{wn} writer / {hn} handler] xml: {xml!r}")
            try:
                with warnings.catch_warnings():
                    warnings.simplefilter("ignore")
                    back = XmlParser(context=ctx, handler=handler).from_string(xml, type(obj))
            except Exception as e:
                print(f"    parse raised {type(e).__name__}: {e}")
                bad += 1
                continue
            if back != obj:
                print(f"    MISMATCH\n      original: {obj!r}\n      parsed  : {back!r}")
                bad += 1
            else:
                print("    ok")
    return bad

# C03: not well-formed output.  Two consecutive DATA events for the same element make
# EventHandler.set_data store the second one as "tail" which end_tag writes AFTER the end
# tag.  For the root element that is character data after the document element.
#  a) single-valued wildcard at the root holding AnyElement(text=.., tail=..)
#  b) mixed content list with two adjacent strings
# native writer: emits '<Root>hello</Root>bye' (not well-formed, no error);
# lxml writer: dies with IndexError (not a serializer error).
import xml.dom.minidom
from xsdata.exceptions import SerializerError, XmlWriterError


@dataclass
class Root:
    any: Optional[object] = field(default=None, metadata={"type": "Wildcard", "namespace": "##any"})


@dataclass
class Mixed:
    content: List[object] = field(default_factory=list, metadata={"type": "Wildcard", "namespace": "##any", "mixed": True})


bad = 0
for obj in (Root(any=AnyElement(text="hello", tail="bye")), Mixed(content=["a", "b"])):
    for wn, writer in WRITERS.items():
        try:
            out = XmlSerializer(writer=writer).render(obj)
        except (SerializerError, XmlWriterError) as e:
            print(wn, "serializer error (allowed):", e)
            continue
        except Exception as e:
            print(wn, "raised a non-serializer error:", type(e).__name__, e)
            bad += 1
            continue
        print(wn, "rendered", repr(out))
        try:
            xml.dom.minidom.parseString(out)
            print("   well-formed")
        except Exception as e:
            print("   NOT well-formed:", e)
            bad += 1
print("violations:", bad)
sys.exit(1 if bad else 0)
