from dataclasses import dataclass, field
from typing import Optional, List, Dict, Union, Tuple
from decimal import Decimal
from enum import Enum
from xml.etree.ElementTree import QName
from h import rt
from xsdata.formats.dataclass.models.generics import AnyElement, DerivedElement
from xsdata.formats.dataclass.serializers.config import SerializerConfig
from xsdata.models.datatype import *
def t(name, obj, **kw):
    print(name, rt(obj, verbose=False, **kw))

@dataclass
class Q1:
    class Meta:
        namespace = "urn:a"
    value: List[QName] = field(default_factory=list, metadata={"type": "Text", "tokens": True})
    qa: List[QName] = field(default_factory=list, metadata={"type": "Attribute", "tokens": True})
    qe: List[List[QName]] = field(default_factory=list, metadata={"type": "Element", "tokens": True})
t("Q1", Q1(value=[QName("{urn:a}x"), QName("{urn:b}y")], qa=[QName("{urn:c}x"), QName("{urn:a}y")], qe=[[QName("{urn:d}x")], [QName("{urn:a}y"), QName("{http://www.w3.org/XML/1998/namespace}lang")]]))
t("Q1b", Q1(value=[QName("{urn:a}x"), QName("{urn:b}y")], qa=[QName("{urn:c}x"), QName("{urn:a}y")], qe=[[QName("{urn:d}x")], [QName("{urn:a}y")]]), ns_map={None: "urn:a"})

class QE(Enum):
    A = QName("{urn:a}x")
    B = QName("{urn:b}y")
@dataclass
class Q2:
    a: Optional[QE] = field(default=None, metadata={"type": "Attribute"})
    e: List[QE] = field(default_factory=list, metadata={"type": "Element"})
    t: List[QE] = field(default_factory=list, metadata={"type": "Element", "tokens": True})
t("Q2", Q2(a=QE.A, e=[QE.B, QE.A], t=[QE.A, QE.B]))
t("Q2b", Q2(a=QE.A, e=[QE.B, QE.A], t=[QE.A, QE.B]), ns_map={None: "urn:a"})

class TE(Enum):
    A = (1, 2)
    B = (3,)
@dataclass
class Q3:
    a: Optional[TE] = field(default=None, metadata={"type": "Attribute"})
    e: List[TE] = field(default_factory=list, metadata={"type": "Element"})
t("Q3", Q3(a=TE.A, e=[TE.B, TE.A]))

@dataclass
class Item:
    v: int = field(default=0, metadata={"type": "Attribute"})
@dataclass
class WC:
    c: List[object] = field(default_factory=list, metadata={"type": "Elements", "wrapper": "wrap", "choices": ({"name": "i", "type": int}, {"name": "it", "type": Item})})
t("WC", WC(c=[1, Item(2)]))

@dataclass
class NT:
    class Meta:
        nillable = True
    value: Optional[int] = field(default=None, metadata={"type": "Text", "nillable": True})
    a: Optional[int] = field(default=None, metadata={"type": "Attribute"})
@dataclass
class NTR:
    n: List[NT] = field(default_factory=list, metadata={"type": "Element", "nillable": True})
t("NT", NTR(n=[NT(), NT(5), NT(None, 2), NT(0, 2)]))

# object-typed attribute? 
@dataclass
class OA:
    a: Optional[object] = field(default=None, metadata={"type": "Attribute"})
t("OA", OA(a="x"))

# Target namespace
@dataclass
class TB:
    class Meta:
        namespace = "urn:a"
        target_namespace = "urn:t"
    x: Optional[int] = field(default=None, metadata={"type": "Element"})
@dataclass
class TD(TB):
    class Meta:
        namespace = "urn:a"
        target_namespace = "urn:t"
        name = "td-type"
    y: Optional[int] = field(default=None, metadata={"type": "Element"})
@dataclass
class TR:
    b: Optional[TB] = field(default=None, metadata={"type": "Element"})
    o: Optional[object] = field(default=None, metadata={"type": "Element"})
t("TN", TR(b=TD(1,2), o=TD(3,4)))
t("TN2", TR(b=TD(1,2), o=TD(3,4)), ns_map={None: "urn:t"})
