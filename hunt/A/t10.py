from dataclasses import dataclass, field
from typing import Optional, List, Dict, Union, Tuple
from h import rt
from xsdata.formats.dataclass.models.generics import AnyElement, DerivedElement
from xsdata.formats.dataclass.serializers.config import SerializerConfig
from xsdata.formats.dataclass.context import XmlContext
from xsdata.utils import text
def t(name, obj, **kw):
    print(name, rt(obj, verbose=False, **kw))

@dataclass(frozen=True)
class F:
    a: Tuple[int, ...] = field(default_factory=tuple, metadata={"type": "Element"})
    b: Tuple[Tuple[int, ...], ...] = field(default_factory=tuple, metadata={"type": "Element", "tokens": True})
    c: Tuple[str, ...] = field(default_factory=tuple, metadata={"type": "Attribute", "tokens": True})
    d: Optional[Tuple[int, ...]] = field(default=None, metadata={"type": "Element", "tokens": True})
    w: Tuple[object, ...] = field(default_factory=tuple, metadata={"type": "Wildcard", "namespace": "##any"})
    e: Tuple[object, ...] = field(default_factory=tuple, metadata={"type": "Elements", "choices": ({"name": "i", "type": int}, {"name": "t", "type": Tuple[str, ...], "tokens": True})})
t("F1", F(a=(1,2), b=((1,2),(3,)), c=("x","y"), d=(5,6), e=(1, ("a","b"), 2)))
t("F2", F(w=(AnyElement(qname="x", text="1"),)))
t("F3", F(d=()))
t("F4", F(b=((),)))

# sequences
@dataclass
class S:
    a: List[int] = field(default_factory=list, metadata={"type": "Element", "sequence": 1})
    b: List[str] = field(default_factory=list, metadata={"type": "Element", "sequence": 1})
    c: Optional[int] = field(default=None, metadata={"type": "Element", "sequence": 1})
    d: List[int] = field(default_factory=list, metadata={"type": "Element", "sequence": 2})
    e: List[int] = field(default_factory=list, metadata={"type": "Element", "sequence": 2})
t("S1", S(a=[1,2,3], b=["x"], c=9, d=[1], e=[2,3]))
t("S2", S(a=[], b=["x", "y"], c=None, d=[], e=[2,3]))

@dataclass
class S3:
    a: List[int] = field(default_factory=list, metadata={"type": "Element", "sequence": 1})
    x: Optional[int] = field(default=None, metadata={"type": "Element"})
    b: List[int] = field(default_factory=list, metadata={"type": "Element", "sequence": 1})
t("S3", S3(a=[1,2], x=5, b=[3,4]))

@dataclass
class S4:
    a: List[Optional[int]] = field(default_factory=list, metadata={"type": "Element", "sequence": 1, "nillable": True})
    b: List[List[int]] = field(default_factory=list, metadata={"type": "Element", "sequence": 1, "tokens": True})
    c: List[int] = field(default_factory=list, metadata={"type": "Element", "sequence": 1, "tokens": True})
t("S4", S4(a=[None, 1], b=[[1,2],[3]], c=[7,8]))
t("S4b", S4(a=[], b=[], c=[]))

# sequence with compound/wildcard
@dataclass
class S5:
    a: List[int] = field(default_factory=list, metadata={"type": "Element", "sequence": 1})
    w: List[object] = field(default_factory=list, metadata={"type": "Wildcard", "namespace": "##other", "sequence": 1})
t("S5", S5(a=[1,2], w=[AnyElement(qname="{urn:x}p", text="q"), AnyElement(qname="{urn:x}p", text="r")]))

# name generators
@dataclass
class NameGen:
    class Meta:
        element_name_generator = text.pascal_case
        attribute_name_generator = text.kebab_case
    foo_bar: Optional[int] = field(default=None, metadata={"type": "Element"})
    baz_qux: Optional[int] = field(default=None, metadata={"type": "Attribute"})
    sub: Optional["NameGen"] = field(default=None, metadata={"type": "Element"})
t("NG", NameGen(1, 2, NameGen(3, 4)))
ctx = XmlContext(element_name_generator=text.screaming_snake_case, attribute_name_generator=text.camel_case)
@dataclass
class NG2:
    foo_bar: Optional[int] = field(default=None, metadata={"type": "Element"})
    baz_qux: Optional[int] = field(default=None, metadata={"type": "Attribute"})
    w: List[int] = field(default_factory=list, metadata={"type": "Element", "wrapper": "wrap_it"})
t("NG2", NG2(1, 2, [1]), ctx=ctx)
