from dataclasses import dataclass, field
from typing import Optional, List, Dict
from xml.etree.ElementTree import QName
from h import rt
from xsdata.formats.dataclass.models.generics import AnyElement, DerivedElement
from xsdata.formats.dataclass.serializers.config import SerializerConfig

@dataclass
class A:
    class Meta:
        namespace = "urn:a"
    q: Optional[QName] = field(default=None, metadata={"type": "Attribute"})
    e: Optional[QName] = field(default=None, metadata={"type": "Element"})

print("E1", rt(A(q=QName("x"), e=QName("y")), ns_map={None: "urn:a"}, verbose=False))

@dataclass
class M:
    content: List[object] = field(default_factory=list, metadata={"type": "Wildcard", "namespace": "##any", "mixed": True})

print("E26", rt(M(content=["hello ", AnyElement(qname="b", text="x"), " world"]), config=SerializerConfig(indent="  "), verbose=False))
print("E26b", rt(M(content=[AnyElement(qname="b", text="x", tail=" "), AnyElement(qname="i", text="y")]), verbose=False))

@dataclass
class B:
    attrs: Dict[str, str] = field(default_factory=dict, metadata={"type": "Attributes"})
print("E37", rt(B(attrs={"a:b": "v"}), verbose=True))
print("E37b", rt(B(attrs={"a b": "v"}), verbose=True))
print("E42", rt(B(attrs={"k": "v"}), config=SerializerConfig(schema_location="urn:a a.xsd"), verbose=False))

@dataclass
class C:
    v: List[Optional[int]] = field(default_factory=list, metadata={"type": "Element", "nillable": True})
print("E14", rt(C(v=[1, None, 2]), verbose=False))
