from __future__ import annotations
from dataclasses import dataclass, field
from typing import Optional, List
from h import rt
from xsdata.formats.dataclass.models.generics import AnyElement
@dataclass
class Node:
    v: int = field(default=0, metadata={"type": "Attribute"})
    child: Optional["Node"] = field(default=None, metadata={"type": "Element"})
def mk(n):
    root = Node(0); cur = root
    for i in range(1, n):
        cur.child = Node(i); cur = cur.child
    return root
for n in (100, 200, 240, 300, 500):
    try:
        print(n, rt(mk(n), verbose=False))
    except RecursionError as e:
        print(n, "RecursionError in compare?", e)

@dataclass
class Big:
    t: str = field(default="", metadata={"type": "Element"})
    a: str = field(default="", metadata={"type": "Attribute"})
    m: List[object] = field(default_factory=list, metadata={"type": "Wildcard", "namespace": "##any", "mixed": True})
s = ("abc<&>\r\n\t é\U0001F600" * 20000)
print("big", rt(Big(t=s, a=s, m=[s, AnyElement(qname="x", text=s, tail=s), AnyElement(qname="y", text="", tail=s)]), verbose=False) )
