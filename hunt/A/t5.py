from dataclasses import dataclass, field
from typing import Optional, List, Dict, Union, Tuple
from decimal import Decimal
from enum import Enum
from xml.etree.ElementTree import QName
from h import rt
from xsdata.formats.dataclass.models.generics import AnyElement, DerivedElement
from xsdata.formats.dataclass.serializers.config import SerializerConfig
from xsdata.models.datatype import *
def t(name, obj, **kw):
    print(name, rt(obj, verbose=False, **kw))

@dataclass
class Item:
    v: int = field(default=0, metadata={"type": "Attribute"})

@dataclass
class C2:
    v: Optional[object] = field(default=None, metadata={"type": "Elements", "choices": (
        {"name": "i", "type": Optional[int], "nillable": True},
        {"name": "s", "type": str},
        {"name": "toks", "type": List[float], "tokens": True},
    )})
t("C2a", C2(v=[1.0,2.0]))
t("C2b", C2(v=1))
t("C2c", C2(v="x"))
t("C2d", C2(v=None))

# Wildcards
@dataclass
class Wc1:
    class Meta:
        namespace = "urn:a"
    any: List[object] = field(default_factory=list, metadata={"type": "Wildcard", "namespace": "##any"})
t("Wc1a", Wc1(any=[AnyElement(qname="{urn:b}x", text="t", attributes={"{urn:c}k": "v", "p": "q"})]))
t("Wc1b", Wc1(any=[AnyElement(qname="x", text="t")]), ns_map={None: "urn:a"})
t("Wc1c", Wc1(any=[AnyElement(qname="{urn:a}x", text="", children=[AnyElement(qname="y", text="z")])]), ns_map={None: "urn:a"})
t("Wc1d", Wc1(any=[Item(3)]))
t("Wc1e", Wc1(any=[DerivedElement(qname="{urn:z}foo", value=Item(3))]))
t("Wc1f", Wc1(any=[DerivedElement(qname="{urn:z}foo", value=3)]))
t("Wc1g", Wc1(any=[DerivedElement(qname="{urn:z}foo", value="s")]))
t("Wc1h", Wc1(any=[DerivedElement(qname="{urn:z}foo", value=QName("{urn:q}n"))]))
t("Wc1i", Wc1(any=[DerivedElement(qname="{urn:z}foo", value=XmlHexBinary(b"ab"))]))
t("Wc1j", Wc1(any=[AnyElement(qname="{urn:b}x", text="t", attributes={"{http://www.w3.org/2001/XMLSchema-instance}type": "{urn:q}T"})]))
t("Wc1k", Wc1(any=[AnyElement(qname="{urn:b}x", text="", attributes={"{http://www.w3.org/2001/XMLSchema-instance}nil": "true"})]))
t("Wc1l", Wc1(any=[AnyElement(qname="{urn:b}x", text="a", tail="tail")]))

@dataclass
class Wc2:
    any: Optional[object] = field(default=None, metadata={"type": "Wildcard", "namespace": "##any"})
t("Wc2a", Wc2(any=AnyElement(qname="x", text="t")))
t("Wc2b", Wc2(any=Item(2)))
t("Wc2c", Wc2(any=AnyElement(children=[AnyElement(qname="x", text="t"), AnyElement(qname="y", text="u")])))
t("Wc2d", Wc2(any=AnyElement(text="hello")))
t("Wc2e", Wc2(any=AnyElement(text="hello", children=[AnyElement(qname="x", text="t")])))

@dataclass
class Wc3:
    a: Optional[str] = field(default=None, metadata={"type": "Attribute"})
    any: Optional[object] = field(default=None, metadata={"type": "Wildcard", "namespace": "##any"})
t("Wc3a", Wc3(a="1", any=AnyElement(text="hello")))
