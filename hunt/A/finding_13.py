import sys, warnings
from dataclasses import dataclass, field
from typing import Dict, List, Optional, Tuple, Union
from xml.etree.ElementTree import QName

from xsdata.formats.dataclass.context import XmlContext
from xsdata.formats.dataclass.models.generics import AnyElement, DerivedElement
from xsdata.formats.dataclass.parsers import XmlParser
from xsdata.formats.dataclass.parsers.handlers import LxmlEventHandler, XmlEventHandler
from xsdata.formats.dataclass.serializers import XmlSerializer
from xsdata.formats.dataclass.serializers.config import SerializerConfig
from xsdata.formats.dataclass.serializers.writers import LxmlEventWriter, XmlEventWriter

WRITERS = {"native": XmlEventWriter, "lxml": LxmlEventWriter}
HANDLERS = {"native": XmlEventHandler, "lxml": LxmlEventHandler}
XSI = "http://www.w3.org/2001/XMLSchema-instance"
XS = "http://www.w3.org/2001/XMLSchema"


def roundtrip(obj, ns_map=None, config=None, writers=WRITERS, handlers=HANDLERS):
    """Render + parse back with every writer/handler combination.

    Returns the number of combinations for which parse(render(obj)) != obj
    (or for which rendering / parsing raised)."""
    bad = 0
    for wn, writer in writers.items():
        for hn, handler in handlers.items():
            ctx = XmlContext()
            try:
                xml = XmlSerializer(context=ctx, config=config or SerializerConfig(), writer=writer).render(obj, ns_map=ns_map)
            except Exception as e:
                print(f"[{wn} writer / {hn} handler] render raised {type(e).__name__}: {e}")
                bad += 1
                continue
            print(f"[{wn} writer / {hn} handler] xml: {xml!r}")
            try:
                with warnings.catch_warnings():
                    warnings.simplefilter("ignore")
                    back = XmlParser(context=ctx, handler=handler).from_string(xml, type(obj))
            except Exception as e:
                print(f"    parse raised {type(e).__name__}: {e}")
                bad += 1
                continue
            if back != obj:
                print(f"    MISMATCH\n      original: {obj!r}\n      parsed  : {back!r}")
                bad += 1
            else:
                print("    ok")
    return bad

# C03 + C01: xsi:nil="true" is written on an element that HAS content.  A nillable
# element field holds a class whose single-valued Wildcard contains a qname-less
# AnyElement with children (exactly what the parser builds when several elements match
# a single-valued wildcard).  convert_any_element emits DATA None first, which makes
# EventHandler.set_data flush the pending start tag with is_nil=True, keeping
# xsi:nil="true"; the children follow.  The output <inner xsi:nil="true"><x>..</x></inner>
# contradicts the metadata (nil marker on a non-empty element) and parses back as None.
@dataclass
class Inner:
    any: Optional[object] = field(default=None, metadata={"type": "Wildcard", "namespace": "##any"})


@dataclass
class Root:
    inner: Optional[Inner] = field(default=None, metadata={"type": "Element", "nillable": True})


obj = Root(inner=Inner(any=AnyElement(children=[AnyElement(qname="x", text="1"), AnyElement(qname="y", text="2")])))
# sanity: the same value round-trips when the field is not nillable
@dataclass
class Root2:
    inner: Optional[Inner] = field(default=None, metadata={"type": "Element"})
print("--- non nillable field (control)")
control = roundtrip(Root2(inner=obj.inner))
print("--- nillable field")
bad = roundtrip(obj)
xml = XmlSerializer().render(obj)
nil_with_content = 'nil="true"><x>' in xml
print("xsi:nil=true on an element with children:", nil_with_content)
print("control failures:", control, " failures:", bad)
sys.exit(1 if (bad and nil_with_content and not control) else 0)
