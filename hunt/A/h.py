import warnings, sys, traceback
from xsdata.formats.dataclass.context import XmlContext
from xsdata.formats.dataclass.parsers import XmlParser
from xsdata.formats.dataclass.parsers.config import ParserConfig
from xsdata.formats.dataclass.parsers.handlers import LxmlEventHandler, XmlEventHandler
from xsdata.formats.dataclass.serializers import XmlSerializer
from xsdata.formats.dataclass.serializers.config import SerializerConfig
from xsdata.formats.dataclass.serializers.writers import LxmlEventWriter, XmlEventWriter

WRITERS = {"native": XmlEventWriter, "lxml": LxmlEventWriter}
HANDLERS = {"native": XmlEventHandler, "lxml": LxmlEventHandler}

def rt(obj, ns_map=None, clazz=None, config=None, verbose=True, ctx=None, pconfig=None):
    """returns number of failing combos"""
    bad = 0
    for wn, w in WRITERS.items():
        for hn, hd in HANDLERS.items():
            c = ctx or XmlContext()
            try:
                xml = XmlSerializer(context=c, config=config or SerializerConfig(), writer=w).render(obj, ns_map=ns_map)
            except Exception as e:
                print(f"[{wn}/{hn}] RENDER ERROR {type(e).__name__}: {e}")
                bad += 1
                continue
            try:
                with warnings.catch_warnings(record=True) as ws:
                    warnings.simplefilter("always")
                    back = XmlParser(context=c, handler=hd, config=pconfig or ParserConfig()).from_string(xml, clazz or type(obj))
                ok = back == obj
                if verbose or not ok:
                    print(f"[{wn}/{hn}] {'OK ' if ok else 'MISMATCH'} xml={xml!r}")
                    if not ok:
                        print("   orig:", obj); print("   back:", back)
                        for w_ in ws: print("   warn:", w_.message)
                if not ok: bad += 1
            except Exception as e:
                print(f"[{wn}/{hn}] PARSE ERROR {type(e).__name__}: {e}\n   xml={xml!r}")
                bad += 1
    return bad
