from dataclasses import dataclass, field
from typing import List
from xsdata.formats.dataclass.parsers import XmlParser
@dataclass
class Root:
    l: List[int] = field(default_factory=lambda: [1, 2], metadata={"type": "Attribute", "tokens": True})
    e: List[int] = field(default_factory=lambda: [3], metadata={"type": "Element", "tokens": True})
print(XmlParser().from_string('<Root l=""><e/></Root>', Root))
print(XmlParser().from_string('<Root l=""><e></e></Root>', Root))
print(XmlParser().from_string('<Root l=" "><e> </e></Root>', Root))
