import sys, warnings
from dataclasses import dataclass, field
from typing import Dict, List, Optional, Tuple, Union
from xml.etree.ElementTree import QName

from xsdata.formats.dataclass.context import XmlContext
from xsdata.formats.dataclass.models.generics import AnyElement, DerivedElement
from xsdata.formats.dataclass.parsers import XmlParser
from xsdata.formats.dataclass.parsers.handlers import LxmlEventHandler, XmlEventHandler
from xsdata.formats.dataclass.serializers import XmlSerializer
from xsdata.formats.dataclass.serializers.config import SerializerConfig
from xsdata.formats.dataclass.serializers.writers import LxmlEventWriter, XmlEventWriter

WRITERS = {"native": XmlEventWriter, "lxml": LxmlEventWriter}
HANDLERS = {"native": XmlEventHandler, "lxml": LxmlEventHandler}
XSI = "http://www.w3.org/2001/XMLSchema-instance"
XS = "http://www.w3.org/2001/XMLSchema"


def roundtrip(obj, ns_map=None, config=None, writers=WRITERS, handlers=HANDLERS):
    """Render + parse back with every writer/handler combination.

    Returns the number of combinations for which parse(render(obj)) != obj
    (or for which rendering / parsing raised)."""
    bad = 0
    for wn, writer in writers.items():
        for hn, handler in handlers.items():
            ctx = XmlContext()
            try:
                xml = XmlSerializer(context=ctx, config=config or SerializerConfig(), writer=writer).render(obj, ns_map=ns_map)
            except Exception as e:
                print(f"[{wn} writer / {hn} handler] render raised {type(e).__name__}: {e}")
                bad += 1
                continue
            print(f"[{wn} writer / {hn} handler] xml: {xml!r}")
            try:
                with warnings.catch_warnings():
                    warnings.simplefilter("ignore")
                    back = XmlParser(context=ctx, handler=handler).from_string(xml, type(obj))
            except Exception as e:
                print(f"    parse raised {type(e).__name__}: {e}")
                bad += 1
                continue
            if back != obj:
                print(f"    MISMATCH\n      original: {obj!r}\n      parsed  : {back!r}")
                bad += 1
            else:
                print("    ok")
    return bad

# C01: class with a Text field declared AFTER an Element field.  The serializer emits the
# values in field order, so the text is written after the child element
# (<Root><a>1</a>text</Root>) where it is the *tail* of <a>; the parser only binds the
# leading text of the element to the Text field, so the value is lost (None).
# With the Text field declared first the same data round-trips (control).
@dataclass
class Root:
    a: Optional[int] = field(default=None, metadata={"type": "Element"})
    value: Optional[str] = field(default=None, metadata={"type": "Text"})


@dataclass
class Control:
    value: Optional[str] = field(default=None, metadata={"type": "Text"})
    a: Optional[int] = field(default=None, metadata={"type": "Element"})


print("--- control: Text field first")
control = roundtrip(Control(value="text", a=1))
print("--- Text field last")
bad = roundtrip(Root(a=1, value="text"))
print("control failures:", control, " failures:", bad)
sys.exit(1 if (bad and not control) else 0)
