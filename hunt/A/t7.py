from dataclasses import dataclass, field
from typing import Optional, List, Dict, Union, Tuple
from decimal import Decimal
from enum import Enum
from xml.etree.ElementTree import QName
from h import rt
from xsdata.formats.dataclass.models.generics import AnyElement, DerivedElement
from xsdata.formats.dataclass.serializers.config import SerializerConfig
from xsdata.models.datatype import *
def t(name, obj, **kw):
    print(name, rt(obj, verbose=False, **kw))

@dataclass
class T1:
    value: str = field(default="", metadata={"type": "Text"})
    a: Optional[str] = field(default=None, metadata={"type": "Attribute"})

@dataclass
class R1:
    t: Optional[T1] = field(default=None, metadata={"type": "Element"})
    ts: List[T1] = field(default_factory=list, metadata={"type": "Element"})
    s: Optional[str] = field(default=None, metadata={"type": "Element"})

for i, s in enumerate([" ", "\n", " a ", "\t", "a\r\nb", "\r", "]]>", "<&>\"'", "\u0085 ", "\U0001F600", "a  b"]):
    t(f"S{i}-plain", R1(t=T1(s, s), ts=[T1(s), T1(s)], s=s))
    t(f"S{i}-indent", R1(t=T1(s, s), ts=[T1(s), T1(s)], s=s), config=SerializerConfig(indent="  "))
t("root-text", T1(" "))
t("root-text-indent", T1(" x "), config=SerializerConfig(indent="  "))

class E(Enum):
    A = " a"
    B = "a"
    C = "a b"
    D = ""
@dataclass
class R2:
    e: Optional[E] = field(default=None, metadata={"type": "Element"})
    a: Optional[E] = field(default=None, metadata={"type": "Attribute"})
    l: List[E] = field(default_factory=list, metadata={"type": "Element"})
for m in E:
    t(f"En-{m.name}", R2(e=m, a=m, l=[m, m]))
