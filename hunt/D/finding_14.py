"""C11: tail text after a typed element that has a single (non list) wildcard moves inside that element.

ElementNode.bind_wild_text() stores the element's own *tail* in the AnyElement it creates for the
single wildcard field (tail_processed=True); convert_any_element() writes that tail after the
children but before the end tag. <Outer><Inner><a/></Inner>tail<b/></Outer> becomes
<Outer><Inner><a/>tail</Inner><b/></Outer>.
"""
import sys
from dataclasses import dataclass, field
from typing import List, Optional

from c11util import same
from xsdata.formats.dataclass.parsers import XmlParser
from xsdata.formats.dataclass.parsers.handlers import LxmlEventHandler, XmlEventHandler
from xsdata.formats.dataclass.serializers import XmlSerializer
from xsdata.formats.dataclass.serializers.config import SerializerConfig


@dataclass
class Inner:
    any: Optional[object] = field(default=None, metadata={"type": "Wildcard", "namespace": "##any"})


@dataclass
class Outer:
    content: List[object] = field(
        default_factory=list, metadata={"type": "Wildcard", "namespace": "##any", "mixed": True}
    )


serializer = XmlSerializer(config=SerializerConfig(xml_declaration=False))
bad = False
for doc in ("<Outer><Inner><a/></Inner>tail<b/></Outer>", "<Outer>x<Inner>t<a/></Inner>tail</Outer>"):
    for handler in (LxmlEventHandler, XmlEventHandler):
        obj = XmlParser(handler=handler).from_string(doc, Outer)
        out = serializer.render(obj)
        ok = same(doc, out)
        print("OK " if ok else "BAD", handler.__name__, doc, "\n    obj:", obj, "\n    out:", out)
        bad = bad or not ok

sys.exit(1 if bad else 0)
