"""C08/C09: native handler crashes on an ElementTree that contains comment / PI nodes.

xml.etree can keep comments and PIs in the tree (TreeBuilder(insert_comments=True,
insert_pis=True)); their .tag is a function and handlers/native.py iterwalk() passes
it to namespaces.target_uri() -> TypeError. The same document as bytes, or as an lxml
tree with the lxml handler, parses fine.
"""
import sys
from dataclasses import dataclass, field
from typing import Optional
from xml.etree import ElementTree as ET

from lxml import etree

from xsdata.formats.dataclass.parsers import XmlParser
from xsdata.formats.dataclass.parsers.handlers import LxmlEventHandler, XmlEventHandler


@dataclass
class Root:
    a: Optional[str] = field(default=None, metadata={"type": "Element"})
    b: Optional[str] = field(default=None, metadata={"type": "Element"})


doc = "<Root><!-- c --><a>1<!--x-->2</a><?pi x?><b>3</b></Root>"
expected = XmlParser(handler=XmlEventHandler).from_string(doc, Root)
print("bytes, native   :", expected)
print("lxml tree, lxml :", XmlParser(handler=LxmlEventHandler).parse(etree.fromstring(doc), Root))

parser = ET.XMLParser(target=ET.TreeBuilder(insert_comments=True, insert_pis=True))
tree = ET.ElementTree(ET.fromstring(doc, parser=parser))
try:
    result = XmlParser(handler=XmlEventHandler).parse(tree, Root)
except Exception as e:
    result = f"ERR {e!r}"
print("ET tree, native :", result)

sys.exit(1 if result != expected else 0)
