"""C11: xsi:nil="false" on a generic element with content is dropped.

EventHandler.flush_start() pops the xsi:nil attribute of every element that has content,
whatever its value, so <a xsi:nil="false">x</a> captured by a wildcard (AnyElement with the
attribute in its attributes map) is written back as <a>x</a>.
Both for the wildcard in a typed model and for the stand-alone TreeParser.
"""
import sys
from dataclasses import dataclass, field
from typing import List

from lxml import etree

from c11util import XSI
from xsdata.formats.dataclass.parsers import TreeParser, XmlParser
from xsdata.formats.dataclass.serializers import XmlSerializer
from xsdata.formats.dataclass.serializers.config import SerializerConfig


@dataclass
class R:
    any: List[object] = field(default_factory=list, metadata={"type": "Wildcard", "namespace": "##any"})


serializer = XmlSerializer(config=SerializerConfig(xml_declaration=False))
bad = False
for doc in (
    f'<R {XSI}><a xsi:nil="false">x</a></R>',
):
    inner = etree.tostring(etree.fromstring(doc)[0]).decode()
    for name, obj in (("XmlParser ", XmlParser().from_string(doc, R)), ("TreeParser", R(any=[TreeParser().from_string(inner)]))):
        out = serializer.render(obj)
        before = dict(etree.fromstring(doc)[0].attrib)
        after = dict(etree.fromstring(out.encode())[0].attrib)
        ok = before == after
        print("OK " if ok else "BAD", name, doc, "\n    out:", out, "\n    attributes:", before, "->", after)
        bad = bad or not ok

sys.exit(1 if bad else 0)
