"""C11: a nil element that matches a nillable choice of a wildcard loses xsi:nil (mixed) or disappears (list).

<nnum xsi:nil="true"/> for the choice {"name": "nnum", "type": Optional[int], "nillable": True}:
 - mixed wildcard: prepare_generic_value() builds AnyElement(qname='nnum', text=None) without attributes,
   written back as <nnum/> (which is not a valid empty int any more)
 - list wildcard: the list holds None, nothing is written back, the element is gone.
Same for a nillable complex choice.
"""
import sys
from dataclasses import dataclass, field
from typing import List, Optional

from c11util import XSI, same
from xsdata.formats.dataclass.parsers import XmlParser
from xsdata.formats.dataclass.serializers import XmlSerializer
from xsdata.formats.dataclass.serializers.config import SerializerConfig


@dataclass
class Sub:
    x: Optional[int] = field(default=None, metadata={"type": "Element"})


CHOICES = (
    {"name": "nnum", "type": Optional[int], "nillable": True},
    {"name": "nsub", "type": Optional[Sub], "nillable": True},
)


@dataclass
class M:
    any: List[object] = field(
        default_factory=list,
        metadata={"type": "Wildcard", "namespace": "##any", "mixed": True, "choices": CHOICES},
    )


@dataclass
class L:
    any: List[object] = field(
        default_factory=list, metadata={"type": "Wildcard", "namespace": "##any", "choices": CHOICES}
    )


serializer = XmlSerializer(config=SerializerConfig(xml_declaration=False))
bad = False
for clazz in (M, L):
    n = clazz.__name__
    for doc in (
        f'<{n} {XSI}><nnum xsi:nil="true"/><nnum>4</nnum></{n}>',
        f'<{n} {XSI}><nsub xsi:nil="true"/><nsub><x>1</x></nsub></{n}>',
    ):
        obj = XmlParser().from_string(doc, clazz)
        out = serializer.render(obj)
        ok = same(doc, out)
        print("OK " if ok else "BAD", doc, "\n    obj:", obj, "\n    out:", out)
        bad = bad or not ok

sys.exit(1 if bad else 0)
