"""C09: surrounding whitespace is not ignored for datetime/date/time fields that use a `format`.

DateTimeBase.parse() hands the raw text to datetime.strptime(): ' 2001-01-01 10:00 ' gives a
ConverterWarning and the raw str instead of the datetime that '2001-01-01 10:00' gives
(elements and attributes, both handlers).
"""
import datetime
import sys
import warnings
from dataclasses import dataclass, field
from typing import Optional

from xsdata.formats.dataclass.parsers import XmlParser
from xsdata.formats.dataclass.parsers.handlers import LxmlEventHandler, XmlEventHandler


@dataclass
class T:
    dt: Optional[datetime.datetime] = field(default=None, metadata={"type": "Element", "format": "%Y-%m-%d %H:%M"})
    d: Optional[datetime.date] = field(default=None, metadata={"type": "Element", "format": "%d.%m.%Y"})
    t: Optional[datetime.time] = field(default=None, metadata={"type": "Attribute", "format": "%H:%M"})


plain = '<T t="10:30"><dt>2001-01-01 10:00</dt><d>31.12.2001</d></T>'
spaced = '<T t=" 10:30 ">\n  <dt>\n    2001-01-01 10:00\n  </dt>\n  <d> 31.12.2001 </d>\n</T>'
bad = False
for handler in (LxmlEventHandler, XmlEventHandler):
    with warnings.catch_warnings(record=True) as caught:
        warnings.simplefilter("always")
        a = XmlParser(handler=handler).from_string(plain, T)
        b = XmlParser(handler=handler).from_string(spaced, T)
    print(handler.__name__, "plain :", a)
    print(handler.__name__, "spaced:", b)
    for w in caught:
        print("   warning:", str(w.message).replace("\n", " ")[:120])
    if a != b:
        bad = True

sys.exit(1 if bad else 0)
