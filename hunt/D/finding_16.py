"""C11 + C08: a tokens choice parsed into a (non mixed) wildcard list can not be written back; the two writers fail differently.

<L><toks>P1Y P2Y</toks></L> parses to L(any=[[XmlDuration('P1Y'), XmlDuration('P2Y')]]).
The serializer flattens the inner list and emits two consecutive DATA events, the second one is
treated as *tail of the root element*: the lxml writer and the tree serializer raise IndexError,
the native writer silently produces the not well-formed '<L>P1Y</L>P2Y'.
The same happens for any instance with two adjacent text items, e.g. L(any=["a", "b"]).
An empty <toks/> is lost altogether.
"""
import sys
from dataclasses import dataclass, field
from typing import List

from lxml import etree

from xsdata.formats.dataclass.parsers import XmlParser
from xsdata.formats.dataclass.serializers import TreeSerializer, XmlSerializer
from xsdata.formats.dataclass.serializers.config import SerializerConfig
from xsdata.formats.dataclass.serializers.writers import LxmlEventWriter, XmlEventWriter
from xsdata.models.datatype import XmlDuration


@dataclass
class L:
    any: List[object] = field(
        default_factory=list,
        metadata={
            "type": "Wildcard",
            "namespace": "##any",
            "choices": (
                {"name": "toks", "type": List[XmlDuration], "tokens": True, "default_factory": list},
                {"name": "num", "type": int},
            ),
        },
    )


config = SerializerConfig(xml_declaration=False)
bad = False
for source in ("<L><toks>P1Y P2Y</toks></L>", "<L><toks/></L>", L(any=["a", "b"])):
    obj = XmlParser().from_string(source, L) if isinstance(source, str) else source
    print("source:", source, "\n  obj:", obj)
    results = {}
    for name, func in (
        ("lxml writer  ", lambda: XmlSerializer(config=config, writer=LxmlEventWriter).render(obj)),
        ("native writer", lambda: XmlSerializer(config=config, writer=XmlEventWriter).render(obj)),
        ("tree         ", lambda: etree.tostring(TreeSerializer(config=config).render(obj)).decode()),
    ):
        try:
            out = func()
            try:
                etree.fromstring(out.encode())
                results[name] = out
            except etree.XMLSyntaxError as e:
                results[name] = f"NOT WELL-FORMED {out!r}"
        except Exception as e:
            results[name] = f"ERR {e!r}"
        print("  ", name, results[name])

    expected = source if isinstance(source, str) else None
    if len(set(results.values())) > 1 or any(v.startswith(("ERR", "NOT")) for v in results.values()):
        bad = True
    elif expected and etree.tostring(etree.fromstring(expected)) != etree.tostring(
        etree.fromstring(results["lxml writer  "])
    ):
        print("   element lost")
        bad = True

sys.exit(1 if bad else 0)
