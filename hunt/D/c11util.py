"""Helpers for the C11 finding scripts: prefix independent comparison of two xml documents."""
from lxml import etree

XSI_NS = "http://www.w3.org/2001/XMLSchema-instance"
XS_NS = "http://www.w3.org/2001/XMLSchema"
XSI = f'xmlns:xsi="{XSI_NS}" xmlns:xs="{XS_NS}"'


def _resolve(value, nsmap):
    prefix, sep, local = value.strip().rpartition(":")
    uri = nsmap.get(prefix or None)
    return f"{{{uri}}}{local}" if uri else local


def norm(e):
    attrs = {}
    for k, v in e.attrib.items():
        if k == f"{{{XSI_NS}}}type":
            v = _resolve(v, e.nsmap)
        attrs[k] = v
    kids = tuple(norm(c) for c in e if isinstance(c.tag, str))
    text = e.text or ""
    if attrs.get(f"{{{XSI_NS}}}type") in (f"{{{XS_NS}}}QName", f"{{{XS_NS}}}NOTATION"):
        text = _resolve(text, e.nsmap)
    if kids and not text.strip():
        text = ""
    tail = e.tail or ""
    if not tail.strip():
        tail = ""
    return e.tag, tuple(sorted(attrs.items())), text, kids, tail


def same(a: str, b: str) -> bool:
    return norm(etree.fromstring(a.encode())) == norm(etree.fromstring(b.encode()))
