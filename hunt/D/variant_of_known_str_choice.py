"""C11: a str typed choice of a (non mixed) wildcard list loses its element (remaining half of the known <num>5</num> issue).

<L>intro<s>x</s></L> parses to L(any=['intro', 'x']): the value of the choice element <s> is
indistinguishable from character data, convert_any_type() skips the by-value choice lookup for str,
and the document comes back as '<L>introx</L>'-like output (element lost, or an IndexError / not
well-formed output when two strings are adjacent, see finding_16.py).
"""
import sys
from dataclasses import dataclass, field
from typing import List

from c11util import same
from xsdata.formats.dataclass.parsers import XmlParser
from xsdata.formats.dataclass.serializers import XmlSerializer
from xsdata.formats.dataclass.serializers.config import SerializerConfig


@dataclass
class L:
    any: List[object] = field(
        default_factory=list,
        metadata={
            "type": "Wildcard",
            "namespace": "##any",
            "choices": ({"name": "s", "type": str}, {"name": "num", "type": int}),
        },
    )


serializer = XmlSerializer(config=SerializerConfig(xml_declaration=False))
bad = False
for doc in ("<L><num>5</num><s>x</s></L>", "<L><s>x</s><other/></L>"):
    obj = XmlParser().from_string(doc, L)
    try:
        out = serializer.render(obj)
        ok = same(doc, out)
    except Exception as e:
        out, ok = f"ERR {e!r}", False
    print("OK " if ok else "BAD", doc, "\n    obj:", obj, "\n    out:", out)
    bad = bad or not ok

sys.exit(1 if bad else 0)
