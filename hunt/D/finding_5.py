"""C08: attribute defaults declared in the internal DTD subset: native handler applies them, lxml handler does not."""
import sys
from dataclasses import dataclass, field
from typing import Optional

from xsdata.formats.dataclass.parsers import XmlParser
from xsdata.formats.dataclass.parsers.handlers import LxmlEventHandler, XmlEventHandler


@dataclass
class Node:
    x: Optional[str] = field(default=None, metadata={"type": "Attribute"})
    v: Optional[str] = field(default=None, metadata={"type": "Element"})


doc = b'<!DOCTYPE Node [<!ATTLIST Node x CDATA "dflt">]><Node><v>1</v></Node>'
res = {}
for handler in (LxmlEventHandler, XmlEventHandler):
    res[handler.__name__] = XmlParser(handler=handler).from_bytes(doc, Node)
    print(handler.__name__, res[handler.__name__])

sys.exit(1 if res["LxmlEventHandler"] != res["XmlEventHandler"] else 0)
