"""C08/C09: re-encoding a document in a multi-byte encoding breaks the native handler only.

The same document encoded as Shift_JIS / EUC-JP / GBK / Big5 (with the matching xml
declaration) parses with the lxml handler, the native handler lets a bare ValueError
("multi-byte encodings are not supported") escape - not even a ParserError.
"""
import sys
from dataclasses import dataclass, field
from typing import Optional

from xsdata.formats.dataclass.parsers import XmlParser
from xsdata.formats.dataclass.parsers.handlers import LxmlEventHandler, XmlEventHandler


@dataclass
class Node:
    v: Optional[str] = field(default=None, metadata={"type": "Element"})


text = "あい"  # hiragana, in all the encodings below except big5/gbk use CJK
bad = False
for enc, value in (("UTF-8", text), ("UTF-16", text), ("Shift_JIS", text), ("EUC-JP", text), ("GBK", "中"), ("Big5", "中")):
    doc = f'<?xml version="1.0" encoding="{enc}"?><Node><v>{value}</v></Node>'.encode(enc)
    res = {}
    for handler in (LxmlEventHandler, XmlEventHandler):
        try:
            res[handler.__name__] = XmlParser(handler=handler).from_bytes(doc, Node)
        except Exception as e:
            res[handler.__name__] = f"ERR {type(e).__name__}: {e}"
    print(enc, res)
    if res["LxmlEventHandler"] != res["XmlEventHandler"]:
        bad = True

sys.exit(1 if bad else 0)
