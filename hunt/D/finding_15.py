"""C11: a QName typed choice of a mixed wildcard comes back in Clark notation.

ElementNode.prepare_generic_value() wraps the parsed primitive of a wildcard choice into
AnyElement(text=converter.serialize(value)) without a prefix map, so <q xmlns:p="urn:p">p:a</q>
is written back as <q>{urn:p}a</q> - changed text that is not even a valid xs:QName.
"""
import sys
from dataclasses import dataclass, field
from typing import List
from xml.etree.ElementTree import QName

from lxml import etree

from xsdata.formats.dataclass.parsers import XmlParser
from xsdata.formats.dataclass.parsers.handlers import LxmlEventHandler, XmlEventHandler
from xsdata.formats.dataclass.serializers import XmlSerializer
from xsdata.formats.dataclass.serializers.config import SerializerConfig


@dataclass
class P:
    content: List[object] = field(
        default_factory=list,
        metadata={
            "type": "Wildcard",
            "namespace": "##any",
            "mixed": True,
            "choices": ({"name": "q", "type": QName}, {"name": "num", "type": int}),
        },
    )


def qname_of_q(xml):
    q = etree.fromstring(xml.encode()).find("q")
    prefix, _, local = q.text.strip().rpartition(":")
    return f"{{{q.nsmap.get(prefix or None)}}}{local}"


doc = '<P>see <q xmlns:p="urn:p">p:a</q> and <num>5</num></P>'
serializer = XmlSerializer(config=SerializerConfig(xml_declaration=False))
bad = False
for handler in (LxmlEventHandler, XmlEventHandler):
    obj = XmlParser(handler=handler).from_string(doc, P)
    out = serializer.render(obj)
    print(handler.__name__, obj, "\n    out:", out)
    if qname_of_q(out) != qname_of_q(doc):
        print("    BAD: q was", qname_of_q(doc), "now", qname_of_q(out))
        bad = True

sys.exit(1 if bad else 0)
