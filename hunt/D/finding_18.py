"""C11: a wildcard child element that happens to be called AnyElement (or DerivedElement) is lost.

For wildcard children build_node() asks context.find_type(qname) for a matching model; xsdata's own
generic dataclasses AnyElement / DerivedElement are found by that lookup. <R><AnyElement a="1">x</AnyElement></R>
is bound to AnyElement(qname=None, ...) and serialized as nothing (name and element gone, attributes moved
to the parent); <DerivedElement/> fails with a ParserError.
"""
import sys
from dataclasses import dataclass, field
from typing import List

from c11util import same
from xsdata.formats.dataclass.parsers import XmlParser
from xsdata.formats.dataclass.serializers import XmlSerializer
from xsdata.formats.dataclass.serializers.config import SerializerConfig


@dataclass
class R:
    any: List[object] = field(default_factory=list, metadata={"type": "Wildcard", "namespace": "##any"})


serializer = XmlSerializer(config=SerializerConfig(xml_declaration=False))
bad = False
for doc in ('<R><AnyElement a="1"><b/></AnyElement><c/></R>', "<R><DerivedElement/></R>"):
    try:
        obj = XmlParser().from_string(doc, R)
        out = serializer.render(obj)
        ok = same(doc, out)
    except Exception as e:
        obj, out, ok = None, f"ERR {e!r}", False
    print("OK " if ok else "BAD", doc, "\n    obj:", obj, "\n    out:", out)
    bad = bad or not ok

sys.exit(1 if bad else 0)
