"""C11: the xsi:type attribute value of an xsi:type'd primitive is not preserved.

The parsed DerivedElement only keeps the python value; the serializer re-derives the datatype
from the value (DataType.from_value): xs:long 5 -> xs:short, xs:unsignedLong -> xs:integer,
xs:float -> xs:double, xs:token/xs:anyURI/xs:NMTOKENS -> xs:string, xs:NOTATION -> xs:QName.
"""
import sys
from dataclasses import dataclass, field
from typing import List

from c11util import XSI, same
from xsdata.formats.dataclass.parsers import XmlParser
from xsdata.formats.dataclass.serializers import XmlSerializer
from xsdata.formats.dataclass.serializers.config import SerializerConfig


@dataclass
class R:
    any: List[object] = field(default_factory=list, metadata={"type": "Wildcard", "namespace": "##any"})


serializer = XmlSerializer(config=SerializerConfig(xml_declaration=False))
bad = False
for xsi_type, text in (
    ("xs:long", "5"),
    ("xs:unsignedLong", "18446744073709551615"),
    ("xs:float", "1.5"),
    ("xs:anyURI", "http://x"),
    ("xs:token", "a"),
    ("xs:NMTOKENS", "a b"),
    ('xs:NOTATION" xmlns:q="urn:q', "q:n"),
):
    doc = f'<R {XSI}><a xsi:type="{xsi_type}">{text}</a></R>'
    obj = XmlParser().from_string(doc, R)
    out = serializer.render(obj)
    ok = same(doc, out)
    print("OK " if ok else "BAD", doc[doc.index("><") + 1 :], "\n    out:", out)
    bad = bad or not ok

sys.exit(1 if bad else 0)
