"""C08: an Element (sub-tree) source that has tail text yields the tail str, not the object.

The docs advertise "selective parsing" by passing an Element picked from a tree.
If the picked element is followed by character data (mixed content parent), both
handlers return that tail string instead of the bound object; the same element
supplied as bytes gives the object.
"""
import sys
from dataclasses import dataclass, field
from typing import Optional
from xml.etree import ElementTree as ET

from lxml import etree

from xsdata.formats.dataclass.parsers import XmlParser
from xsdata.formats.dataclass.parsers.handlers import LxmlEventHandler, XmlEventHandler


@dataclass
class A:
    x: Optional[int] = field(default=None, metadata={"type": "Element"})


doc = "<R>head<A><x>1</x></A>tail<b/></R>"
expected = XmlParser().from_bytes(b"<A><x>1</x></A>", A)
print("from bytes      :", repr(expected))

bad = False
for mod, handler in ((etree, LxmlEventHandler), (ET, XmlEventHandler)):
    element = mod.fromstring(doc).find("A")
    result = XmlParser(handler=handler).parse(element, A)
    print(f"{handler.__name__:16}:", repr(result))
    if result != expected:
        bad = True

sys.exit(1 if bad else 0)
