"""C08: native handler loses namespace declarations made inside a class-union element.

UnionNode returns itself for every descendant, so XmlEventHandler.merge_parent_namespaces
uses the union element's prefix map as "parent" map for all descendants: a prefix declared
on a child inside the union element is not in scope for the grand children.
The lxml handler (element.nsmap) is fine.
"""
import sys
from dataclasses import dataclass, field
from typing import Optional, Union
from xml.etree.ElementTree import QName

from xsdata.formats.dataclass.parsers import XmlParser
from xsdata.formats.dataclass.parsers.handlers import LxmlEventHandler, XmlEventHandler


@dataclass
class Item:
    q: Optional[QName] = field(default=None, metadata={"type": "Element"})


@dataclass
class A:
    item: Optional[Item] = field(default=None, metadata={"type": "Element"})
    x: Optional[int] = field(default=None, metadata={"type": "Element"})


@dataclass
class B:
    item: Optional[Item] = field(default=None, metadata={"type": "Element"})
    y: Optional[int] = field(default=None, metadata={"type": "Element"})


@dataclass
class Root:
    u: Optional[Union[A, B]] = field(default=None, metadata={"type": "Element"})


doc = '<Root><u><item xmlns:p="urn:p"><q>p:a</q></item><x>1</x></u></Root>'
results = {}
for handler in (LxmlEventHandler, XmlEventHandler):
    try:
        results[handler.__name__] = XmlParser(handler=handler).from_string(doc, Root)
    except Exception as e:
        results[handler.__name__] = f"ERR {e!r}"
    print(handler.__name__, "->", results[handler.__name__])

sys.exit(1 if results["LxmlEventHandler"] != results["XmlEventHandler"] else 0)
