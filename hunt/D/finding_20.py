"""C08 + C09: an empty CDATA section is "no content" for the native handler but "empty string" for the lxml handler.

<s></s> and <s><![CDATA[]]></s> have the same infoset (no character information items).
lxml reports text '' for the CDATA form (None for the plain form), expat reports None for both.
With the lxml handler a field default is therefore applied for <s></s> but not for
<s><![CDATA[]]></s>, an int element gives a ConverterWarning and '', and the two handlers
disagree on the same document.
"""
import sys
import warnings
from dataclasses import dataclass, field
from typing import Optional

from xsdata.formats.dataclass.parsers import XmlParser
from xsdata.formats.dataclass.parsers.handlers import LxmlEventHandler, XmlEventHandler


@dataclass
class R:
    a: Optional[int] = field(default=None, metadata={"type": "Element", "nillable": True})
    s: Optional[str] = field(default="dflt", metadata={"type": "Element"})


plain = "<R><a></a><s></s></R>"
cdata = "<R><a><![CDATA[]]></a><s><![CDATA[]]></s></R>"
res = {}
for handler in (LxmlEventHandler, XmlEventHandler):
    for name, doc in (("plain", plain), ("cdata", cdata)):
        with warnings.catch_warnings(record=True) as caught:
            warnings.simplefilter("always")
            res[handler.__name__, name] = XmlParser(handler=handler).from_string(doc, R)
        print(handler.__name__, name, doc, "->", res[handler.__name__, name], [str(w.message).replace("\n", " ")[:70] for w in caught])

sys.exit(1 if len(set(map(repr, res.values()))) > 1 else 0)
