"""C08: the lxml handler can not parse well-formed documents with a >10MB text node or >=256 nesting levels.

iterparse is created without huge_tree=True (and with recover=True), so libxml2's
limits kick in and the handler ends with `ParserError: Failed to create target class`,
while the native handler parses the same documents fine.
"""
import sys
from dataclasses import dataclass, field
from typing import Optional

from xsdata.formats.dataclass.parsers import XmlParser
from xsdata.formats.dataclass.parsers.handlers import LxmlEventHandler, XmlEventHandler


@dataclass
class Node:
    v: Optional[str] = field(default=None, metadata={"type": "Element"})
    node: Optional["Node"] = field(default=None, metadata={"type": "Element", "name": "Node"})


def depth(n):
    d = 0
    while n is not None:
        d += 1
        n = n.node
    return d


big = "x" * (10_000_001)
docs = {
    "text node of 10_000_001 chars": (f"<Node><v>{big}</v></Node>".encode(), lambda o: len(o.v)),
    "300 nested elements": (("<Node>" * 300 + "</Node>" * 300).encode(), depth),
}
bad = False
for name, (doc, summary) in docs.items():
    res = {}
    for handler in (LxmlEventHandler, XmlEventHandler):
        try:
            res[handler.__name__] = summary(XmlParser(handler=handler).from_bytes(doc, Node))
        except Exception as e:
            res[handler.__name__] = f"ERR {e!r}"
    print(name, res)
    if res["LxmlEventHandler"] != res["XmlEventHandler"]:
        bad = True

sys.exit(1 if bad else 0)
