"""C09: surrounding whitespace in the (xs:boolean) xsi:nil attribute changes the result.

ParserUtils.xsi_nil compares the raw attribute value with "true": ' true ' (and the
equivalent lexical form '1') are treated as not-nil. A nillable primitive gets its
default value instead of None, a nillable complex element is rejected with
"Unknown property".
"""
import sys
from dataclasses import dataclass, field
from typing import Optional

from xsdata.formats.dataclass.parsers import XmlParser
from xsdata.formats.dataclass.parsers.handlers import LxmlEventHandler, XmlEventHandler


@dataclass
class C:
    x: Optional[int] = field(default=None, metadata={"type": "Element"})


@dataclass
class R:
    a: Optional[int] = field(default=5, metadata={"type": "Element", "nillable": True})
    c: Optional[C] = field(default_factory=C, metadata={"type": "Element", "nillable": True})


XSI = 'xmlns:xsi="http://www.w3.org/2001/XMLSchema-instance"'
bad = False
for handler in (LxmlEventHandler, XmlEventHandler):
    for template in ('<R {xsi}><a xsi:nil="{nil}"/></R>', '<R {xsi}><c xsi:nil="{nil}"/></R>'):
        res = {}
        for nil in ("true", " true ", "\ntrue\t"):
            doc = template.format(xsi=XSI, nil=nil)
            try:
                res[nil] = XmlParser(handler=handler).from_string(doc, R)
            except Exception as e:
                res[nil] = f"ERR {e!r}"
            print(handler.__name__, repr(doc[doc.index("><") + 1 :]), "->", res[nil])
        if len(set(map(repr, res.values()))) > 1:
            bad = True

sys.exit(1 if bad else 0)
