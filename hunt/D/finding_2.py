"""C08: parsing an already parsed tree destroys it; a second parse of the same tree gives another object.

Both handlers call element.clear() on the nodes of the *user supplied* tree
(lxml and xml.etree alike), so the same source parsed twice yields different objects
and the caller's tree is emptied.
"""
import sys
from dataclasses import dataclass, field
from typing import Optional
from xml.etree import ElementTree as ET

from lxml import etree

from xsdata.formats.dataclass.parsers import XmlParser
from xsdata.formats.dataclass.parsers.handlers import LxmlEventHandler, XmlEventHandler


@dataclass
class A:
    x: Optional[int] = field(default=None, metadata={"type": "Element"})
    y: Optional[str] = field(default=None, metadata={"type": "Attribute"})


doc = '<A y="1"><x>1</x></A>'
bad = False
for mod, handler in ((etree, LxmlEventHandler), (ET, XmlEventHandler)):
    tree = mod.fromstring(doc)
    first = XmlParser(handler=handler).parse(tree, A)
    second = XmlParser(handler=handler).parse(tree, A)
    print(handler.__name__, "first :", first)
    print(handler.__name__, "second:", second)
    print(handler.__name__, "tree afterwards:", mod.tostring(tree))
    if first != second:
        bad = True

sys.exit(1 if bad else 0)
