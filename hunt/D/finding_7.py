"""C08/C09: a document split with XInclude and supplied as an open file (or pathlib.Path) is not resolved by the native handler.

handlers/native.py get_base_url() only knows str sources; for a file object or a Path the
relative href is resolved against the current working directory, while the lxml handler takes
the base url from the file. Same document, same source kind, different outcome per handler;
and for the native handler the split document no longer parses like the unsplit one.
"""
import os
import pathlib
import sys
import tempfile
from dataclasses import dataclass, field
from typing import List, Optional

from xsdata.formats.dataclass.parsers import XmlParser
from xsdata.formats.dataclass.parsers.config import ParserConfig
from xsdata.formats.dataclass.parsers.handlers import LxmlEventHandler, XmlEventHandler


@dataclass
class Item:
    v: Optional[str] = field(default=None, metadata={"type": "Element"})


@dataclass
class Root:
    item: List[Item] = field(default_factory=list, metadata={"type": "Element", "name": "Item"})


tmp = pathlib.Path(tempfile.mkdtemp(dir="/tmp/hunt/D"))
(tmp / "top.xml").write_text(
    '<Root xmlns:xi="http://www.w3.org/2001/XInclude"><xi:include href="c.xml"/></Root>'
)
(tmp / "c.xml").write_text("<Item><v>c</v></Item>")
expected = XmlParser().from_string("<Root><Item><v>c</v></Item></Root>", Root)
print("unsplit document:", expected)
os.chdir("/")

config = ParserConfig(process_xinclude=True)
bad = False
for kind in ("str path", "file object", "pathlib.Path"):
    for handler in (LxmlEventHandler, XmlEventHandler):
        try:
            if kind == "str path":
                result = XmlParser(handler=handler, config=config).parse(str(tmp / "top.xml"), Root)
            elif kind == "file object":
                with open(tmp / "top.xml", "rb") as fp:
                    result = XmlParser(handler=handler, config=config).parse(fp, Root)
            else:
                result = XmlParser(handler=handler, config=config).parse(tmp / "top.xml", Root)
        except Exception as e:
            result = f"ERR {e!r}"
        print(f"{kind:13} {handler.__name__:17}", result)
        if result != expected:
            bad = True

sys.exit(1 if bad else 0)
