"""C11: an xsi:type'd primitive captured by a wildcard loses every other attribute (also xsi:nil).

build_node() routes elements with a builtin xsi:type to StandardNode, which never looks at the
element attributes. <b xsi:type="xs:int" foo="bar">5</b> comes back without foo, and the valid
<b xsi:type="xs:int" xsi:nil="true"/> comes back as <b xsi:type="xs:string"/>.
Same for list, single and mixed wildcards.
"""
import sys
from dataclasses import dataclass, field
from typing import List

from lxml import etree

from c11util import XSI, XSI_NS
from xsdata.formats.dataclass.parsers import XmlParser
from xsdata.formats.dataclass.serializers import XmlSerializer
from xsdata.formats.dataclass.serializers.config import SerializerConfig


@dataclass
class R:
    any: List[object] = field(default_factory=list, metadata={"type": "Wildcard", "namespace": "##any"})


@dataclass
class M:
    any: List[object] = field(default_factory=list, metadata={"type": "Wildcard", "namespace": "##any", "mixed": True})


serializer = XmlSerializer(config=SerializerConfig(xml_declaration=False))
bad = False
for clazz in (R, M):
    n = clazz.__name__
    for doc in (
        f'<{n} {XSI}><b xsi:type="xs:int" foo="bar" xml:lang="en">5</b></{n}>',
        f'<{n} {XSI}><b xsi:type="xs:int" xsi:nil="true"/></{n}>',
    ):
        obj = XmlParser().from_string(doc, clazz)
        out = serializer.render(obj)
        # only look at the attribute names other than xsi:type (its value is finding 13)
        names = lambda xml: sorted(k for k in etree.fromstring(xml.encode())[0].attrib if k != f"{{{XSI_NS}}}type")
        ok = names(doc) == names(out)
        print("OK " if ok else "BAD", doc, "\n    obj:", obj, "\n    out:", out, "\n    attributes in:", names(doc), "out:", names(out))
        bad = bad or not ok

sys.exit(1 if bad else 0)
