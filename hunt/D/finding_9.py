"""C08: the same document supplied as text is not parsed like its bytes form.

(a) from_string() blindly encodes the str as UTF-8 but leaves the xml declaration in place, so a
    text document whose declaration names another encoding (e.g. read from a latin-1 file in text mode)
    is decoded twice: 'caf\xe9' becomes 'caf\xc3\xa9' for both handlers (and fails for UTF-16).
(b) a text-mode file object (io.StringIO / open(path)) works with the native handler and raises a
    TypeError with the lxml handler.
"""
import io
import sys
from dataclasses import dataclass, field
from typing import Optional

from xsdata.formats.dataclass.parsers import XmlParser
from xsdata.formats.dataclass.parsers.handlers import LxmlEventHandler, XmlEventHandler


@dataclass
class Node:
    v: Optional[str] = field(default=None, metadata={"type": "Element"})


bad = False
text = '<?xml version="1.0" encoding="ISO-8859-1"?><Node><v>café</v></Node>'
data = text.encode("ISO-8859-1")
for handler in (LxmlEventHandler, XmlEventHandler):
    from_bytes = XmlParser(handler=handler).from_bytes(data, Node)
    from_text = XmlParser(handler=handler).from_string(text, Node)
    print(handler.__name__, "bytes:", from_bytes, "| text:", from_text)
    if from_bytes != from_text:
        bad = True

text = "<Node><v>café</v></Node>"
res = {}
for handler in (LxmlEventHandler, XmlEventHandler):
    try:
        res[handler.__name__] = XmlParser(handler=handler).parse(io.StringIO(text), Node)
    except Exception as e:
        res[handler.__name__] = f"ERR {type(e).__name__}: {e}"
    print(handler.__name__, "StringIO:", res[handler.__name__])
if res["LxmlEventHandler"] != res["XmlEventHandler"]:
    bad = True

sys.exit(1 if bad else 0)
