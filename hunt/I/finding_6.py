"""C14 (minor): RecordParser.events is never reset between parse calls.

RecordParser (xsdata/formats/dataclass/parsers/bases.py) records the events of
a parse so that they can be replayed through EventsHandler.  The list lives on
the parser instance and is only ever appended to, so after a second parse the
"recorded events" of the call contain the previous document (also when that
previous call failed half way); replaying them does not reproduce the call.
"""
import sys
from dataclasses import dataclass, field

from xsdata.formats.dataclass.parsers.bases import NodeParser, RecordParser
from xsdata.formats.dataclass.parsers.handlers import LxmlEventHandler
from xsdata.formats.dataclass.parsers.mixins import EventsHandler


@dataclass
class A:
    x: str = field(default="", metadata={"type": "Element"})


@dataclass
class B:
    y: str = field(default="", metadata={"type": "Element"})


def attempt(func):
    try:
        return repr(func())
    except Exception as e:
        return f"{type(e).__name__}: {e}"


def replay(events, clazz):
    return NodeParser(handler=EventsHandler).parse(events, clazz)


used = RecordParser(handler=LxmlEventHandler)
attempt(lambda: used.from_string("<A><x>1</x><zzz/></A>", A))  # fails half way
used_result = attempt(lambda: used.from_string("<B><y>2</y></B>", B))
used_events = list(used.events)

fresh = RecordParser(handler=LxmlEventHandler)
fresh_result = attempt(lambda: fresh.from_string("<B><y>2</y></B>", B))
fresh_events = list(fresh.events)

print("results       :", used_result, "|", fresh_result)
print("used events   :", used_events)
print("fresh events  :", fresh_events)
print("replay used   :", attempt(lambda: replay(used_events, B)))
print("replay fresh  :", attempt(lambda: replay(fresh_events, B)))

violation = used_events != fresh_events
print("VIOLATION" if violation else "ok")
sys.exit(1 if violation else 0)
