"""C14: the prefix map recorded by a parse depends on earlier documents.

When parse() is called without the optional ns_map argument the prefixes are
recorded in parser.ns_map ("The parsed namespace prefix-URI map").  The map is
never reset and register_namespace() keeps the first binding of a prefix, so
after another document (even one whose parse failed) the map reported for a
document is wrong: it binds the prefix to a namespace that does not occur in
the document at all.  Feeding it to a serializer, as the docs suggest for the
captured prefixes, declares the foreign namespace in the output.
"""
import sys
from dataclasses import dataclass, field

from xsdata.formats.dataclass.parsers import XmlParser
from xsdata.formats.dataclass.parsers.handlers import LxmlEventHandler, XmlEventHandler
from xsdata.formats.dataclass.serializers import XmlSerializer
from xsdata.formats.dataclass.serializers.config import SerializerConfig


@dataclass
class A:
    class Meta:
        name = "a"
        namespace = "urn:a"

    x: str = field(default="", metadata={"type": "Element"})


@dataclass
class B:
    class Meta:
        name = "b"
        namespace = "urn:b"

    y: str = field(default="", metadata={"type": "Element"})


doc_a = '<p:a xmlns:p="urn:a"><p:x>1</p:x></p:a>'
doc_a_bad = '<p:a xmlns:p="urn:a"><p:unknown>1</p:unknown></p:a>'
doc_b = '<p:b xmlns:p="urn:b"><p:y>2</p:y></p:b>'

violations = 0
serializer = XmlSerializer(config=SerializerConfig(xml_declaration=False))
for handler in (LxmlEventHandler, XmlEventHandler):
    for label, first in (("ok", doc_a), ("failed", doc_a_bad)):
        used = XmlParser(handler=handler)
        try:
            used.from_string(first, A)
        except Exception as e:
            print("   first call failed:", e)
        obj_used = used.from_string(doc_b, B)

        fresh = XmlParser(handler=handler)
        obj_fresh = fresh.from_string(doc_b, B)

        out_used = serializer.render(obj_used, ns_map=used.ns_map)
        out_fresh = serializer.render(obj_fresh, ns_map=fresh.ns_map)
        print(f"{handler.__name__} after {label} parse of another document")
        print("   used  parser.ns_map:", used.ns_map, "->", out_used)
        print("   fresh parser.ns_map:", fresh.ns_map, "->", out_fresh)
        if used.ns_map != fresh.ns_map or out_used != out_fresh:
            violations += 1

print("VIOLATION" if violations else "ok")
sys.exit(1 if violations else 0)
