"""C14: the type index of a used context is stale for models defined later.

XmlContext.build_xsi_cache() only refreshes when len(sys.modules) changed.
A model that is defined after the first lookup without a new module being
imported (classes built in a function / REPL / notebook cell, make_dataclass,
a module that replaces another one in sys.modules, ...) is invisible to the
used context, a fresh context finds it.  Parse without target class,
xsi:type lookups and wildcard binding all give another result.
"""
import sys
from dataclasses import dataclass, field

from xsdata.formats.dataclass.context import XmlContext
from xsdata.formats.dataclass.parsers import JsonParser, XmlParser


@dataclass
class First:
    a: str = field(default="", metadata={"type": "Element"})


@dataclass
class Holder:
    any: object = field(default=None, metadata={"type": "Wildcard"})


def attempt(func):
    try:
        return repr(func())
    except Exception as e:
        return f"{type(e).__name__}: {e}"


shared = XmlContext()
parser = XmlParser(context=shared)
json_parser = JsonParser(context=shared)
print("warm-up:", attempt(lambda: parser.from_string("<First><a>x</a></First>")))

# import everything the later calls need, so that the module count is stable
import json  # noqa
before = len(sys.modules)


@dataclass
class Second:
    b: str = field(default="", metadata={"type": "Element"})


assert len(sys.modules) == before

calls = {
    "xml root lookup": lambda p, j: p.from_string("<Second><b>x</b></Second>"),
    "xml wildcard": lambda p, j: p.from_string(
        "<Holder><Second><b>x</b></Second></Holder>", Holder
    ),
    "json lookup": lambda p, j: j.from_string('{"b": "x"}'),
}

violations = 0
for name, call in calls.items():
    used = attempt(lambda: call(parser, json_parser))
    ctx = XmlContext()
    fresh = attempt(lambda: call(XmlParser(context=ctx), JsonParser(context=ctx)))
    print(f"{name:16} shared: {used}")
    print(f"{name:16} fresh : {fresh}")
    if used != fresh:
        violations += 1

# ---- same thing with importlib.reload: the module count does not change either
import importlib, os, tempfile, textwrap

tmp = tempfile.mkdtemp(dir=os.path.dirname(os.path.abspath(__file__)))
with open(os.path.join(tmp, "hunt_i_models.py"), "w") as fp:
    fp.write(textwrap.dedent("""
        from dataclasses import dataclass, field

        @dataclass
        class Reloaded:
            v: int = field(default=0, metadata={"type": "Element"})
    """))
sys.path.insert(0, tmp)
import hunt_i_models

doc = "<Reloaded><v>1</v></Reloaded>"
shared2 = XmlContext()
parser2 = XmlParser(context=shared2)
parser2.from_string(doc)
importlib.reload(hunt_i_models)
used = isinstance(parser2.from_string(doc), hunt_i_models.Reloaded)
fresh = isinstance(XmlParser(context=XmlContext()).from_string(doc), hunt_i_models.Reloaded)
print("after reload, result is instance of the current class: shared", used, "fresh", fresh)
if used != fresh:
    violations += 1

import shutil
shutil.rmtree(tmp, ignore_errors=True)
print("VIOLATION" if violations else "ok")
sys.exit(1 if violations else 0)
