"""C14: the same decode call gives another result the second time.

XmlContext.find_type_by_fields() iterates the lists of the type index while
local_names_match() removes unsupported classes from those very lists.  The
removal shifts the list under the running iteration, so the class that follows
an unsupported class with the same qualified name is skipped - but only on the
call that prunes.  The next identical call on the same context sees it.

Setup: a third party module has a plain dataclass ``Settings`` with typing the
binding does not support, the user's models module has a ``Settings`` model.
"""
import sys
import types
from dataclasses import dataclass, field  # noqa

from xsdata.formats.dataclass.context import XmlContext
from xsdata.formats.dataclass.parsers import DictDecoder


def make_module(name, source):
    module = types.ModuleType(name)
    sys.modules[name] = module
    exec(source, module.__dict__)
    return module


make_module(
    "hunt_i_thirdparty",
    """
from dataclasses import dataclass, field

@dataclass
class Settings:            # not a binding model: dict[str, int] is unsupported
    options: dict[str, int] = field(default_factory=dict)
""",
)
models = make_module(
    "hunt_i_models3",
    """
from dataclasses import dataclass, field

@dataclass
class Settings:
    host: str = field(default="", metadata={"type": "Element"})
    port: int = field(default=0, metadata={"type": "Element"})
""",
)


def attempt(func):
    try:
        return repr(func())
    except Exception as e:
        return f"{type(e).__name__}: {e}"


data = {"host": "h", "port": 1}
shared = DictDecoder(context=XmlContext())
results = []
for i in range(3):
    used = attempt(lambda: shared.decode(data))
    fresh = attempt(lambda: DictDecoder(context=XmlContext()).decode(data))
    print(f"call {i} shared: {used}")
    print(f"call {i} fresh : {fresh}")
    results.append(used == fresh)

violation = not all(results)
print("VIOLATION" if violation else "ok")
sys.exit(1 if violation else 0)
