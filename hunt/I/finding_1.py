"""C14: SerializerConfig.globalns leaks through the class-keyed metadata cache.

XmlContext.build(clazz, parent_ns, globalns) caches the XmlMeta by class only.
The type information resolved with the ``globalns`` of one serializer is reused
for every later call on the shared context:

 (a) two serializers that map the forward reference "Item" to different classes
     give a different document on a shared context than on fresh ones,
 (b) XmlParser (which has no globalns at all) parses the class only if a
     serializer with globalns happened to run before on the same context;
     on a fresh context the same call raises NameError.
"""
import sys
from dataclasses import dataclass, field

from xsdata.formats.dataclass.context import XmlContext
from xsdata.formats.dataclass.parsers import XmlParser
from xsdata.formats.dataclass.serializers import XmlSerializer
from xsdata.formats.dataclass.serializers.config import SerializerConfig


@dataclass
class ItemA:
    class Meta:
        name = "item"

    code: int = field(default=0, metadata={"type": "Attribute"})


@dataclass
class ItemB:
    class Meta:
        name = "item"

    code: str = field(default="", metadata={"type": "Element"})


@dataclass
class Basket:
    # "Item" is not importable from this module (circular imports, TYPE_CHECKING),
    # it has to be supplied through SerializerConfig.globalns
    item: "Item" = field(metadata={"type": "Element"})


def attempt(func):
    try:
        return func()
    except Exception as e:
        return f"{type(e).__name__}: {e}"


cfg_a = SerializerConfig(xml_declaration=False, globalns={"Item": ItemA})
cfg_b = SerializerConfig(xml_declaration=False, globalns={"Item": ItemB})
xml = "<Basket><item><code>7</code></item></Basket>"

violations = 0

# ---- (a) serializer B after serializer A on a shared context
shared = XmlContext()
first = attempt(lambda: XmlSerializer(context=shared, config=cfg_a).render(Basket(item=ItemA(code=1))))
used = attempt(lambda: XmlSerializer(context=shared, config=cfg_b).render(Basket(item=ItemB(code="x"))))
fresh = attempt(lambda: XmlSerializer(context=XmlContext(), config=cfg_b).render(Basket(item=ItemB(code="x"))))
print("serializer A (warm-up)    :", first)
print("serializer B shared ctx   :", used)
print("serializer B fresh ctx    :", fresh)
if used != fresh:
    violations += 1

# ---- (b) parser after a serializer with globalns
shared = XmlContext()
XmlSerializer(context=shared, config=cfg_b).render(Basket(item=ItemB(code="x")))
used = attempt(lambda: repr(XmlParser(context=shared).from_string(xml, Basket)))
fresh = attempt(lambda: repr(XmlParser(context=XmlContext()).from_string(xml, Basket)))
print("parse on shared ctx       :", used)
print("parse on fresh ctx        :", fresh)
if used != fresh:
    violations += 1

print("VIOLATION" if violations else "ok")
sys.exit(1 if violations else 0)
