"""C14: an unrelated (even failing) decode changes what a later parse returns.

Decoding JSON/dicts without a target class prunes, in place, every class of
the shared type index whose metadata can not be built
(XmlContext.local_names_match).  XML parsing without a target class, xsi:type
and wildcard lookups use the same index (find_type returns the LAST class with
the qualified name).  So after a decode call - successful or not - the same
parse call binds to another class than before, and than on a fresh context.
The pruned classes silently come back as soon as any module is imported
(index rebuild), flipping the result once more.
"""
import sys
import types

from xsdata.formats.dataclass.context import XmlContext
from xsdata.formats.dataclass.parsers import DictDecoder, XmlParser


def make_module(name, source):
    module = types.ModuleType(name)
    sys.modules[name] = module
    exec(source, module.__dict__)
    return module


make_module(
    "hunt_i_models4",
    """
from dataclasses import dataclass, field

@dataclass
class Settings:
    host: str = field(default="", metadata={"type": "Element"})
    port: int = field(default=0, metadata={"type": "Element"})
""",
)
make_module(
    "hunt_i_thirdparty4",
    """
from dataclasses import dataclass, field

@dataclass
class Settings:            # imported later, not a binding model
    options: dict[str, int] = field(default_factory=dict)
""",
)


def attempt(func):
    try:
        return repr(func())
    except Exception as e:
        return f"{type(e).__name__}: {e}"


xml = "<Settings><host>h</host><port>1</port></Settings>"
ctx = XmlContext()
parser = XmlParser(context=ctx)

before = attempt(lambda: parser.from_string(xml))
other = attempt(lambda: DictDecoder(context=ctx).decode({"nothing": 1}))  # fails
after = attempt(lambda: parser.from_string(xml))
fresh = attempt(lambda: XmlParser(context=XmlContext()).from_string(xml))

print("shared, before decode :", before)
print("unrelated decode      :", other)
print("shared, after decode  :", after)
print("fresh                 :", fresh)

import colorsys  # noqa: any first-time import rebuilds the index

again = attempt(lambda: parser.from_string(xml))
print("shared, after import  :", again)

violation = after != fresh or before != after
print("VIOLATION" if violation else "ok")
sys.exit(1 if violation else 0)
