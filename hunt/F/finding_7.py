"""C02: the xsi:type of a simple value inside an xs:anyType element is rewritten (retyped).

<any xsi:type="xs:long">5</any> comes back as xsi:type="xs:short", xs:float as xs:double,
xs:token / xs:anyURI as xs:string, xs:nonNegativeInteger as xs:short ...: the parser keeps only
the python value and the serializer re-derives a datatype from it, so the declared type of
the value in the output differs from the input.
"""
import sys
from lxml import etree
from harness import generate, roundtrip, validate_xsd

XSD = """<xs:schema xmlns:xs="http://www.w3.org/2001/XMLSchema" targetNamespace="urn:t" elementFormDefault="qualified">
<xs:element name="root"><xs:complexType><xs:sequence>
  <xs:element name="any" type="xs:anyType" maxOccurs="unbounded"/>
</xs:sequence></xs:complexType></xs:element></xs:schema>"""
DOC = ('<root xmlns="urn:t" xmlns:xsi="http://www.w3.org/2001/XMLSchema-instance" xmlns:xs="http://www.w3.org/2001/XMLSchema">'
       '<any xsi:type="xs:long">5</any><any xsi:type="xs:float">1.5</any><any xsi:type="xs:anyURI">urn:x</any>'
       '<any xsi:type="xs:nonNegativeInteger">7</any></root>')
XSI = "{http://www.w3.org/2001/XMLSchema-instance}type"

mod, tmp, pkg = generate(XSD)
assert validate_xsd(XSD, DOC, base_dir=tmp)[0]
obj, out = roundtrip(mod, DOC)
print(obj)
print(out)

def types(xml):
    res = []
    for el in etree.fromstring(xml.encode()):
        val = el.get(XSI)
        if val is None:
            res.append((None, None, el.text))
            continue
        pfx, _, local = val.partition(":")
        res.append((el.nsmap[pfx], local, el.text))
    return res

a, b = types(DOC), types(out)
print(a)
print(b)
if a != b:
    print("VIOLATION: xsi:type of the values was changed")
    sys.exit(1)
sys.exit(0)
