from harness import *
dtd='''<!ELEMENT root (a, (a|b)*)>
<!ELEMENT a (#PCDATA)><!ELEMENT b EMPTY>
'''
mod,tmp,pkg=generate(dtd,suffix=".dtd",compound=True)
show_source(tmp,pkg)
obj,out=roundtrip(mod,'<root><a>1</a><b/><a>2</a><b/></root>')
print(obj);print(out)
