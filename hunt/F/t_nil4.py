from harness import *
H='<xs:schema xmlns:xs="http://www.w3.org/2001/XMLSchema" xmlns:t="urn:t" targetNamespace="urn:t" elementFormDefault="qualified">'
xsd=H+'''
<xs:complexType name="C"><xs:sequence><xs:element name="x" type="xs:string"/></xs:sequence></xs:complexType>
<xs:element name="root"><xs:complexType><xs:sequence>
  <xs:element name="c" type="t:C" nillable="true" minOccurs="0"/>
  <xs:element name="d" type="xs:date" nillable="true" minOccurs="0"/>
  <xs:element name="s" type="xs:string" nillable="true" minOccurs="0" default="abc"/>
  <xs:element name="b" type="xs:hexBinary" nillable="true" minOccurs="0"/>
</xs:sequence></xs:complexType></xs:element></xs:schema>'''
mod,tmp,pkg=generate(xsd)
X='xmlns:xsi="http://www.w3.org/2001/XMLSchema-instance"'
for doc in ['<root xmlns="urn:t" %s><c xsi:nil="1"/></root>'%X,
'<root xmlns="urn:t" %s><d xsi:nil="1"/></root>'%X,
'<root xmlns="urn:t" %s><s xsi:nil="1"/></root>'%X,
'<root xmlns="urn:t" %s><b xsi:nil="1"/></root>'%X,
'<root xmlns="urn:t" %s><b xsi:nil=" true "/></root>'%X,
            ]:
    print(validate_xsd(xsd,doc,base_dir=tmp))
    try:
        obj,out=roundtrip(mod,doc)
        print(obj);print(out)
        print(validate_xsd(xsd,out,base_dir=tmp))
    except Exception as e: print("ERR",repr(e))
