"""C02: two schema files whose types reference each other (default structure style filenames).

schema.xsd (urn:t) imports o.xsd (urn:o) and o.xsd imports schema.xsd; t:Node has a child of
type o:Other and o:Other has a child of type t:Node.  With the default structure style
`filenames` (and with `namespaces`) generation reports success, but module o.py references
`Node` without importing it (circular types are left out of the import list): parsing the
valid document raises NameError("name 'Node' is not defined").  If urn:o happens to define its
own type called Node the field is silently bound to that wrong class instead and the document
is rejected with 'Unknown property'.  With structure style clusters / single-package the same
schema and document round-trip fine, so acceptance depends on an output-only option.
"""
import sys
from harness import generate, roundtrip, validate_xsd, canon
from xsdata.models.config import StructureStyle

MAIN = """<xs:schema xmlns:xs="http://www.w3.org/2001/XMLSchema" xmlns:t="urn:t" xmlns:o="urn:o" targetNamespace="urn:t" elementFormDefault="qualified">
<xs:import namespace="urn:o" schemaLocation="o.xsd"/>
<xs:complexType name="Node"><xs:sequence>
  <xs:element name="p" type="xs:int" minOccurs="0"/>
  <xs:element name="other" type="o:Other" minOccurs="0"/>
</xs:sequence></xs:complexType>
<xs:element name="root" type="t:Node"/>
</xs:schema>"""
OTHER = """<xs:schema xmlns:xs="http://www.w3.org/2001/XMLSchema" xmlns:o="urn:o" xmlns:t="urn:t" targetNamespace="urn:o" elementFormDefault="qualified">
<xs:import namespace="urn:t" schemaLocation="schema.xsd"/>
<xs:complexType name="Other"><xs:sequence><xs:element name="back" type="t:Node" minOccurs="0"/></xs:sequence></xs:complexType>
</xs:schema>"""
DOC = '<root xmlns="urn:t" xmlns:o="urn:o"><p>1</p><other><o:back><p>2</p></o:back></other></root>'

results = {}
for style in (StructureStyle.FILENAMES, StructureStyle.NAMESPACES, StructureStyle.CLUSTERS, StructureStyle.SINGLE_PACKAGE):
    def conf(c, style=style):
        c.output.structure_style = style
    try:
        mod, tmp, pkg = generate(MAIN, configure=conf, extra_files={"o.xsd": OTHER})
        assert validate_xsd(MAIN, DOC, base_dir=tmp)[0]
        obj, out = roundtrip(mod, DOC, clazz=mod.Root)
        results[style.value] = "ok" if canon(out) == canon(DOC) else "differs"
    except AssertionError:
        raise
    except Exception as e:
        results[style.value] = "FAIL " + repr(e)[:120]
    print(style.value, "->", results[style.value])

if any(v != "ok" for v in results.values()):
    print("VIOLATION: valid document not parseable with some structure styles (and result depends on the style)")
    sys.exit(1)
sys.exit(0)
