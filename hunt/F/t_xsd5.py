from harness import *
import sys
H='<xs:schema xmlns:xs="http://www.w3.org/2001/XMLSchema" xmlns:t="urn:t" targetNamespace="urn:t" elementFormDefault="qualified">'
cases = {
 "defaults": (H+'''
<xs:element name="root"><xs:complexType><xs:sequence>
  <xs:element name="a" type="xs:string" minOccurs="0" default="x"/>
  <xs:element name="b" type="xs:int" minOccurs="0" fixed="5"/>
  <xs:element name="c" type="xs:string" default="d"/>
  <xs:element name="d" type="xs:QName" minOccurs="0" default="t:q"/>
  <xs:element name="e" type="xs:float" default="INF"/>
  <xs:element name="f" type="xs:string" minOccurs="0" maxOccurs="unbounded" default="ff"/>
</xs:sequence>
<xs:attribute name="fa" type="xs:float" default="NaN"/>
<xs:attribute name="da" type="xs:decimal" fixed="1.0"/>
<xs:attribute name="ba" type="xs:boolean" fixed="true"/>
<xs:attribute name="qa" type="xs:QName" default="t:z"/>
<xs:attribute name="ha" type="xs:hexBinary" default="0a"/>
<xs:attribute name="dt" type="xs:dateTime" default="2001-01-01T00:00:00Z"/>
<xs:attribute name="du" type="xs:duration" default="P1D"/>
<xs:attribute name="li" type="xs:NMTOKENS" default="a b"/>
<xs:attribute name="s" type="xs:string" default="a&quot;b'c\\n{x}"/>
</xs:complexType></xs:element></xs:schema>''',
  ['<root xmlns="urn:t"><c/><e/></root>', '<root xmlns="urn:t" da="1.00" ba="1"><a/><b/><c>q</c><e>1</e><f/><f>g</f></root>',
  ]),
 "mixedws": (H+'''
<xs:element name="root"><xs:complexType mixed="true"><xs:choice minOccurs="0" maxOccurs="unbounded">
  <xs:element name="b" type="xs:string"/>
  <xs:element name="i" type="xs:string"/>
</xs:choice></xs:complexType></xs:element></xs:schema>''',
  ['<root xmlns="urn:t">a <b>x</b> <i>y</i> c</root>', '<root xmlns="urn:t"> <b>x</b></root>', '<root xmlns="urn:t"><b> </b> </root>',
  ]),
 "docs": (H+'''
<xs:element name="root"><xs:annotation><xs:documentation>Ends with backslash \\</xs:documentation></xs:annotation><xs:complexType><xs:sequence>
  <xs:element name="a" type="xs:string"><xs:annotation><xs:documentation>triple """ quotes and \\N{foo} and \\x and trailing quote"</xs:documentation></xs:annotation></xs:element>
  <xs:element name="b"><xs:simpleType><xs:restriction base="xs:string"><xs:pattern value='[^"]*\\\\'/><xs:pattern value="a'b"/></xs:restriction></xs:simpleType></xs:element>
  <xs:element name="c"><xs:simpleType><xs:restriction base="xs:string"><xs:enumeration value='"'/><xs:enumeration value="\\"/><xs:enumeration value="'"/><xs:enumeration value=""/><xs:enumeration value=" "/></xs:restriction></xs:simpleType></xs:element>
</xs:sequence></xs:complexType></xs:element></xs:schema>''',
  ['<root xmlns="urn:t"><a>1</a><b>x\\</b><c>\\</c></root>', '<root xmlns="urn:t"><a>1</a><b>a\'b</b><c>"</c></root>','<root xmlns="urn:t"><a>1</a><b>a\'b</b><c></c></root>','<root xmlns="urn:t"><a>1</a><b>a\'b</b><c> </c></root>'
  ]),
}
sel = sys.argv[1:] or list(cases)
for name in sel:
    xsd, docs = cases[name]
    for compound in (False,True):
        print("=====", name, compound)
        for p in check_xsd(xsd, docs, compound=compound, verbose=True):
            print("PROBLEM", p)
