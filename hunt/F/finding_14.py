"""C02: xsi:nil="false" on a nillable element of complex type makes the document unparseable.

xsi:nil="false" is legal on any nillable element and means "not nil"; xsi:nil="1" is the same
as "true" (ParserUtils.xsi_nil only recognises the literal "true", so "1" counts as False).  For a child whose type is
a generated class, ElementNode.build_element_node rejects the class when
`nillable != xsi_nil` (True != False), no node is built and strict parsing fails with
'Unknown property {urn:t}root:{urn:t}c'.
"""
import sys
from harness import generate, roundtrip, validate_xsd, canon

XSD = """<xs:schema xmlns:xs="http://www.w3.org/2001/XMLSchema" xmlns:t="urn:t" targetNamespace="urn:t" elementFormDefault="qualified">
<xs:complexType name="C"><xs:sequence><xs:element name="x" type="xs:string"/></xs:sequence></xs:complexType>
<xs:element name="root"><xs:complexType><xs:sequence>
  <xs:element name="c" type="t:C" nillable="true"/>
</xs:sequence></xs:complexType></xs:element></xs:schema>"""
X = 'xmlns="urn:t" xmlns:xsi="http://www.w3.org/2001/XMLSchema-instance"'
DOCS = [
    '<root %s><c xsi:nil="false"><x>1</x></c></root>' % X,   # explicit "not nil"
    '<root %s><c xsi:nil="1"/></root>' % X,                  # "1" is the other lexical form of true
]
mod, tmp, pkg = generate(XSD)
bad = 0
for DOC in DOCS:
    assert validate_xsd(XSD, DOC, base_dir=tmp)[0]
    try:
        obj, out = roundtrip(mod, DOC)
        print(obj)
        print(out)
    except Exception as e:
        print("VIOLATION: schema-valid document rejected:", DOC, repr(e))
        bad = 1
sys.exit(bad)
