from harness import *
import sys
H='<xs:schema xmlns:xs="http://www.w3.org/2001/XMLSchema" xmlns:t="urn:t" targetNamespace="urn:t" elementFormDefault="qualified">'
def en(base, vals): return '<xs:simpleType><xs:restriction base="%s">%s</xs:restriction></xs:simpleType>' % (base, "".join('<xs:enumeration value="%s"/>'%v for v in vals))
cases = {
 "enums": (H+'''
<xs:simpleType name="IntList"><xs:list itemType="xs:int"/></xs:simpleType>
<xs:simpleType name="U"><xs:union memberTypes="xs:int xs:boolean"/></xs:simpleType>
<xs:element name="root"><xs:complexType><xs:sequence>
  <xs:element name="q" minOccurs="0" maxOccurs="unbounded">'''+en("xs:QName",["t:a","xs:b"])+'''</xs:element>
  <xs:element name="f" minOccurs="0" maxOccurs="unbounded">'''+en("xs:float",["NaN","INF","-INF","1.0"])+'''</xs:element>
  <xs:element name="d" minOccurs="0" maxOccurs="unbounded">'''+en("xs:decimal",["1.0","1.00", "2"])+'''</xs:element>
  <xs:element name="h" minOccurs="0" maxOccurs="unbounded">'''+en("xs:hexBinary",["0a","FF"])+'''</xs:element>
  <xs:element name="b" minOccurs="0" maxOccurs="unbounded">'''+en("xs:base64Binary",["AQID","YQ=="])+'''</xs:element>
  <xs:element name="dt" minOccurs="0" maxOccurs="unbounded">'''+en("xs:dateTime",["2001-01-01T00:00:00Z","2001-01-01T01:00:00+01:00"])+'''</xs:element>
  <xs:element name="du" minOccurs="0" maxOccurs="unbounded">'''+en("xs:duration",["P1D","PT24H"])+'''</xs:element>
  <xs:element name="l" minOccurs="0" maxOccurs="unbounded">'''+en("t:IntList",["1 2","3"])+'''</xs:element>
  <xs:element name="s" minOccurs="0" maxOccurs="unbounded">'''+en("xs:string",["a","A","a ","_a","-a", "1", "name", "value","None"])+'''</xs:element>
</xs:sequence>
<xs:attribute name="qa">'''+en("xs:QName",["t:a","xs:b"])+'''</xs:attribute>
<xs:attribute name="la" default="3">'''+en("t:IntList",["1 2","3"])+'''</xs:attribute>
</xs:complexType></xs:element></xs:schema>''',
  ['<root xmlns="urn:t" xmlns:p="urn:t" xmlns:x="http://www.w3.org/2001/XMLSchema" qa="x:b" la="1  2"><q>p:a</q><q>x:b</q><f>NaN</f><f>INF</f><f>-INF</f><f>1</f><d>1.0</d><d>1.00</d><d>1</d><d>2.0</d><h>0A</h><h>ff</h><b>AQID</b><b>YQ==</b><dt>2001-01-01T00:00:00Z</dt><dt>2001-01-01T01:00:00+01:00</dt><du>P1D</du><du>PT24H</du><l>1 2</l><l> 3 </l><s>a</s><s>A</s><s>a </s><s>_a</s><s>-a</s><s>1</s><s>name</s><s>value</s><s>None</s></root>',
  ]),
}
sel = sys.argv[1:] or list(cases)
for name in sel:
    xsd, docs, *extra = cases[name]
    for compound in (False,):
        print("=====", name, compound)
        for p in check_xsd(xsd, docs, compound=compound, verbose=True, extra_files=extra[0] if extra else None):
            print("PROBLEM", p)
