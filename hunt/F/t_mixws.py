from harness import *
H='<xs:schema xmlns:xs="http://www.w3.org/2001/XMLSchema" xmlns:t="urn:t" targetNamespace="urn:t" elementFormDefault="qualified">'
xsd=H+'''
<xs:element name="root"><xs:complexType mixed="true"><xs:choice minOccurs="0" maxOccurs="unbounded">
  <xs:element name="b" type="xs:string"/>
  <xs:element name="i" type="xs:string"/>
</xs:choice></xs:complexType></xs:element></xs:schema>'''
mod,tmp,pkg=generate(xsd)
ctx=XmlContext()
p=XmlParser(context=ctx,config=ParserConfig(fail_on_unknown_properties=True, fail_on_unknown_attributes=True, fail_on_converter_warnings=True))
doc='<root xmlns="urn:t">a <b>x</b> <i>y</i> c</root>'
o=p.from_string(doc, mod.Root)
print(o)
print(XmlSerializer(context=ctx).render(o))
