from harness import *
import sys
xsd='''<xs:schema xmlns:xs="http://www.w3.org/2001/XMLSchema" xmlns:t="urn:t" targetNamespace="urn:t" elementFormDefault="qualified">
<xs:import schemaLocation="n.xsd"/>
<xs:element name="root"><xs:complexType><xs:sequence>
  <xs:element name="a" type="xs:string"/>
  <xs:element ref="g"/>
  <xs:element name="b" type="T"/>
</xs:sequence><xs:attribute ref="at"/></xs:complexType></xs:element></xs:schema>'''
extra={"n.xsd": '''<xs:schema xmlns:xs="http://www.w3.org/2001/XMLSchema">
<xs:attribute name="at" type="xs:int"/>
<xs:element name="g" type="T"/>
<xs:complexType name="T"><xs:sequence><xs:element name="x" type="xs:int"/></xs:sequence></xs:complexType></xs:schema>'''}
doc='<t:root xmlns:t="urn:t" at="5"><t:a>1</t:a><g><x>2</x></g><t:b><x>3</x></t:b></t:root>'
for compound in (False,True):
    for p in check_xsd(xsd,[doc],compound=compound,extra_files=extra): print("PROBLEM",p)
