from harness import *
dtd='''<!ELEMENT root ANY>
<!ATTLIST root k CDATA #IMPLIED>
<!ELEMENT a (#PCDATA)>
<!ELEMENT b EMPTY>
<!ATTLIST b k CDATA "d">
'''
mod,tmp,pkg=generate(dtd,suffix=".dtd")
show_source(tmp,pkg)
obj,out=roundtrip(mod,'<root k="1">x<a>1</a>y<b k="1"/>z<a/></root>')
print(obj);print(out)
