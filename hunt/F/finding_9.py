"""C02: xs:float / xs:double enumeration whose literals are not in Python's repr form.

<xs:restriction base="xs:double"><xs:enumeration value="1"/><xs:enumeration value="2.50"/>...
The generator checks enumeration literals "strictly" (text must survive a round trip); "1"
-> 1.0 -> "1.0" does not, so the member type silently falls back to str and the enum is
generated as VALUE_1 = '1'.  Enumerations restrict the *value* space, so <v>1.0</v>,
<v>1</v> and <v>2.5</v> are all schema-valid, but the parser rejects them
("`1.0` is not a valid RootV").
"""
import sys, traceback
from harness import generate, roundtrip, validate_xsd, canon

XSD = """<xs:schema xmlns:xs="http://www.w3.org/2001/XMLSchema" targetNamespace="urn:t" elementFormDefault="qualified">
<xs:element name="root"><xs:complexType><xs:sequence>
  <xs:element name="v" maxOccurs="unbounded"><xs:simpleType><xs:restriction base="xs:double">
     <xs:enumeration value="1"/><xs:enumeration value="2.50"/>
  </xs:restriction></xs:simpleType></xs:element>
</xs:sequence></xs:complexType></xs:element></xs:schema>"""
bad = 0
mod, tmp, pkg = generate(XSD)
for DOC in ('<root xmlns="urn:t"><v>1</v><v>2.50</v></root>', '<root xmlns="urn:t"><v>1.0</v></root>', '<root xmlns="urn:t"><v>2.5</v></root>'):
    assert validate_xsd(XSD, DOC, base_dir=tmp)[0]
    try:
        obj, out = roundtrip(mod, DOC)
        print(obj)
        print(out)
    except Exception as e:
        print("VIOLATION: schema-valid document rejected:", DOC, "->", repr(e))
        bad = 1
sys.exit(bad)
