from harness import *
import sys
H='<xs:schema xmlns:xs="http://www.w3.org/2001/XMLSchema" xmlns:t="urn:t" targetNamespace="urn:t" elementFormDefault="qualified">'
xsd=H+'''
<xs:complexType name="S1"><xs:simpleContent><xs:extension base="xs:decimal"><xs:attribute name="u" type="xs:string"/></xs:extension></xs:simpleContent></xs:complexType>
<xs:complexType name="C1"><xs:sequence><xs:element name="x" type="xs:string"/></xs:sequence><xs:attribute name="u" type="xs:string"/></xs:complexType>
<xs:element name="root"><xs:complexType><xs:sequence>
  <xs:element name="s1" type="t:S1" nillable="true"/>
  <xs:element name="c1" type="t:C1" nillable="true"/>
  <xs:element name="c2" type="t:C1" nillable="true" maxOccurs="unbounded"/>
</xs:sequence></xs:complexType></xs:element></xs:schema>'''
mod,tmp,pkg=generate(xsd, compound=len(sys.argv)>1)
import inspect
print(inspect.getsource(mod.Root))
print(inspect.getsource(mod.S1))
doc='<root xmlns="urn:t" xmlns:xsi="http://www.w3.org/2001/XMLSchema-instance"><s1 xsi:nil="true" u="x"/><c1 xsi:nil="true" u="y"/><c2 xsi:nil="true" u="z"/><c2 xsi:nil="true"/></root>'
print(validate_xsd(xsd,doc,base_dir=tmp))
obj,out=roundtrip(mod,doc)
print(obj);print(out)
print(validate_xsd(xsd,out,base_dir=tmp))
