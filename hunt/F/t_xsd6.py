from harness import *
import sys
H='<xs:schema xmlns:xs="http://www.w3.org/2001/XMLSchema" xmlns:t="urn:t" targetNamespace="urn:t" elementFormDefault="qualified">'
cases = {
 "subst": (H+'''
<xs:element name="head" type="t:Base" abstract="true"/>
<xs:element name="m1" type="t:D1" substitutionGroup="t:head"/>
<xs:element name="m2" type="t:Base" substitutionGroup="t:head"/>
<xs:element name="m3" type="t:D1" substitutionGroup="t:m1"/>
<xs:complexType name="Base"><xs:sequence><xs:element name="x" type="xs:string" minOccurs="0"/></xs:sequence></xs:complexType>
<xs:complexType name="D1"><xs:complexContent><xs:extension base="t:Base"><xs:attribute name="k" type="xs:int"/></xs:extension></xs:complexContent></xs:complexType>
<xs:element name="root"><xs:complexType><xs:sequence>
  <xs:element ref="t:head" maxOccurs="unbounded"/>
  <xs:element name="sep" type="xs:string"/>
  <xs:element ref="t:m1" minOccurs="0"/>
</xs:sequence></xs:complexType></xs:element></xs:schema>''',
  ['<root xmlns="urn:t"><m1 k="1"/><m2><x>a</x></m2><m3/><sep/></root>','<root xmlns="urn:t"><m2/><sep/><m3 k="2"/></root>', '<root xmlns="urn:t"><m2/><sep/><m1 k="2"/></root>',
  ]),
 "substsimple": (H+'''
<xs:element name="head" type="xs:decimal"/>
<xs:element name="m1" type="xs:integer" substitutionGroup="t:head"/>
<xs:element name="m2" substitutionGroup="t:head"><xs:simpleType><xs:restriction base="xs:int"><xs:enumeration value="1"/><xs:enumeration value="2"/></xs:restriction></xs:simpleType></xs:element>
<xs:element name="root"><xs:complexType><xs:sequence>
  <xs:element ref="t:head" maxOccurs="unbounded"/>
</xs:sequence></xs:complexType></xs:element></xs:schema>''',
  ['<root xmlns="urn:t"><head>1.50</head><m1>3</m1><m2>2</m2><head>1</head></root>',
  ]),
 "all": (H+'''
<xs:element name="root"><xs:complexType><xs:all>
  <xs:element name="a" type="xs:string" minOccurs="0"/>
  <xs:element name="b" type="xs:int"/>
  <xs:element name="c" minOccurs="0"><xs:complexType><xs:all minOccurs="0"><xs:element name="d" type="xs:string"/><xs:element name="e" type="xs:string"/></xs:all></xs:complexType></xs:element>
</xs:all></xs:complexType></xs:element></xs:schema>''',
  ['<root xmlns="urn:t"><b>1</b><a>x</a></root>','<root xmlns="urn:t"><c><e>1</e><d>2</d></c><b>1</b></root>','<root xmlns="urn:t"><c/><b>1</b></root>'
  ]),
 "restrict": (H+'''
<xs:complexType name="Base"><xs:sequence><xs:element name="x" type="xs:string" minOccurs="0"/><xs:element name="y" type="xs:string" minOccurs="0" maxOccurs="unbounded"/><xs:element name="z" type="xs:anySimpleType" minOccurs="0"/></xs:sequence><xs:attribute name="k" type="xs:string"/><xs:attribute name="j" type="xs:string"/></xs:complexType>
<xs:complexType name="R"><xs:complexContent><xs:restriction base="t:Base"><xs:sequence><xs:element name="y" type="xs:string" minOccurs="1" maxOccurs="1"/><xs:element name="z" type="xs:int" minOccurs="0"/></xs:sequence><xs:attribute name="k" use="prohibited"/><xs:attribute name="j" type="xs:string" use="required" fixed="J"/></xs:restriction></xs:complexContent></xs:complexType>
<xs:element name="root"><xs:complexType><xs:sequence>
  <xs:element name="r" type="t:R" maxOccurs="unbounded"/>
  <xs:element name="b" type="t:Base" maxOccurs="unbounded"/>
</xs:sequence></xs:complexType></xs:element></xs:schema>''',
  ['<root xmlns="urn:t" xmlns:t="urn:t" xmlns:xsi="http://www.w3.org/2001/XMLSchema-instance"><r j="J"><y>1</y><z>05</z></r><b k="1"><x>x</x><y>1</y><y>2</y><z>05</z></b><b xsi:type="t:R" j="J"><y>q</y></b></root>',
  ]),
 "attrns": ('''<xs:schema xmlns:xs="http://www.w3.org/2001/XMLSchema" xmlns:t="urn:t" xmlns:o="urn:o" targetNamespace="urn:t" elementFormDefault="qualified">
<xs:import namespace="urn:o" schemaLocation="o.xsd"/>
<xs:attribute name="id" type="xs:string"/>
<xs:element name="root"><xs:complexType><xs:sequence>
  <xs:element name="name" type="xs:string"/>
  <xs:element ref="o:name"/>
  <xs:element name="Name" type="xs:string"/>
</xs:sequence>
<xs:attribute name="id" type="xs:int"/>
<xs:attribute ref="t:id"/>
<xs:attribute ref="o:id"/>
<xs:attribute name="name" type="xs:string"/>
</xs:complexType></xs:element></xs:schema>''',
  ['<root xmlns="urn:t" xmlns:o="urn:o" id="1" t:id="a" o:id="b" name="n" xmlns:t="urn:t"><name>1</name><o:name>2</o:name><Name>3</Name></root>',
  ], {"o.xsd": '''<xs:schema xmlns:xs="http://www.w3.org/2001/XMLSchema" targetNamespace="urn:o"><xs:attribute name="id" type="xs:string"/><xs:element name="name" type="xs:string"/></xs:schema>'''}),
 "chameleon": ('''<xs:schema xmlns:xs="http://www.w3.org/2001/XMLSchema" xmlns:t="urn:t" targetNamespace="urn:t" elementFormDefault="qualified">
<xs:include schemaLocation="c.xsd"/>
<xs:element name="root"><xs:complexType><xs:sequence>
  <xs:element name="a" type="t:CT"/>
  <xs:element ref="t:ce"/>
</xs:sequence>
</xs:complexType></xs:element></xs:schema>''',
  ['<root xmlns="urn:t"><a k="x"><i>1</i><s>A</s></a><ce><i>2</i><s>B</s></ce></root>',
  ], {"c.xsd": '''<xs:schema xmlns:xs="http://www.w3.org/2001/XMLSchema" elementFormDefault="qualified">
  <xs:simpleType name="ST"><xs:restriction base="xs:string"><xs:enumeration value="A"/><xs:enumeration value="B"/></xs:restriction></xs:simpleType>
  <xs:complexType name="CT"><xs:sequence><xs:element name="i" type="xs:int"/><xs:element name="s" type="ST"/></xs:sequence><xs:attribute name="k" type="xs:string"/></xs:complexType>
  <xs:element name="ce" type="CT"/></xs:schema>'''}),
}
sel = sys.argv[1:] or list(cases)
for name in sel:
    xsd, docs, *extra = cases[name]
    for compound in (False,True):
        print("=====", name, compound)
        for p in check_xsd(xsd, docs, compound=compound, verbose=False, extra_files=extra[0] if extra else None):
            print("PROBLEM", p)
