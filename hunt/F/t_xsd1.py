from harness import *
import sys
H='<xs:schema xmlns:xs="http://www.w3.org/2001/XMLSchema" xmlns:t="urn:t" targetNamespace="urn:t" elementFormDefault="qualified">'
cases = {
 "seqchoice": (H+'''
<xs:element name="root"><xs:complexType><xs:sequence>
  <xs:element name="a" type="xs:string"/>
  <xs:choice minOccurs="0" maxOccurs="unbounded"><xs:element name="a" type="xs:string"/><xs:element name="b" type="xs:int"/></xs:choice>
</xs:sequence></xs:complexType></xs:element></xs:schema>''',
  ['<root xmlns="urn:t"><a>1</a><b>1</b><a>2</a><b>2</b></root>']),
 "types": (H+'''
<xs:element name="root"><xs:complexType><xs:sequence>
  <xs:element name="dur" type="xs:duration" minOccurs="0"/>
  <xs:element name="dt" type="xs:dateTime" minOccurs="0" maxOccurs="unbounded"/>
  <xs:element name="d" type="xs:date" minOccurs="0" maxOccurs="unbounded"/>
  <xs:element name="ti" type="xs:time" minOccurs="0" maxOccurs="unbounded"/>
  <xs:element name="gy" type="xs:gYear" minOccurs="0" maxOccurs="unbounded"/>
  <xs:element name="gym" type="xs:gYearMonth" minOccurs="0" maxOccurs="unbounded"/>
  <xs:element name="gmd" type="xs:gMonthDay" minOccurs="0" maxOccurs="unbounded"/>
  <xs:element name="gd" type="xs:gDay" minOccurs="0" maxOccurs="unbounded"/>
  <xs:element name="gm" type="xs:gMonth" minOccurs="0" maxOccurs="unbounded"/>
  <xs:element name="dec" type="xs:decimal" minOccurs="0" maxOccurs="unbounded"/>
  <xs:element name="fl" type="xs:float" minOccurs="0" maxOccurs="unbounded"/>
  <xs:element name="db" type="xs:double" minOccurs="0" maxOccurs="unbounded"/>
  <xs:element name="bo" type="xs:boolean" minOccurs="0" maxOccurs="unbounded"/>
  <xs:element name="hex" type="xs:hexBinary" minOccurs="0" maxOccurs="unbounded"/>
  <xs:element name="b64" type="xs:base64Binary" minOccurs="0" maxOccurs="unbounded"/>
  <xs:element name="qn" type="xs:QName" minOccurs="0" maxOccurs="unbounded"/>
  <xs:element name="uri" type="xs:anyURI" minOccurs="0" maxOccurs="unbounded"/>
  <xs:element name="int" type="xs:integer" minOccurs="0" maxOccurs="unbounded"/>
  <xs:element name="ul" type="xs:unsignedLong" minOccurs="0" maxOccurs="unbounded"/>
  <xs:element name="ns" type="xs:normalizedString" minOccurs="0" maxOccurs="unbounded"/>
  <xs:element name="tok" type="xs:token" minOccurs="0" maxOccurs="unbounded"/>
  <xs:element name="toks" type="xs:NMTOKENS" minOccurs="0" maxOccurs="unbounded"/>
</xs:sequence></xs:complexType></xs:element></xs:schema>''',
  ['''<root xmlns="urn:t" xmlns:q="urn:q"><dur>-P1Y2M3DT4H5M6.789S</dur><dt>2001-10-26T21:32:52.12679+02:00</dt><dt>-0044-03-15T24:00:00Z</dt><dt>12345-01-01T00:00:00</dt>
  <d>2001-10-26-14:00</d><d>-0001-01-01</d><ti>24:00:00</ti><ti>13:20:00.5Z</ti><gy>-0500</gy><gy>12345Z</gy><gym>2001-10+14:00</gym><gmd>--02-29</gmd><gd>---31Z</gd><gm>--12</gm>
  <dec>+1.50</dec><dec>.5</dec><dec>-0</dec><dec>123456789012345678901234567890.123456789</dec><fl>INF</fl><fl>-INF</fl><fl>NaN</fl><fl>1e5</fl><fl>-0</fl><db>1.7976931348623157E308</db><db>4.9E-324</db><db>-0.0</db>
  <bo>1</bo><bo>0</bo><bo> true </bo><hex>0aFf</hex><hex></hex><b64>AQID</b64><b64>AQ ID</b64><b64></b64><qn>q:x</qn><qn>y</qn><uri>http://a b/</uri><uri></uri><int>+007</int><int>-0</int><ul>18446744073709551615</ul><ns> a  b </ns><tok> a  b </tok><toks>a b  c</toks></root>''']),
}
sel = sys.argv[1:] or list(cases)
for name in sel:
    xsd, docs = cases[name]
    for compound in (False, True):
        print("=====", name, compound)
        for p in check_xsd(xsd, docs, compound=compound, verbose=False):
            print("PROBLEM", p)
