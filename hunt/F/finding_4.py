"""C02: local element names that shadow names the generated class body relies on.

The reserved-word list covers field/str/int/list/..., but not `bytes` or `dataclass`.

(a) element `bytes` next to a binary element: the generated class has
    `bytes: None | str = field(default=None)` and `data: None | bytes = ...`.  The class attribute
    `bytes = None` shadows the builtin when the binding context resolves the string annotations
    (get_type_hints evaluates them in the class namespace), "None | bytes" becomes None | None ->
    TypeError for every document.
(b) element `dataclass` in a type that also has an anonymous (inner) complex type: the field
    `dataclass = field(...)` shadows the decorator used for the inner class, the generated
    package does not import ('Field' object is not callable) and generation ends with an error.
"""
import sys, traceback
from harness import generate, roundtrip, validate_xsd, canon

bad = 0
XSD = """<xs:schema xmlns:xs="http://www.w3.org/2001/XMLSchema" targetNamespace="urn:t" elementFormDefault="qualified">
<xs:element name="root"><xs:complexType><xs:sequence>
  <xs:element name="bytes" type="xs:string" minOccurs="0"/>
  <xs:element name="data" type="xs:hexBinary" minOccurs="0"/>
</xs:sequence></xs:complexType></xs:element></xs:schema>"""
DOC = '<root xmlns="urn:t"><bytes>x</bytes><data>0A</data></root>'
try:
    mod, tmp, pkg = generate(XSD)
    assert validate_xsd(XSD, DOC, base_dir=tmp)[0]
    obj, out = roundtrip(mod, DOC)
    print(obj)
    print(out)
    if canon(DOC) != canon(out):
        bad = 1
except AssertionError:
    raise
except Exception:
    traceback.print_exc()
    print("VIOLATION (a): schema-valid document can not be parsed")
    bad = 1

XSD = """<xs:schema xmlns:xs="http://www.w3.org/2001/XMLSchema" targetNamespace="urn:t" elementFormDefault="qualified">
<xs:element name="root"><xs:complexType><xs:sequence>
  <xs:element name="dataclass" type="xs:string"/>
  <xs:element name="inner"><xs:complexType><xs:sequence><xs:element name="x" type="xs:string"/></xs:sequence></xs:complexType></xs:element>
</xs:sequence></xs:complexType></xs:element></xs:schema>"""
DOC = '<root xmlns="urn:t"><dataclass>d</dataclass><inner><x>1</x></inner></root>'
try:
    mod, tmp, pkg = generate(XSD)
    assert validate_xsd(XSD, DOC, base_dir=tmp)[0]
    obj, out = roundtrip(mod, DOC)
    print(obj)
    print(out)
    if canon(DOC) != canon(out):
        bad = 1
except AssertionError:
    raise
except Exception:
    traceback.print_exc()
    print("VIOLATION (b): generation / import of the generated package failed")
    bad = 1
sys.exit(bad)
