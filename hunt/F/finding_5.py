"""C02: union(xs:string, xs:int): the value "01" is retyped to int and written back as "1".

In XSD the member types of a union are tried in order, so "01" is the *string* "01".
The generated field is `int | str` and the converter tries int first: the object holds 1
and the output document says <u>1</u> - a different string value.
"""
import sys
from harness import generate, roundtrip, validate_xsd, canon

XSD = """<xs:schema xmlns:xs="http://www.w3.org/2001/XMLSchema" targetNamespace="urn:t" elementFormDefault="qualified">
<xs:element name="root"><xs:complexType><xs:sequence>
  <xs:element name="u"><xs:simpleType><xs:union memberTypes="xs:string xs:int"/></xs:simpleType></xs:element>
</xs:sequence>
<xs:attribute name="v"><xs:simpleType><xs:union memberTypes="xs:string xs:boolean"/></xs:simpleType></xs:attribute>
</xs:complexType></xs:element></xs:schema>"""
DOC = '<root xmlns="urn:t" v="1"><u>01</u></root>'
mod, tmp, pkg = generate(XSD)
assert validate_xsd(XSD, DOC, base_dir=tmp)[0]
obj, out = roundtrip(mod, DOC)
print(obj)
print(out)
if canon(DOC) != canon(out):
    print("VIOLATION: string value of the union changed")
    sys.exit(1)
sys.exit(0)
