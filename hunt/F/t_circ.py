from harness import *
import sys, inspect
from xsdata.models.config import StructureStyle
main='''<xs:schema xmlns:xs="http://www.w3.org/2001/XMLSchema" xmlns:t="urn:t" xmlns:o="urn:o" targetNamespace="urn:t" elementFormDefault="qualified">
<xs:import namespace="urn:o" schemaLocation="o.xsd"/>
<xs:complexType name="Node"><xs:sequence>
  <xs:element name="p" type="xs:int" minOccurs="0"/>
  <xs:element name="other" type="o:Other" minOccurs="0"/>
</xs:sequence></xs:complexType>
<xs:element name="root" type="t:Node"/>
</xs:schema>'''
NAME = sys.argv[1] if len(sys.argv)>1 else "Thing"
extra={"o.xsd":'''<xs:schema xmlns:xs="http://www.w3.org/2001/XMLSchema" xmlns:o="urn:o" xmlns:t="urn:t" targetNamespace="urn:o" elementFormDefault="qualified">
<xs:import namespace="urn:t" schemaLocation="schema.xsd"/>
<xs:complexType name="Other"><xs:sequence><xs:element name="back" type="t:Node" minOccurs="0"/><xs:element name="th" type="o:%s" minOccurs="0"/></xs:sequence></xs:complexType>
<xs:complexType name="%s"><xs:sequence><xs:element name="n" type="xs:string"/></xs:sequence></xs:complexType>
</xs:schema>''' % (NAME, NAME)}
doc='<root xmlns="urn:t" xmlns:o="urn:o"><p>1</p><other><o:back><p>2</p></o:back><o:th><o:n>x</o:n></o:th></other></root>'
for style in StructureStyle:
    def conf(c): c.output.structure_style=style
    try:
        mod,tmp,pkg=generate(main,configure=conf,extra_files=extra)
        if style.value in sys.argv: show_source(tmp,pkg)
        import importlib,pkgutil
        root=getattr(mod,'Root',None)
        obj,out=roundtrip(mod,doc,clazz=root)
        print(style.value, "OK", canon(out)==canon(doc))
    except Exception as e:
        print(style.value,"FAIL",repr(e)[:200])
