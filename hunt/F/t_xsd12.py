from harness import *
import sys
cases = {
 "forms": ('''<xs:schema xmlns:xs="http://www.w3.org/2001/XMLSchema" xmlns:t="urn:t" targetNamespace="urn:t" elementFormDefault="qualified" attributeFormDefault="qualified">
<xs:element name="g" type="xs:string"/>
<xs:attribute name="ga" type="xs:string"/>
<xs:complexType name="B"><xs:sequence><xs:element name="x" type="xs:string" form="unqualified"/><xs:element name="y" type="xs:string"/></xs:sequence><xs:attribute name="p" type="xs:string"/><xs:attribute name="q" type="xs:string" form="unqualified"/></xs:complexType>
<xs:element name="root"><xs:complexType><xs:complexContent><xs:extension base="t:B"><xs:sequence>
  <xs:element name="x" type="xs:int"/>
  <xs:element ref="t:g"/>
  <xs:element name="g" type="xs:int" form="unqualified"/>
  <xs:element name="in" form="unqualified"><xs:complexType><xs:sequence><xs:element name="deep" type="xs:string"/><xs:element name="deep" type="xs:string" form="unqualified"/></xs:sequence><xs:attribute name="p" type="xs:string"/><xs:attribute name="p" type="xs:int" form="unqualified"/></xs:complexType></xs:element>
</xs:sequence><xs:attribute ref="t:ga"/><xs:attribute name="ga" form="unqualified" type="xs:int"/></xs:extension></xs:complexContent></xs:complexType></xs:element></xs:schema>''',
  ['<t:root xmlns:t="urn:t" t:p="1" q="2" t:ga="s" ga="5"><x>ux</x><t:y>y</t:y><t:x>3</t:x><t:g>gg</t:g><g>4</g><in t:p="a" p="7"><t:deep>1</t:deep><deep>2</deep></in></t:root>',
  ]),
 "nons": ('''<xs:schema xmlns:xs="http://www.w3.org/2001/XMLSchema" elementFormDefault="qualified">
<xs:import namespace="urn:o" schemaLocation="o.xsd"/>
<xs:element name="root"><xs:complexType><xs:sequence xmlns:o="urn:o">
  <xs:element name="a" type="xs:string"/>
  <xs:element ref="o:a"/>
  <xs:element name="b" type="o:T"/>
</xs:sequence><xs:attribute ref="o:at" xmlns:o="urn:o"/><xs:attribute name="at" type="xs:string"/></xs:complexType></xs:element></xs:schema>''',
  ['<root xmlns:o="urn:o" o:at="1" at="2"><a>1</a><o:a>2</o:a><b><x>3</x><root xmlns=""><a>q</a><o:a>w</o:a><b><x>1</x></b></root></b></root>',
  ], {"o.xsd": '''<xs:schema xmlns:xs="http://www.w3.org/2001/XMLSchema" targetNamespace="urn:o" xmlns:o="urn:o"><xs:import schemaLocation="schema.xsd"/><xs:attribute name="at" type="xs:string"/><xs:element name="a" type="xs:string"/>
  <xs:complexType name="T"><xs:sequence><xs:element name="x" type="xs:string"/><xs:element ref="root" minOccurs="0"/></xs:sequence></xs:complexType></xs:schema>'''}),
}
sel = sys.argv[1:] or list(cases)
for name in sel:
    xsd, docs, *extra = cases[name]
    for compound in (False,True):
        print("=====", name, compound)
        for p in check_xsd(xsd, docs, compound=compound, verbose=False, extra_files=extra[0] if extra else None):
            print("PROBLEM", p)
