from harness import *
import sys
cases = {
 "xmlattrs": ('''<!ELEMENT root (p*)>
<!ELEMENT p (#PCDATA|p|i)*>
<!ATTLIST p xml:space (default|preserve) "preserve" xml:lang CDATA #IMPLIED lang CDATA #IMPLIED space CDATA "s" xml:id ID #IMPLIED>
<!ELEMENT i EMPTY>
<!ATTLIST i xml:lang NMTOKEN #FIXED "en" q CDATA "a&quot;b'c&#10;d&lt;">
''', ['<root><p xml:lang="de" lang="fr" xml:id="a1">t<p xml:space="default">u<i/></p>v<i q="z"/></p><p/></root>']),
 "enumtok": ('''<!ELEMENT root EMPTY>
<!ATTLIST root a (-1|.5|1|true|false|None|a:b|_) #REQUIRED b (x) "x" c (yes|no) #IMPLIED d NMTOKENS #REQUIRED e IDREFS #IMPLIED id ID #IMPLIED>
''', ['<root a="-1" d=" 1  2 "/>', '<root a=".5" d="-"/>','<root a="a:b" d="x" c="no" id="x" e="x x"/>','<root a="_" d="x"/>','<root a="None" d="x"/>','<root a="true" d="x"/>']),
 "nested": ('''<!ELEMENT root (((a|b)|(c|d))*, (e?)+, ((f)), (g+)?, (h*, i)? )>
<!ELEMENT a EMPTY><!ELEMENT b EMPTY><!ELEMENT c EMPTY><!ELEMENT d EMPTY><!ELEMENT e EMPTY><!ELEMENT f EMPTY><!ELEMENT g EMPTY><!ELEMENT h EMPTY><!ELEMENT i EMPTY>
''', ['<root><f/></root>', '<root><d/><a/><c/><b/><a/><e/><e/><f/><g/><g/><h/><h/><i/></root>','<root><f/><i/></root>']),
 "pcdata": ('''<!ELEMENT root (a,b,c,d)>
<!ELEMENT a (#PCDATA)>
<!ATTLIST a value CDATA #IMPLIED>
<!ELEMENT b (#PCDATA)>
<!ELEMENT c (#PCDATA|a)*>
<!ELEMENT d ANY>
''', ['<root><a value="v">t</a><b>x</b><c>1<a>2</a>3</c><d><a>x</a></d></root>', '<root><a/><b/><c/><d/></root>','<root><a> </a><b> </b><c> </c><d> </d></root>', '<root><a/><b/><c/><d>text only</d></root>','<root><a/><b/><c/><d><d><d/></d><root><a/><b/><c/><d/></root></d></root>']),
}
sel = sys.argv[1:] or list(cases)
for name in sel:
    dtd, docs = cases[name]
    for compound in (False, True):
        print("=====", name, compound)
        for p in check_dtd(dtd, docs, compound=compound, verbose=False):
            print("PROBLEM", p)
