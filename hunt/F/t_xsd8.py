from harness import *
import sys
H='<xs:schema xmlns:xs="http://www.w3.org/2001/XMLSchema" xmlns:t="urn:t" targetNamespace="urn:t" elementFormDefault="qualified">'
cases = {
 "wild": (H+'''
<xs:element name="g" type="xs:string"/>
<xs:attribute name="ga" type="xs:int"/>
<xs:element name="root"><xs:complexType><xs:sequence>
  <xs:element name="a" type="xs:string" minOccurs="0"/>
  <xs:any namespace="##other" processContents="lax" minOccurs="0" maxOccurs="unbounded"/>
  <xs:element name="b" type="xs:string" minOccurs="0"/>
  <xs:any namespace="##local" processContents="lax" minOccurs="0"/>
</xs:sequence><xs:attribute name="k" type="xs:int"/><xs:anyAttribute namespace="##any" processContents="lax"/></xs:complexType></xs:element></xs:schema>''',
  ['<root xmlns="urn:t" xmlns:o="urn:o" xmlns:t="urn:t" k="1" o:x="2" t:ga="3" y="4" xml:lang="en"><a>1</a><o:x>1</o:x><o:y a="1"><o:z/>t</o:y><b>2</b><g xmlns="">3</g></root>',
   '<root xmlns="urn:t" xmlns:o="urn:o"><o:x>1</o:x><g xmlns="">3</g></root>',
   '<root xmlns="urn:t" xmlns:o="urn:o"><o:a>1</o:a><o:b>3</o:b></root>',
  ]),
 "simplecontent": (H+'''
<xs:complexType name="S1"><xs:simpleContent><xs:extension base="xs:decimal"><xs:attribute name="u" type="xs:string"/></xs:extension></xs:simpleContent></xs:complexType>
<xs:complexType name="S2"><xs:simpleContent><xs:extension base="t:S1"><xs:attribute name="v" type="xs:string"/></xs:extension></xs:simpleContent></xs:complexType>
<xs:complexType name="S3"><xs:simpleContent><xs:restriction base="t:S2"><xs:minInclusive value="0"/><xs:attribute name="u" type="xs:string" use="required"/></xs:restriction></xs:simpleContent></xs:complexType>
<xs:complexType name="L"><xs:simpleContent><xs:extension base="xs:NMTOKENS"><xs:attribute name="value" type="xs:string"/></xs:extension></xs:simpleContent></xs:complexType>
<xs:complexType name="E"><xs:simpleContent><xs:extension base="t:En"><xs:attribute name="content" type="xs:string"/></xs:extension></xs:simpleContent></xs:complexType>
<xs:simpleType name="En"><xs:restriction base="xs:string"><xs:enumeration value="a"/><xs:enumeration value="b"/></xs:restriction></xs:simpleType>
<xs:element name="root"><xs:complexType><xs:sequence>
  <xs:element name="s1" type="t:S1" nillable="true"/>
  <xs:element name="s2" type="t:S2"/>
  <xs:element name="s3" type="t:S3"/>
  <xs:element name="l" type="t:L" maxOccurs="unbounded"/>
  <xs:element name="e" type="t:E" maxOccurs="unbounded"/>
  <xs:element name="s1x" type="t:S1" maxOccurs="unbounded"/>
</xs:sequence></xs:complexType></xs:element></xs:schema>''',
  ['<root xmlns="urn:t" xmlns:t="urn:t" xmlns:xsi="http://www.w3.org/2001/XMLSchema-instance"><s1 xsi:nil="true" u="x"/><s2 u="1" v="2">1.50</s2><s3 u="q">0</s3><l value="v">a b</l><l/><e content="c">a</e><e>b</e><s1x xsi:type="t:S2" v="1">5</s1x><s1x xsi:type="t:S3" u="1">5</s1x></root>',
  ]),
 "groups": (H+'''
<xs:group name="G"><xs:sequence><xs:element name="x" type="xs:string"/><xs:element name="y" type="xs:string" minOccurs="0"/></xs:sequence></xs:group>
<xs:group name="C"><xs:choice><xs:element name="p" type="xs:string"/><xs:element name="q" type="xs:int"/></xs:choice></xs:group>
<xs:attributeGroup name="AG"><xs:attribute name="a1" type="xs:string" use="required"/><xs:attributeGroup ref="t:AG2"/></xs:attributeGroup>
<xs:attributeGroup name="AG2"><xs:attribute name="a2" type="xs:int" default="3"/><xs:anyAttribute namespace="##other"/></xs:attributeGroup>
<xs:element name="root"><xs:complexType><xs:sequence>
  <xs:group ref="t:G" minOccurs="0" maxOccurs="2"/>
  <xs:group ref="t:C" maxOccurs="unbounded"/>
  <xs:element name="z" minOccurs="0"><xs:complexType><xs:group ref="t:C" minOccurs="0"/><xs:attributeGroup ref="t:AG"/></xs:complexType></xs:element>
</xs:sequence><xs:attributeGroup ref="t:AG"/></xs:complexType></xs:element></xs:schema>''',
  ['<root xmlns="urn:t" a1="1"><x>1</x><y>2</y><x>3</x><p>p</p><q>1</q><p>r</p><z a1="z" a2="4"><q>5</q></z></root>',
   '<root xmlns="urn:t" a1="1"><q>1</q><z a1=""/></root>',
  ]),
}
sel = sys.argv[1:] or list(cases)
for name in sel:
    xsd, docs, *extra = cases[name]
    for compound in (False,True):
        print("=====", name, compound)
        for p in check_xsd(xsd, docs, compound=compound, verbose=False, extra_files=extra[0] if extra else None):
            print("PROBLEM", p)
