from harness import *
import sys
H='<xs:schema xmlns:xs="http://www.w3.org/2001/XMLSchema" xmlns:t="urn:t" targetNamespace="urn:t" elementFormDefault="qualified">'
cases = {
 "unicode": (H+'''
<xs:element name="root"><xs:complexType><xs:sequence>
  <xs:element name="é" type="xs:string"/>
  <xs:element name="è" type="xs:string"/>
  <xs:element name="名前" type="xs:string"/>
  <xs:element name="名" type="xs:string"/>
  <xs:element name="_" type="xs:string"/>
  <xs:element name="__" type="xs:string"/>
  <xs:element name="a.b" type="xs:string"/>
  <xs:element name="a-b" type="xs:string"/>
  <xs:element name="a_b" type="xs:string"/>
  <xs:element name="_1" type="xs:string"/>
  <xs:element name="Ünï" ><xs:complexType><xs:attribute name="ö" type="xs:string"/><xs:attribute name="ø" type="xs:string"/></xs:complexType></xs:element>
  <xs:element name="Üni" ><xs:complexType><xs:attribute name="o" type="xs:string"/></xs:complexType></xs:element>
</xs:sequence></xs:complexType></xs:element></xs:schema>''',
  ['<root xmlns="urn:t"><é>1</é><è>2</è><名前>3</名前><名>4</名><_>5</_><__>6</__><a.b>7</a.b><a-b>8</a-b><a_b>9</a_b><_1>10</_1><Ünï ö="1" ø="2"/><Üni o="3"/></root>',
  ]),
 "meta": (H+'''
<xs:complexType name="Meta"><xs:sequence><xs:element name="Meta" type="xs:string"/></xs:sequence></xs:complexType>
<xs:element name="root"><xs:complexType><xs:sequence>
  <xs:element name="Meta"><xs:complexType><xs:sequence><xs:element name="name" type="xs:string"/><xs:element name="namespace" type="xs:string"/></xs:sequence></xs:complexType></xs:element>
  <xs:element name="meta" type="t:Meta"/>
  <xs:element name="root" minOccurs="0"><xs:complexType><xs:sequence><xs:element name="root" type="xs:string"/></xs:sequence></xs:complexType></xs:element>
  <xs:element name="self" type="xs:string"/>
  <xs:element name="kw_only" type="xs:string"/>
  
</xs:sequence><xs:attribute name="name" type="xs:string"/><xs:attribute name="namespace" type="xs:string"/><xs:attribute name="init" type="xs:string"/></xs:complexType></xs:element></xs:schema>''',
  ['<root xmlns="urn:t" name="n" namespace="ns" init="i"><Meta><name>1</name><namespace>2</namespace></Meta><meta><Meta>x</Meta></meta><root><root>r</root></root><self>s</self><kw_only>k</kw_only></root>',
  ]),
}
sel = sys.argv[1:] or list(cases)
for name in sel:
    xsd, docs, *extra = cases[name]
    for compound in (False,):
        print("=====", name, compound)
        for p in check_xsd(xsd, docs, compound=compound, verbose=False, extra_files=extra[0] if extra else None):
            print("PROBLEM", p)
