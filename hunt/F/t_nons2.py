from harness import *
import sys
xsd='''<xs:schema xmlns:xs="http://www.w3.org/2001/XMLSchema" xmlns:o="urn:o">
<xs:import namespace="urn:o" schemaLocation="o.xsd"/>
<xs:element name="root"><xs:complexType><xs:sequence>
  <xs:element name="b" type="o:T" minOccurs="0"/>
</xs:sequence></xs:complexType></xs:element></xs:schema>'''
extra={"o.xsd": '''<xs:schema xmlns:xs="http://www.w3.org/2001/XMLSchema" targetNamespace="urn:o" xmlns:o="urn:o"><xs:import schemaLocation="schema.xsd"/>
  <xs:complexType name="T"><xs:sequence><xs:element name="x" type="xs:string"/><xs:element ref="root" minOccurs="0"/></xs:sequence></xs:complexType></xs:schema>'''}
doc='<root><b><x>3</x><root><b><x>1</x></b></root></b></root>'
for compound in (False,):
    for p in check_xsd(xsd,[doc],compound=compound,extra_files=extra): print("PROBLEM",p)
mod,tmp,pkg=generate(xsd,extra_files=extra)
show_source(tmp,pkg)
