"""C02: code generation crashes on an enumeration whose value is a control character (tab).

A `delimiter` simple type with the enumeration values "," ";" and "&#9;" (TAB) is a legal
xs:string restriction.  Attr.__post_init__ names a value without alphanumerics after
unicodedata.name(char), which raises ValueError('no such name') for characters that have no
Unicode name (TAB, LF, CR ...): generation does not succeed.
"""
import sys, traceback
from harness import generate, roundtrip, validate_xsd, canon

XSD = """<xs:schema xmlns:xs="http://www.w3.org/2001/XMLSchema" targetNamespace="urn:t" elementFormDefault="qualified">
<xs:simpleType name="delimiter"><xs:restriction base="xs:string">
  <xs:enumeration value=","/><xs:enumeration value=";"/><xs:enumeration value="&#9;"/>
</xs:restriction></xs:simpleType>
<xs:element name="root"><xs:complexType><xs:sequence>
  <xs:element name="d" type="delimiter" xmlns="urn:t"/>
</xs:sequence></xs:complexType></xs:element></xs:schema>"""
DOC = '<root xmlns="urn:t"><d>;</d></root>'
from lxml import etree
etree.XMLSchema(etree.fromstring(XSD.encode()))  # the schema itself is valid
try:
    mod, tmp, pkg = generate(XSD)
    assert validate_xsd(XSD, DOC, base_dir=tmp)[0]
    obj, out = roundtrip(mod, DOC)
    print(out)
    sys.exit(0 if canon(DOC) == canon(out) else 1)
except AssertionError:
    raise
except Exception:
    traceback.print_exc()
    print("VIOLATION: code generation failed for a valid schema")
    sys.exit(1)
