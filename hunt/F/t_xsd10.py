from harness import *
import sys
H='<xs:schema xmlns:xs="http://www.w3.org/2001/XMLSchema" xmlns:t="urn:t" targetNamespace="urn:t" elementFormDefault="qualified">'
cases = {
 "nil": (H+'''
<xs:complexType name="C"><xs:sequence><xs:element name="x" type="xs:string"/></xs:sequence></xs:complexType>
<xs:element name="g" type="xs:int" nillable="true"/>
<xs:element name="root"><xs:complexType><xs:sequence>
  <xs:element name="i" type="xs:int" nillable="true" maxOccurs="unbounded"/>
  <xs:element name="s" type="xs:string" nillable="true" maxOccurs="unbounded"/>
  <xs:element name="c" type="t:C" nillable="true" maxOccurs="unbounded"/>
  <xs:element name="l" type="xs:NMTOKENS" nillable="true" maxOccurs="unbounded"/>
  <xs:element name="d" type="xs:date" nillable="true"/>
  <xs:element ref="t:g" maxOccurs="unbounded"/>
  <xs:element name="any" type="xs:anyType" nillable="true" maxOccurs="unbounded"/>
  <xs:element name="e" nillable="true" maxOccurs="unbounded"><xs:simpleType><xs:restriction base="xs:string"><xs:enumeration value="a"/></xs:restriction></xs:simpleType></xs:element>
</xs:sequence></xs:complexType></xs:element></xs:schema>''',
  ['<root xmlns="urn:t" xmlns:xsi="http://www.w3.org/2001/XMLSchema-instance"><i>1</i><i xsi:nil="true"/><i>2</i><s xsi:nil="true"/><s/><s>x</s><c xsi:nil="true"/><c><x>1</x></c><l xsi:nil="true"/><l>a b</l><d xsi:nil="true"/><g xsi:nil="true"/><g>5</g><any xsi:nil="true"/><any>t</any><e xsi:nil="true"/><e>a</e></root>',
   '<root xmlns="urn:t" xmlns:xsi="http://www.w3.org/2001/XMLSchema-instance"><i xsi:nil="false">1</i><s xsi:nil="0"/><c xsi:nil="false"><x>1</x></c><l/><d xsi:nil="1"/><g xsi:nil="true"></g><any/><e>a</e></root>',
  ]),
}
sel = sys.argv[1:] or list(cases)
for name in sel:
    xsd, docs, *extra = cases[name]
    for compound in (False,True):
        print("=====", name, compound)
        for p in check_xsd(xsd, docs, compound=compound, verbose=True, extra_files=extra[0] if extra else None):
            print("PROBLEM", p)
