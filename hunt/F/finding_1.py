"""C16: an element declared ANY loses the character data that follows a child element.

<!ELEMENT root ANY> is generated as a class with one single-valued, non-mixed wildcard
field.  In the DTD-valid document <root>x<a>1</a>y<b/>z</root> the text pieces "y" and "z"
(tails of the children) are silently dropped ("Unassigned parsed object None" warnings only).
"""
import sys
from harness import generate, roundtrip, validate_dtd, canon

DTD = """<!ELEMENT root ANY>
<!ELEMENT a (#PCDATA)>
<!ELEMENT b EMPTY>
"""
DOC = "<root>x<a>1</a>y<b/>z</root>"

mod, tmp, pkg = generate(DTD, suffix=".dtd")
assert validate_dtd(DTD, DOC)[0], "input must be DTD-valid"
obj, out = roundtrip(mod, DOC)
print(obj)
print(out)
a, b = canon(DOC), canon(out)
print("input :", a)
print("output:", b)
if a != b:
    print("VIOLATION: text content of the ANY element was lost")
    sys.exit(1)
sys.exit(0)
