from harness import *
import sys
H='<xs:schema xmlns:xs="http://www.w3.org/2001/XMLSchema" xmlns:t="urn:t" targetNamespace="urn:t" elementFormDefault="qualified">'
cases = {
 "lists": (H+'''
<xs:simpleType name="En"><xs:restriction base="xs:string"><xs:enumeration value="a"/><xs:enumeration value="b"/></xs:restriction></xs:simpleType>
<xs:simpleType name="EnList"><xs:list itemType="t:En"/></xs:simpleType>
<xs:simpleType name="UL"><xs:list><xs:simpleType><xs:union memberTypes="xs:int t:En xs:date"/></xs:simpleType></xs:list></xs:simpleType>
<xs:simpleType name="UoL"><xs:union memberTypes="t:EnList xs:int"/></xs:simpleType>
<xs:simpleType name="QL"><xs:list itemType="xs:QName"/></xs:simpleType>
<xs:simpleType name="BL"><xs:list itemType="xs:hexBinary"/></xs:simpleType>
<xs:simpleType name="LenList"><xs:restriction base="t:EnList"><xs:length value="2"/></xs:restriction></xs:simpleType>
<xs:element name="root"><xs:complexType><xs:sequence>
  <xs:element name="el" type="t:EnList" minOccurs="0" maxOccurs="unbounded"/>
  <xs:element name="ul" type="t:UL" minOccurs="0" maxOccurs="unbounded"/>
  <xs:element name="uol" type="t:UoL" minOccurs="0" maxOccurs="unbounded"/>
  <xs:element name="ql" type="t:QL" minOccurs="0" maxOccurs="unbounded"/>
  <xs:element name="bl" type="t:BL" minOccurs="0" maxOccurs="unbounded"/>
  <xs:element name="ll" type="t:LenList" minOccurs="0" default="a b"/>
  <xs:element name="fl" minOccurs="0" maxOccurs="unbounded"><xs:simpleType><xs:list itemType="xs:float"/></xs:simpleType></xs:element>
  <xs:element name="bol" minOccurs="0" maxOccurs="unbounded"><xs:simpleType><xs:list itemType="xs:boolean"/></xs:simpleType></xs:element>
</xs:sequence>
<xs:attribute name="ela" type="t:EnList" default="a b"/>
<xs:attribute name="ula" type="t:UL"/>
<xs:attribute name="uola" type="t:UoL"/>
<xs:attribute name="qla" type="t:QL"/>
<xs:attribute name="bla" type="t:BL"/>
</xs:complexType></xs:element></xs:schema>''',
  ['<root xmlns="urn:t" xmlns:q="urn:q" ela="b" ula="1 a 2001-01-01" uola="a b" qla="q:a b" bla="0a FF"><el>a b a</el><el>b</el><ul>1 a 2001-01-01</ul><ul>b</ul><uol>a b</uol><uol>5</uol><uol>a</uol><ql>q:a b</ql><bl>0a ff</bl><ll/><fl>1 INF NaN -0</fl><bol>1 0 true false</bol></root>',
   '<root xmlns="urn:t" uola="7"><ll>b a</ll></root>',
  ]),
}
sel = sys.argv[1:] or list(cases)
for name in sel:
    xsd, docs, *extra = cases[name]
    for compound in (False,):
        print("=====", name, compound)
        for p in check_xsd(xsd, docs, compound=compound, verbose=True, extra_files=extra[0] if extra else None):
            print("PROBLEM", p)
