from harness import *
import sys
H='<xs:schema xmlns:xs="http://www.w3.org/2001/XMLSchema" xmlns:t="urn:t" targetNamespace="urn:t" elementFormDefault="qualified">'
xsd=H+'''
<xs:complexType name="C"><xs:sequence><xs:element name="x" type="xs:string"/></xs:sequence></xs:complexType>
<xs:element name="root"><xs:complexType><xs:sequence>
  <xs:element name="c" type="t:C" nillable="true" maxOccurs="unbounded"/>
  <xs:element name="c1" type="t:C" nillable="true"/>
  <xs:element name="s" type="xs:string" nillable="true"/>
  <xs:element name="i" type="xs:int" nillable="true"/>
</xs:sequence></xs:complexType></xs:element></xs:schema>'''
mod,tmp,pkg=generate(xsd)
X='xmlns:xsi="http://www.w3.org/2001/XMLSchema-instance"'
for doc in ['<root xmlns="urn:t" %s><c><x>1</x></c><c1><x>2</x></c1><s/><i>1</i></root>'%X,
            '<root xmlns="urn:t" %s><c xsi:nil="true"/><c><x>1</x></c><c1 xsi:nil="true"/><s xsi:nil="true"/><i xsi:nil="true"/></root>'%X,
            '<root xmlns="urn:t" %s><c><x>1</x></c><c1 xsi:nil="false"><x>2</x></c1><s xsi:nil="false">x</s><i xsi:nil="false">1</i></root>'%X,
            '<root xmlns="urn:t" %s><c xsi:nil="false"><x>1</x></c><c1><x>2</x></c1><s>x</s><i>1</i></root>'%X,
            ]:
    print(validate_xsd(xsd,doc,base_dir=tmp))
    try:
        obj,out=roundtrip(mod,doc)
        print(obj);print(out)
        print(validate_xsd(xsd,out,base_dir=tmp))
    except Exception as e: print("ERR",repr(e))
