"""C02: attributes of a nil element of complex type are lost.

<xs:element name="c1" type="t:C1" nillable="true"/> where C1 has a (required) attribute u.
The valid document <c1 xsi:nil="true" u="y"/> is parsed to None (the generated field is
`None | C1` with nillable metadata) and written back as <c1 xsi:nil="true"/>: the attribute is
lost, and because it is required the output is not even schema-valid.
"""
import sys
from harness import generate, roundtrip, validate_xsd, canon

XSD = """<xs:schema xmlns:xs="http://www.w3.org/2001/XMLSchema" xmlns:t="urn:t" targetNamespace="urn:t" elementFormDefault="qualified">
<xs:complexType name="C1"><xs:sequence><xs:element name="x" type="xs:string"/></xs:sequence>
  <xs:attribute name="u" type="xs:string" use="required"/></xs:complexType>
<xs:element name="root"><xs:complexType><xs:sequence>
  <xs:element name="c1" type="t:C1" nillable="true"/>
</xs:sequence></xs:complexType></xs:element></xs:schema>"""
DOC = '<root xmlns="urn:t" xmlns:xsi="http://www.w3.org/2001/XMLSchema-instance"><c1 xsi:nil="true" u="y"/></root>'
mod, tmp, pkg = generate(XSD)
assert validate_xsd(XSD, DOC, base_dir=tmp)[0]
obj, out = roundtrip(mod, DOC)
print(obj)
print(out)
ok, log = validate_xsd(XSD, out, base_dir=tmp)
print("output valid:", ok, log)
if canon(DOC) != canon(out) or not ok:
    print("VIOLATION: attribute u of the nil element was lost")
    sys.exit(1)
sys.exit(0)
