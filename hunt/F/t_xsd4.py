from harness import *
import sys
H='<xs:schema xmlns:xs="http://www.w3.org/2001/XMLSchema" xmlns:t="urn:t" targetNamespace="urn:t" elementFormDefault="qualified">'
cases = {
 "emptylist": (H+'''
<xs:element name="root"><xs:complexType><xs:sequence>
  <xs:element name="l"><xs:simpleType><xs:list itemType="xs:int"/></xs:simpleType></xs:element>
  <xs:element name="m" type="xs:NMTOKENS" minOccurs="0" maxOccurs="3"/>
  <xs:element name="e" type="xs:string"/>
</xs:sequence>
<xs:attribute name="la" use="required"><xs:simpleType><xs:list itemType="xs:int"/></xs:simpleType></xs:attribute>
</xs:complexType></xs:element></xs:schema>''',
  ['<root xmlns="urn:t" la=""><l/><e/></root>', '<root xmlns="urn:t" la=""><l/><m>a</m><e/></root>',
  ]),
}
sel = sys.argv[1:] or list(cases)
for name in sel:
    xsd, docs = cases[name]
    for compound in (False,):
        print("=====", name, compound)
        for p in check_xsd(xsd, docs, compound=compound, verbose=True):
            print("PROBLEM", p)
