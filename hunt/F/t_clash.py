from harness import *
import sys, inspect
from xsdata.models.config import StructureStyle
main='''<xs:schema xmlns:xs="http://www.w3.org/2001/XMLSchema" xmlns:t="urn:t" xmlns:o="urn:o" targetNamespace="urn:t" elementFormDefault="qualified">
<xs:import namespace="urn:o" schemaLocation="o.xsd"/>
<xs:complexType name="Node"><xs:sequence>
  <xs:element name="p" type="xs:int" minOccurs="0"/>
  <xs:element name="other" type="o:Node" minOccurs="0"/>
</xs:sequence></xs:complexType>
<xs:element name="root" type="t:Node"/>
</xs:schema>'''
extra={"o.xsd":'''<xs:schema xmlns:xs="http://www.w3.org/2001/XMLSchema" xmlns:o="urn:o" targetNamespace="urn:o" elementFormDefault="qualified">
<xs:complexType name="Node"><xs:sequence><xs:element name="n" type="xs:string"/></xs:sequence></xs:complexType>
</xs:schema>'''}
doc='<root xmlns="urn:t" xmlns:o="urn:o"><p>1</p><other><o:n>x</o:n></other></root>'
for style in StructureStyle:
    def conf(c): c.output.structure_style=style
    try:
        mod,tmp,pkg=generate(main,configure=conf,extra_files=extra)
        if style.value in sys.argv: show_source(tmp,pkg)
        import importlib,pkgutil
        root=None
        for m in [mod]+[importlib.import_module(i.name) for i in pkgutil.walk_packages(mod.__path__, mod.__name__+'.')]:
            if hasattr(m,'Root'): root=m.Root
        obj,out=roundtrip(mod,doc,clazz=root)
        print(style.value, "OK", canon(out)==canon(doc))
    except Exception as e:
        print(style.value,"FAIL",repr(e)[:200])
