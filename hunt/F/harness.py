"""Common harness: generate code from XSD/DTD, import, roundtrip docs."""
import os
import sys
import tempfile
import importlib
import itertools
import traceback
from pathlib import Path

sys.path.insert(0, "/verif/shims")
os.environ["PATH"] = "/verif/shims/bin:" + os.environ["PATH"]

from lxml import etree

from xsdata.codegen.transformer import ResourceTransformer
from xsdata.models.config import GeneratorConfig
from xsdata.formats.dataclass.parsers import XmlParser
from xsdata.formats.dataclass.parsers.config import ParserConfig
from xsdata.formats.dataclass.serializers import XmlSerializer
from xsdata.formats.dataclass.serializers.config import SerializerConfig
from xsdata.formats.dataclass.context import XmlContext

_counter = itertools.count()


def generate(source: str, suffix=".xsd", compound=False, configure=None, extra_files=None):
    """Returns (module, tmpdir, package name)."""
    tmp = tempfile.mkdtemp(prefix="hf_", dir="/tmp/hunt/F/tmp")
    src = Path(tmp) / f"schema{suffix}"
    src.write_text(source)
    for name, content in (extra_files or {}).items():
        (Path(tmp) / name).write_text(content)
    pkg = f"gen{next(_counter)}_{os.getpid()}"
    config = GeneratorConfig()
    config.output.package = pkg
    config.output.compound_fields.enabled = compound
    if configure:
        configure(config)
    cwd = os.getcwd()
    os.chdir(tmp)
    try:
        t = ResourceTransformer(config=config)
        t.process([src.as_uri()])
    finally:
        os.chdir(cwd)
    sys.path.insert(0, tmp)
    importlib.invalidate_caches()
    mod = importlib.import_module(pkg)
    return mod, tmp, pkg


def find_root(mod, xml: str):
    root = etree.fromstring(xml.encode())
    q = etree.QName(root)
    for name in dir(mod):
        obj = getattr(mod, name)
        if isinstance(obj, type) and hasattr(obj, "__dataclass_fields__"):
            meta = getattr(obj, "Meta", None)
            mname = getattr(meta, "name", obj.__name__) if meta else obj.__name__
            ns = getattr(meta, "namespace", None) if meta else None
            if mname == q.localname and (ns or None) == (q.namespace or None):
                return obj
    raise LookupError(f"no root class for {q}")


def roundtrip(mod, xml: str, clazz=None):
    ctx = XmlContext()
    parser = XmlParser(
        context=ctx,
        config=ParserConfig(fail_on_unknown_properties=True, fail_on_unknown_attributes=True, fail_on_converter_warnings=True),
    )
    if clazz is None:
        clazz = find_root(mod, xml)
    obj = parser.from_string(xml, clazz)
    ser = XmlSerializer(context=ctx, config=SerializerConfig(indent="  "))
    out = ser.render(obj)
    return obj, out


def canon(xml: str):
    """Structure-canonical: tuple tree with (tag, sorted attrs w/o xmlns, text stripped, children)."""
    if isinstance(xml, str):
        xml = xml.encode()
    root = etree.fromstring(xml)

    def conv(e):
        attrs = sorted((k, v) for k, v in e.attrib.items())
        text = (e.text or "").strip()
        kids = []
        for c in e:
            if not isinstance(c.tag, str):
                continue
            kids.append(conv(c))
            tail = (c.tail or "").strip()
            if tail:
                kids.append(("#text", tail))
        return (e.tag, tuple(attrs), text, tuple(kids))

    return conv(root)


def validate_xsd(xsd_path_or_text, xml: str, base_dir=None):
    if base_dir:
        doc = etree.parse(os.path.join(base_dir, "schema.xsd"))
    else:
        doc = etree.fromstring(xsd_path_or_text.encode())
    schema = etree.XMLSchema(doc)
    d = etree.fromstring(xml.encode())
    ok = schema.validate(d)
    return ok, str(schema.error_log)


def validate_dtd(dtd_text, xml: str):
    import io
    dtd = etree.DTD(io.StringIO(dtd_text))
    d = etree.fromstring(xml.encode())
    ok = dtd.validate(d)
    return ok, str(dtd.error_log)


def check_xsd(xsd, docs, compound=False, configure=None, verbose=True, extra_files=None):
    """Returns list of problems."""
    problems = []
    try:
        mod, tmp, pkg = generate(xsd, compound=compound, configure=configure, extra_files=extra_files)
    except Exception as e:
        traceback.print_exc()
        return [("generate", repr(e))]
    for xml in docs:
        ok, log = validate_xsd(xsd, xml, base_dir=tmp)
        if not ok:
            print("INPUT NOT VALID:", log)
            problems.append(("invalid-input", log))
            continue
        try:
            obj, out = roundtrip(mod, xml)
        except Exception as e:
            traceback.print_exc()
            problems.append(("roundtrip", repr(e), xml))
            continue
        if verbose:
            print(obj)
            print(out)
        ok2, log2 = validate_xsd(xsd, out, base_dir=tmp)
        if canon(xml) != canon(out):
            problems.append(("diff", xml, out))
        if not ok2:
            problems.append(("output-invalid", log2, out))
    return problems


def check_dtd(dtd, docs, compound=False, configure=None, verbose=True):
    problems = []
    try:
        mod, tmp, pkg = generate(dtd, suffix=".dtd", compound=compound, configure=configure)
    except Exception as e:
        traceback.print_exc()
        return [("generate", repr(e))]
    for xml in docs:
        ok, log = validate_dtd(dtd, xml)
        if not ok:
            print("INPUT NOT VALID:", log)
            problems.append(("invalid-input", log))
            continue
        try:
            obj, out = roundtrip(mod, xml)
        except Exception as e:
            traceback.print_exc()
            problems.append(("roundtrip", repr(e), xml))
            continue
        if verbose:
            print(obj)
            print(out)
        ok2, log2 = validate_dtd(dtd, out)
        if canon(dtd_defaults(dtd, xml)) != canon(out):
            problems.append(("diff", xml, out))
        if not ok2:
            problems.append(("output-invalid", log2, out))
    return problems


def show_source(tmp, pkg):
    for p in sorted(Path(tmp, pkg).rglob("*.py")) if Path(tmp, pkg).is_dir() else [Path(tmp, pkg + ".py")]:
        print("#", p)
        print(p.read_text())


def dtd_defaults(dtd_text, xml):
    import tempfile
    f = tempfile.NamedTemporaryFile("w", suffix=".dtd", delete=False, dir="/tmp/hunt/F/tmp")
    f.write(dtd_text); f.close()
    root = etree.fromstring(xml.encode()).tag
    doc = f'<!DOCTYPE {root} SYSTEM "{f.name}">' + xml
    p = etree.XMLParser(load_dtd=True, attribute_defaults=True, no_network=True)
    r = etree.fromstring(doc.encode(), p)
    return etree.tostring(r)
