"""C16: <!ELEMENT b (#PCDATA)*> generates a class that can not be bound at all.

(#PCDATA)* is a legal (and common) spelling of a text-only mixed declaration.  The mapper
multiplies the occurrence of the group into the text attr, the generated class gets
`value: list[str]` as its text field and every document fails with
XmlContextError 'Xml Text does not support typing list[str]'.
"""
import sys, traceback
from harness import generate, roundtrip, validate_dtd, canon

DTD = """<!ELEMENT root (b)>
<!ELEMENT b (#PCDATA)*>
"""
DOC = "<root><b>x</b></root>"
try:
    mod, tmp, pkg = generate(DTD, suffix=".dtd")
    assert validate_dtd(DTD, DOC)[0]
    obj, out = roundtrip(mod, DOC)
    print(obj)
    print(out)
    sys.exit(0 if canon(DOC) == canon(out) else 1)
except AssertionError:
    raise
except Exception:
    traceback.print_exc()
    print("VIOLATION: DTD-valid document can not be parsed")
    sys.exit(1)
