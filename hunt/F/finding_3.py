"""C02: a schema type whose generated class name equals a name the generated module imports.

(a) complexType name="XmlDate" next to an xs:date element: the module defines class XmlDate and
    also needs xsdata.models.datatype.XmlDate; the xs:date field ends up typed with the user
    class and the valid document is rejected (XmlDate.__init__() missing ... 'd').
(b) complexType name="ForwardRef" in a schema that gets a compound field with a forward
    reference to an inner class: `from typing import ForwardRef` is shadowed and the generated
    package does not even import (TypeError).
"""
import sys, traceback
from harness import generate, roundtrip, validate_xsd, canon

H = '<xs:schema xmlns:xs="http://www.w3.org/2001/XMLSchema" xmlns:t="urn:t" targetNamespace="urn:t" elementFormDefault="qualified">'
bad = 0

XSD_A = H + """
<xs:complexType name="XmlDate"><xs:sequence><xs:element name="d" type="xs:date"/></xs:sequence></xs:complexType>
<xs:element name="root"><xs:complexType><xs:sequence>
  <xs:element name="a" type="t:XmlDate"/>
  <xs:element name="c" type="xs:date"/>
</xs:sequence></xs:complexType></xs:element></xs:schema>"""
DOC_A = '<root xmlns="urn:t"><a><d>2001-01-01</d></a><c>2002-02-02</c></root>'
try:
    mod, tmp, pkg = generate(XSD_A)
    assert validate_xsd(XSD_A, DOC_A, base_dir=tmp)[0]
    obj, out = roundtrip(mod, DOC_A)
    print(out)
    if canon(DOC_A) != canon(out):
        print("VIOLATION (a): output differs")
        bad = 1
except AssertionError:
    raise
except Exception:
    traceback.print_exc()
    print("VIOLATION (a): valid document rejected / generation failed")
    bad = 1

XSD_B = H + """
<xs:complexType name="ForwardRef"><xs:sequence><xs:element name="d" type="xs:date"/></xs:sequence></xs:complexType>
<xs:element name="root"><xs:complexType><xs:sequence>
  <xs:element name="a" type="t:ForwardRef"/>
  <xs:element name="b"><xs:complexType><xs:choice maxOccurs="unbounded">
     <xs:element name="x" type="xs:int"/>
     <xs:element name="y"><xs:complexType><xs:sequence><xs:element name="z" type="xs:string"/></xs:sequence></xs:complexType></xs:element>
  </xs:choice></xs:complexType></xs:element>
</xs:sequence></xs:complexType></xs:element></xs:schema>"""
DOC_B = '<root xmlns="urn:t"><a><d>2001-01-01</d></a><b><x>1</x><y><z>q</z></y><x>2</x></b></root>'
try:
    mod, tmp, pkg = generate(XSD_B, compound=True)
    assert validate_xsd(XSD_B, DOC_B, base_dir=tmp)[0]
    obj, out = roundtrip(mod, DOC_B)
    print(out)
    if canon(DOC_B) != canon(out):
        print("VIOLATION (b): output differs")
        bad = 1
except AssertionError:
    raise
except Exception:
    traceback.print_exc()
    print("VIOLATION (b): generated package does not import / document rejected")
    bad = 1
sys.exit(bad)
