"""C02 + C16: a(a|b)* with compound fields enabled does not preserve element order.

The only repeating group is a choice of single elements and compound fields are enabled, so
the property demands order preservation.  Because the element `a` also occurs before the
choice, MergeAttributes folds the choice branch `a` into the leading field `a` (a list) before
CreateCompoundFields runs; no compound field is generated and a/b become two plain lists.
<root><a>1</a><b/><a>2</a><b/></root> comes back as a a b b.
"""
import sys
from harness import generate, roundtrip, validate_dtd, validate_xsd, canon

bad = 0

XSD = """<xs:schema xmlns:xs="http://www.w3.org/2001/XMLSchema" targetNamespace="urn:t" elementFormDefault="qualified">
<xs:element name="root"><xs:complexType><xs:sequence>
  <xs:element name="a" type="xs:string"/>
  <xs:choice minOccurs="0" maxOccurs="unbounded">
    <xs:element name="a" type="xs:string"/>
    <xs:element name="b" type="xs:int"/>
  </xs:choice>
</xs:sequence></xs:complexType></xs:element></xs:schema>"""
DOC = '<root xmlns="urn:t"><a>1</a><b>1</b><a>2</a><b>2</b></root>'
mod, tmp, pkg = generate(XSD, compound=True)
assert validate_xsd(XSD, DOC, base_dir=tmp)[0]
obj, out = roundtrip(mod, DOC)
print(obj)
print(out)
if canon(DOC) != canon(out):
    print("VIOLATION (XSD): element order not preserved with compound fields")
    bad = 1

DTD = """<!ELEMENT root (a, (a|b)*)>
<!ELEMENT a (#PCDATA)>
<!ELEMENT b EMPTY>
"""
DOC = "<root><a>1</a><b/><a>2</a><b/></root>"
mod, tmp, pkg = generate(DTD, suffix=".dtd", compound=True)
assert validate_dtd(DTD, DOC)[0]
obj, out = roundtrip(mod, DOC)
print(obj)
print(out)
if canon(DOC) != canon(out):
    print("VIOLATION (DTD): element order not preserved with compound fields")
    bad = 1
sys.exit(bad)
