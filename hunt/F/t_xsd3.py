from harness import *
import sys
H='<xs:schema xmlns:xs="http://www.w3.org/2001/XMLSchema" xmlns:t="urn:t" targetNamespace="urn:t" elementFormDefault="qualified">'
cases = {
 "emptyopt": (H+'''
<xs:element name="root"><xs:complexType><xs:sequence>
  <xs:element name="s" type="xs:string" minOccurs="0"/>
  <xs:element name="toks" type="xs:NMTOKENS" minOccurs="0"/>
  <xs:element name="l" minOccurs="0"><xs:simpleType><xs:list itemType="xs:int"/></xs:simpleType></xs:element>
  <xs:element name="u" minOccurs="0"><xs:simpleType><xs:union memberTypes="xs:string xs:int"/></xs:simpleType></xs:element>
  <xs:element name="u2" minOccurs="0" maxOccurs="unbounded"><xs:simpleType><xs:union memberTypes="xs:int xs:string"/></xs:simpleType></xs:element>
  <xs:element name="ws" type="xs:string" minOccurs="0" maxOccurs="unbounded"/>
  <xs:element name="any" type="xs:anyType" minOccurs="0"/>
  <xs:element name="anys" type="xs:anySimpleType" minOccurs="0" maxOccurs="unbounded"/>
</xs:sequence>
<xs:attribute name="a" type="xs:string"/>
<xs:attribute name="la"><xs:simpleType><xs:list itemType="xs:int"/></xs:simpleType></xs:attribute>
</xs:complexType></xs:element></xs:schema>''',
  ['<root xmlns="urn:t" a="" la=""><s/><l/><u>01</u><u2>01</u2><u2/><u2> x </u2><ws> </ws><ws>\n</ws><ws> a </ws><any/><anys/><anys> 1</anys></root>',
   '<root xmlns="urn:t" a="  " la=" 1  2 "><s></s></root>',
   '''<root xmlns="urn:t" xmlns:xsi="http://www.w3.org/2001/XMLSchema-instance" xmlns:xs="http://www.w3.org/2001/XMLSchema" xsi:schemaLocation="urn:t foo.xsd"><any xsi:type="xs:int">5</any><anys xsi:type="xs:date">2001-01-01</anys></root>''',
   '''<root xmlns="urn:t"><any a="1">text<x xmlns="urn:o">q</x>tail<y xmlns=""/>t2</any></root>''',
  ]),
}
sel = sys.argv[1:] or list(cases)
for name in sel:
    xsd, docs = cases[name]
    for compound in (False,):
        print("=====", name, compound)
        for p in check_xsd(xsd, docs, compound=compound, verbose=True):
            print("PROBLEM", p)
