from harness import *
import sys
cases = {
 "names": ('''<!ELEMENT root (Enum, field, dataclass, Optional?, class, None, list*, str)>
<!ATTLIST root Enum (a|b) "a" field CDATA #IMPLIED class CDATA #IMPLIED>
<!ELEMENT Enum (#PCDATA)>
<!ATTLIST Enum e (a|b) "a">
<!ELEMENT field (#PCDATA)>
<!ELEMENT dataclass (#PCDATA)>
<!ELEMENT Optional (#PCDATA)>
<!ELEMENT class (#PCDATA)>
<!ELEMENT None (#PCDATA)>
<!ELEMENT list (#PCDATA)>
<!ELEMENT str (#PCDATA)>
''', ['<root field="1" class="c"><Enum e="b">x</Enum><field>f</field><dataclass>d</dataclass><class>c</class><None>n</None><list>1</list><list>2</list><str>s</str></root>']),
 "case": ('''<!ELEMENT root (a, A, foo-bar, foo_bar, fooBar)>
<!ATTLIST root a CDATA #IMPLIED A CDATA #IMPLIED foo.bar CDATA #IMPLIED>
<!ELEMENT a (#PCDATA)>
<!ELEMENT A (#PCDATA)>
<!ELEMENT foo-bar (#PCDATA)>
<!ELEMENT foo_bar (#PCDATA)>
<!ELEMENT fooBar (#PCDATA)>
''', ['<root a="1" A="2" foo.bar="3"><a>1</a><A>2</A><foo-bar>3</foo-bar><foo_bar>4</foo_bar><fooBar>5</fooBar></root>']),
 "value": ('''<!ELEMENT root (#PCDATA|value)*>
<!ATTLIST root value CDATA #IMPLIED content CDATA #IMPLIED>
<!ELEMENT value (#PCDATA)>
<!ATTLIST value value CDATA #IMPLIED>
''', ['<root value="1" content="c">a<value value="v">x</value>b</root>']),
 "value2": ('''<!ELEMENT root (value, content)>
<!ATTLIST root value CDATA #IMPLIED>
<!ELEMENT value (#PCDATA)>
<!ATTLIST value value CDATA #IMPLIED>
<!ELEMENT content (value*)>
<!ATTLIST content value NMTOKENS #IMPLIED>
''', ['<root value="1"><value value="v">x</value><content value="a b"><value/><value>q</value></content></root>']),
 "nest": ('''<!ELEMENT root ((a|b)*, c, (d, e)+, (f|g)?, (h?, i?)*)>
<!ELEMENT a EMPTY><!ELEMENT b EMPTY><!ELEMENT c EMPTY><!ELEMENT d EMPTY><!ELEMENT e EMPTY><!ELEMENT f EMPTY><!ELEMENT g EMPTY><!ELEMENT h EMPTY><!ELEMENT i EMPTY>
''', ['<root><c/><d/><e/></root>', '<root><a/><b/><a/><c/><d/><e/><d/><e/><g/><h/><i/><i/><h/></root>']),
 "nest2": ('''<!ELEMENT root ((a, b?)+ | (c | d)+ | e*)>
<!ELEMENT a EMPTY><!ELEMENT b EMPTY><!ELEMENT c EMPTY><!ELEMENT d EMPTY><!ELEMENT e EMPTY>
''', ['<root/>', '<root><a/><a/><b/></root>', '<root><c/><d/><c/></root>', '<root><e/><e/></root>']),
 "nest3": ('''<!ELEMENT root (a, (a|b)*)>
<!ELEMENT a (#PCDATA)><!ELEMENT b EMPTY>
''', ['<root><a>1</a></root>', '<root><a>1</a><b/><a>2</a><b/></root>']),
 "optchoice": ('''<!ELEMENT root ((a|b), (c|d)?, (e|f)+)>
<!ELEMENT a (#PCDATA)><!ELEMENT b EMPTY><!ELEMENT c (#PCDATA)><!ELEMENT d EMPTY><!ELEMENT e (#PCDATA)><!ELEMENT f EMPTY>
''', ['<root><a>1</a><e/></root>', '<root><b/><d/><f/><e>1</e><f/></root>']),
}
sel = sys.argv[1:] or list(cases)
for name in sel:
    dtd, docs = cases[name]
    for compound in (False, True):
        print("=====", name, compound)
        for p in check_dtd(dtd, docs, compound=compound, verbose=False):
            print("PROBLEM", p)
