"""C02: a required list-typed element / attribute with an empty value is dropped.

<l/> and la="" are valid (a list of zero items).  They parse to [] and the serializer
skips empty lists, so the required element and the required attribute disappear and
the output document is no longer schema-valid.
"""
import sys
from harness import generate, roundtrip, validate_xsd, canon

XSD = """<xs:schema xmlns:xs="http://www.w3.org/2001/XMLSchema" targetNamespace="urn:t" elementFormDefault="qualified">
<xs:element name="root"><xs:complexType><xs:sequence>
  <xs:element name="l"><xs:simpleType><xs:list itemType="xs:int"/></xs:simpleType></xs:element>
  <xs:element name="e" type="xs:string"/>
</xs:sequence>
<xs:attribute name="la" use="required"><xs:simpleType><xs:list itemType="xs:int"/></xs:simpleType></xs:attribute>
</xs:complexType></xs:element></xs:schema>"""
DOC = '<root xmlns="urn:t" la=""><l/><e>x</e></root>'
mod, tmp, pkg = generate(XSD)
assert validate_xsd(XSD, DOC, base_dir=tmp)[0]
obj, out = roundtrip(mod, DOC)
print(obj)
print(out)
ok, log = validate_xsd(XSD, out, base_dir=tmp)
print("output valid:", ok, log)
if canon(DOC) != canon(out) or not ok:
    print("VIOLATION: element <l/> and attribute la lost, output schema-invalid")
    sys.exit(1)
sys.exit(0)
