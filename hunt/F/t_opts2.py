from harness import *
exec(open('t_opts.py').read().split("results={}")[0])
mod,tmp,pkg=generate(main,compound=False,extra_files=extra)
show_source(tmp,pkg)
