from harness import *
import sys
H='<xs:schema xmlns:xs="http://www.w3.org/2001/XMLSchema" xmlns:t="urn:t" targetNamespace="urn:t" elementFormDefault="qualified">'
cases = {
 "bytesfield": (H+'''
<xs:element name="root"><xs:complexType><xs:sequence>
  <xs:element name="bytes" type="xs:string" minOccurs="0"/>
  <xs:element name="tuple" type="xs:string" minOccurs="0"/>
  <xs:element name="data" type="xs:hexBinary" minOccurs="0"/>
  <xs:element name="items" type="xs:int" minOccurs="0" maxOccurs="unbounded"/>
</xs:sequence></xs:complexType></xs:element></xs:schema>''',
  ['<root xmlns="urn:t"><bytes>x</bytes><tuple>t</tuple><data>0A</data><items>1</items></root>']),
 "xmldate": (H+'''
<xs:complexType name="XmlDate"><xs:sequence><xs:element name="d" type="xs:date"/></xs:sequence></xs:complexType>
<xs:complexType name="XmlDuration"><xs:sequence><xs:element name="d" type="xs:duration"/></xs:sequence></xs:complexType>
<xs:element name="root"><xs:complexType><xs:sequence>
  <xs:element name="a" type="t:XmlDate"/>
  <xs:element name="b" type="t:XmlDuration"/>
  <xs:element name="c" type="xs:date"/>
</xs:sequence></xs:complexType></xs:element></xs:schema>''',
  ['<root xmlns="urn:t"><a><d>2001-01-01</d></a><b><d>P1D</d></b><c>2002-02-02</c></root>']),
 "iterable": (H+'''
<xs:complexType name="Iterable"><xs:sequence><xs:element name="d" type="xs:date" maxOccurs="unbounded"/></xs:sequence></xs:complexType>
<xs:complexType name="Mapping"><xs:sequence><xs:element name="d" type="xs:date" maxOccurs="unbounded"/></xs:sequence><xs:anyAttribute/></xs:complexType>
<xs:element name="root"><xs:complexType><xs:sequence>
  <xs:element name="a" type="t:Iterable" maxOccurs="unbounded"/>
  <xs:element name="b" type="t:Mapping" maxOccurs="unbounded"/>
</xs:sequence><xs:anyAttribute/></xs:complexType></xs:element></xs:schema>''',
  ['<root xmlns="urn:t" x="1"><a><d>2001-01-01</d></a><b y="2"><d>2001-01-01</d></b></root>']),
 "forwardref": (H+'''
<xs:complexType name="ForwardRef"><xs:sequence><xs:element name="d" type="xs:date" maxOccurs="unbounded"/></xs:sequence></xs:complexType>
<xs:element name="root"><xs:complexType><xs:sequence>
  <xs:element name="a" type="t:ForwardRef" maxOccurs="unbounded"/>
  <xs:element name="b" minOccurs="0"><xs:complexType><xs:choice maxOccurs="unbounded"><xs:element name="x" type="xs:int"/><xs:element name="y"><xs:complexType><xs:sequence><xs:element name="z" type="xs:string"/></xs:sequence></xs:complexType></xs:element></xs:choice></xs:complexType></xs:element>
</xs:sequence></xs:complexType></xs:element></xs:schema>''',
  ['<root xmlns="urn:t"><a><d>2001-01-01</d></a><b><x>1</x><y><z>q</z></y><x>2</x></b></root>']),
}
def gc(c): c.output.generic_collections=True
def fr(c): c.output.format.frozen=True
sel = sys.argv[1:] or list(cases)
for name in sel:
    xsd, docs = cases[name]
    for compound in (False, True):
      for conf in (None, gc, fr):
        print("=====", name, compound, conf)
        for p in check_xsd(xsd, docs, compound=compound, verbose=False, configure=conf):
            print("PROBLEM", p)
