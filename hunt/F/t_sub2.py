from harness import *
import sys
H='<xs:schema xmlns:xs="http://www.w3.org/2001/XMLSchema" xmlns:t="urn:t" targetNamespace="urn:t" elementFormDefault="qualified">'
xsd=H+'''
<xs:element name="head" type="xs:string"/>
<xs:element name="m1" type="xs:string" substitutionGroup="t:head"/>
<xs:element name="root"><xs:complexType><xs:sequence>
  <xs:element ref="t:head" maxOccurs="unbounded"/>
  <xs:element name="sep" type="xs:string"/>
  <xs:element ref="t:m1" minOccurs="0"/>
</xs:sequence></xs:complexType></xs:element></xs:schema>'''
mod,tmp,pkg=generate(xsd, compound=len(sys.argv)>1)
import inspect
print(inspect.getsource(mod.Root))
doc='<root xmlns="urn:t"><m1>1</m1><head>2</head><sep/><m1>3</m1></root>'
obj,out=roundtrip(mod,doc)
print(obj);print(out)
print(validate_xsd(xsd,out,base_dir=tmp))
