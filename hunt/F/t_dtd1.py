from harness import *
import sys
cases = {
 "tokens": ('''<!ELEMENT root (item*)>
<!ELEMENT item (#PCDATA)>
<!ATTLIST item ids IDREFS #IMPLIED toks NMTOKENS "a b" id ID #IMPLIED tok NMTOKEN "x" e CDATA "">
''', ['<root><item id="q" ids="q q" toks="1 2">x</item><item/></root>', '<root><item e=" a  b "> hi </item></root>']),
 "enum": ('''<!ELEMENT root (#PCDATA)>
<!ATTLIST root a (x|y|1|a-b|a_b|A.B) "x" b (x|None|True) #REQUIRED c (q) #FIXED "q">
''', ['<root b="None"/>', '<root a="a_b" b="True" c="q">t</root>', '<root a="A.B" b="x"/>', '<root a="1" b="x"/>']),
 "seqdup": ('''<!ELEMENT root (a, b, a)>
<!ELEMENT a (#PCDATA)>
<!ELEMENT b EMPTY>
''', ['<root><a>1</a><b/><a>2</a></root>']),
 "mixed": ('''<!ELEMENT root (#PCDATA|a|b)*>
<!ELEMENT a (#PCDATA)>
<!ELEMENT b EMPTY>
<!ATTLIST b k CDATA #IMPLIED>
''', ['<root>x<a>1</a>y<b k="1"/>z<a/></root>', '<root/>', '<root><a> </a></root>']),
 "any": ('''<!ELEMENT root ANY>
<!ATTLIST root k CDATA #IMPLIED>
<!ELEMENT a (#PCDATA)>
<!ELEMENT b EMPTY>
<!ATTLIST b k CDATA "d">
''', ['<root k="1">x<a>1</a>y<b k="1"/>z<a/></root>', '<root/>', '<root><b/></root>', '<root>text</root>']),
}
sel = sys.argv[1:] or list(cases)
for name in sel:
    dtd, docs = cases[name]
    for compound in (False, True):
        print("=====", name, compound)
        for p in check_dtd(dtd, docs, compound=compound, verbose=False):
            print("PROBLEM", p)
