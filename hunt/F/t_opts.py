from harness import *
import sys, itertools
from xsdata.models.config import StructureStyle, DocstringStyle
main='''<xs:schema xmlns:xs="http://www.w3.org/2001/XMLSchema" xmlns:t="urn:t" xmlns:o="urn:o:v1.0" targetNamespace="urn:t" elementFormDefault="qualified">
<xs:import namespace="urn:o:v1.0" schemaLocation="o.xsd"/>
<xs:include schemaLocation="inc.xsd"/>
<xs:complexType name="Node"><xs:annotation><xs:documentation>A "node" with \\ and """.
Second line: param x
:param foo: bar</xs:documentation></xs:annotation><xs:sequence>
  <xs:element name="child" type="t:Node" minOccurs="0" maxOccurs="unbounded"/>
  <xs:element name="other" type="o:Other" minOccurs="0"/>
  <xs:element name="item" minOccurs="0" maxOccurs="unbounded"><xs:complexType><xs:sequence>
     <xs:element name="item" minOccurs="0"><xs:complexType><xs:attribute name="kind"><xs:simpleType><xs:restriction base="xs:string"><xs:enumeration value="a"/><xs:enumeration value="b"/></xs:restriction></xs:simpleType></xs:attribute></xs:complexType></xs:element>
  </xs:sequence><xs:attribute name="kind" default="b"><xs:simpleType><xs:restriction base="xs:string"><xs:enumeration value="a"/><xs:enumeration value="b"/><xs:enumeration value="c"/></xs:restriction></xs:simpleType></xs:attribute></xs:complexType></xs:element>
  <xs:choice minOccurs="0" maxOccurs="unbounded"><xs:element name="p" type="xs:int"/><xs:element name="q" type="t:Inc"/><xs:element ref="o:oe"/></xs:choice>
</xs:sequence><xs:attribute name="ids" type="xs:IDREFS"/><xs:attribute name="dates"><xs:simpleType><xs:list itemType="xs:date"/></xs:simpleType></xs:attribute></xs:complexType>
<xs:element name="root" type="t:Node"/>
</xs:schema>'''
extra={"o.xsd":'''<xs:schema xmlns:xs="http://www.w3.org/2001/XMLSchema" xmlns:t="urn:t" xmlns:o="urn:o:v1.0" targetNamespace="urn:o:v1.0" elementFormDefault="qualified">
<xs:import namespace="urn:t" schemaLocation="schema.xsd"/>
<xs:complexType name="Other"><xs:sequence><xs:element name="back" type="t:Node" minOccurs="0"/><xs:element name="Node" type="xs:string" minOccurs="0"/></xs:sequence></xs:complexType>
<xs:complexType name="Node"><xs:sequence><xs:element name="n" type="xs:string"/></xs:sequence></xs:complexType>
<xs:element name="oe" type="o:Node"/>
</xs:schema>''', "inc.xsd": '''<xs:schema xmlns:xs="http://www.w3.org/2001/XMLSchema" xmlns:t="urn:t" targetNamespace="urn:t" elementFormDefault="qualified">
<xs:complexType name="Inc"><xs:sequence><xs:element name="v" type="xs:string" maxOccurs="unbounded"/></xs:sequence></xs:complexType></xs:schema>'''}
doc='''<root xmlns="urn:t" xmlns:o="urn:o:v1.0" ids="a b" dates="2001-01-01 2002-02-02"><child><other><o:back><p>1</p></o:back><o:Node>x</o:Node></other></child><item kind="c"><item kind="a"/></item><item/><p>1</p><q><v>a</v><v>b</v></q><o:oe><o:n>z</o:n></o:oe><p>2</p></root>'''
results={}
def mk(style, unnest, frozen, slots, generic, rel, ds):
    def conf(c):
        c.output.structure_style=style
        c.output.unnest_classes=unnest
        c.output.format.frozen=frozen
        c.output.format.slots=slots
        c.output.generic_collections=generic
        c.output.relative_imports=rel
        c.output.docstring_style=ds
    return conf
combos=[]
for style in StructureStyle:
    for unnest in (False,True):
        combos.append((style,unnest,False,False,False,False,DocstringStyle.RST))
        combos.append((style,unnest,True,True,True,True,DocstringStyle.GOOGLE))
for ds in DocstringStyle:
    combos.append((StructureStyle.FILENAMES,False,False,True,False,True,ds))
for compound in (False,True):
  for combo in combos:
    try:
        mod,tmp,pkg=generate(main,compound=compound,configure=mk(*combo),extra_files=extra)
        # find root class
        root=None
        import importlib, pkgutil
        def walk(m):
            yield m
            if hasattr(m,'__path__'):
                for info in pkgutil.walk_packages(m.__path__, m.__name__+'.'):
                    yield importlib.import_module(info.name)
        for m in walk(mod):
            if hasattr(m,'Root'): root=m.Root
        obj,out=roundtrip(mod,doc,clazz=root)
        ok,log=validate_xsd(main,out,base_dir=tmp)
        results[(compound,)+combo]=(canon(out),ok)
        print(compound,[str(getattr(x,'value',x)) for x in combo],"ok",ok, canon(out)==canon(doc))
    except Exception as e:
        import traceback; traceback.print_exc(limit=3)
        print(compound,[str(getattr(x,'value',x)) for x in combo],"FAIL",repr(e)[:300])
