"""C02: an empty (non-nil) nillable xs:string element comes back as xsi:nil="true".

<xs:element name="s" type="xs:string" nillable="true"/> ; the valid document <s/> has the value ""
(it is not nil).  The generated field is `None | str` with nillable metadata, the parser turns
the empty text into None and the serializer writes <s xsi:nil="true"/>: an xsi:nil attribute
is invented and the typed value "" becomes nil.  (The element is required and present, so this is
not the known absent-vs-nil ambiguity of optional elements.)
"""
import sys
from harness import generate, roundtrip, validate_xsd, canon

XSD = """<xs:schema xmlns:xs="http://www.w3.org/2001/XMLSchema" targetNamespace="urn:t" elementFormDefault="qualified">
<xs:element name="root"><xs:complexType><xs:sequence>
  <xs:element name="s" type="xs:string" nillable="true"/>
</xs:sequence></xs:complexType></xs:element></xs:schema>"""
DOC = '<root xmlns="urn:t"><s/></root>'
mod, tmp, pkg = generate(XSD)
assert validate_xsd(XSD, DOC, base_dir=tmp)[0]
obj, out = roundtrip(mod, DOC)
print(obj)
print(out)
if canon(DOC) != canon(out):
    print("VIOLATION: empty string element turned into a nil element")
    sys.exit(1)
sys.exit(0)
