"""C07: reserved-word handling (text.stop_words) misses builtin names the generated code
itself uses in annotations / default factories / decorators: `bytes`, `tuple`, `dataclass`.

A field called `bytes` (or `tuple` with frozen output) becomes a class attribute that shadows
the builtin for every later annotation in the same class: typing.get_type_hints resolves
`None | bytes` / `tuple[str, ...]` against the class namespace, so the class cannot be turned
into binding metadata; with `tuple` the default_factory of the following list field is the
dataclasses.Field object, so the class cannot even be instantiated.  A field called
`dataclass` shadows the decorator of the inner classes that follow it in the class body, so
the module does not import (TypeError: 'Field' object is not callable).
"""
from common import *

violated = False

print("=== 6a: element 'bytes' next to an xs:base64Binary element (default options)")
schema = xsd(
    '<xs:element name="attachment"><xs:complexType><xs:sequence>'
    '<xs:element name="bytes" type="xs:int" minOccurs="0"/>'
    '<xs:element name="content" type="xs:base64Binary" minOccurs="0"/>'
    "</xs:sequence></xs:complexType></xs:element>"
)
tmp, exc = generate({"a.xsd": schema}, package="gen6a")
if exc is not None:
    print(describe(exc))
    violated |= not isinstance(exc, CodegenError)
problems = bind_all(tmp, "gen6a")
print("\n".join(problems) or "ok")
violated |= bool(problems)

print("=== 6b: JSON sample with key 'tuple' and a list, frozen=True")
cfg = GeneratorConfig()
cfg.output.format.frozen = True
tmp, exc = generate({"doc.json": '{"tuple": "a", "items": [1, 2]}'}, cfg, package="gen6b")
if exc is not None:
    print(describe(exc))
    violated |= not isinstance(exc, CodegenError)
problems = bind_all(tmp, "gen6b")
print("\n".join(problems) or "ok")
violated |= bool(problems)

print("=== 6c: element 'dataclass' next to an element with an anonymous complex type")
schema = xsd(
    '<xs:element name="root"><xs:complexType><xs:sequence>'
    '<xs:element name="dataclass" type="xs:string" minOccurs="0"/>'
    '<xs:element name="inner"><xs:complexType><xs:sequence>'
    '<xs:element name="x" type="xs:string"/></xs:sequence></xs:complexType></xs:element>'
    "</xs:sequence></xs:complexType></xs:element>"
)
tmp, exc = generate({"a.xsd": schema}, package="gen6c")
if exc is not None:
    print(describe(exc))
    violated |= not isinstance(exc, CodegenError)
problems = bind_all(tmp, "gen6c")
print("\n".join(problems) or "ok")
violated |= bool(problems)

verdict(violated)
