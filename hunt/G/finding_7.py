"""C07: a generated class may get the same identifier as a name the module imports for its
own use (XmlDate, XmlDateTime, XmlTime, XmlDuration, XmlPeriod, Sequence, Mapping, ...):
only Decimal / QName / Enum / Any are reserved.  The class definition replaces the import,
so default values (`XmlDate(2001, 1, 1)`) call the generated class (module does not import)
and annotations (`Sequence[str]`) resolve to the generated class (no binding metadata).
"""
from common import *

violated = False

print("=== 7a: complexType 'XmlDate' + an xs:date element with a default")
schema = xsd(
    '<xs:complexType name="XmlDate"><xs:sequence><xs:element name="iso" type="xs:string"/>'
    "</xs:sequence></xs:complexType>"
    '<xs:element name="root"><xs:complexType><xs:sequence>'
    '<xs:element name="since" type="xs:date" default="2001-01-01"/>'
    '<xs:element name="custom" type="XmlDate"/>'
    "</xs:sequence></xs:complexType></xs:element>"
)
tmp, exc = generate({"a.xsd": schema}, package="gen7a")
if exc is not None:
    print(describe(exc))
    violated |= not isinstance(exc, CodegenError)
problems = bind_all(tmp, "gen7a")
print("\n".join(problems) or "ok")
violated |= bool(problems)

print("=== 7b: element 'sequence' with generic_collections")
cfg = GeneratorConfig()
cfg.output.generic_collections = True
schema = xsd(
    '<xs:element name="sequence"><xs:complexType><xs:sequence>'
    '<xs:element name="step" type="xs:string" maxOccurs="unbounded"/>'
    "</xs:sequence></xs:complexType></xs:element>"
)
tmp, exc = generate({"a.xsd": schema}, cfg, package="gen7b")
if exc is not None:
    print(describe(exc))
    violated |= not isinstance(exc, CodegenError)
problems = bind_all(tmp, "gen7b")
print("\n".join(problems) or "ok")
violated |= bool(problems)

verdict(violated)
