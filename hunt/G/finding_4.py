"""C07: a JSON sample with an empty-string key ({"": 1} is well-formed JSON) crashes the
generator with IndexError in namespaces.split_qname instead of generating a field with the
fallback name or raising CodegenError.
"""
from common import *

violated = False
for package, doc in {"gen4a": '{"": 1, "a": 2}', "gen4b": '{"items": [{"": {"x": 1}}]}'}.items():
    print("===", doc)
    tmp, exc = generate({"doc.json": doc}, package=package)
    if exc is not None:
        print(describe(exc))
        violated |= not isinstance(exc, CodegenError)
    else:
        problems = bind_all(tmp, package)
        print("\n".join(problems) or "ok")
        violated |= bool(problems)
verdict(violated)
