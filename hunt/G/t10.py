from common import *
import logging
logging.getLogger("xsdata").setLevel(logging.WARNING)
logging.basicConfig()
for i, doc in enumerate(['{"\\ud800": 1}', '{"a": "\\ud800"}', '{"a\\ud800": {"b": 1}}']):
    tmp, exc = generate({"doc.json": doc}, package=f"g10_{i}")
    print(doc, "->", describe(exc)[:1500] if exc else "no error")
    import os
    print(sorted(str(p.relative_to(tmp)) for p in tmp.rglob("*")))
