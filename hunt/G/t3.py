from harness import *
import sys
from xsdata.models.config import *
def X(body, tns=None, extra=""):
    t = f' targetNamespace="{tns}" xmlns:t="{tns}" elementFormDefault="qualified"' if tns else ""
    return f'<xs:schema xmlns:xs="http://www.w3.org/2001/XMLSchema"{t} {extra}>{body}</xs:schema>'
cands = {}
cands["field_bytes"] = (X('''<xs:element name="root"><xs:complexType><xs:sequence>
<xs:element name="bytes" type="xs:string" minOccurs="0"/>
<xs:element name="data" type="xs:base64Binary" minOccurs="0"/>
</xs:sequence></xs:complexType></xs:element>'''), None)
c = GeneratorConfig(); c.output.format.frozen = True
cands["field_tuple_frozen"] = (X('''<xs:element name="root"><xs:complexType><xs:sequence>
<xs:element name="tuple" type="xs:string" minOccurs="0"/>
<xs:element name="data" type="xs:string" maxOccurs="unbounded"/>
</xs:sequence></xs:complexType></xs:element>'''), c)
cands["class_XmlDate"] = (X('''<xs:complexType name="XmlDate"><xs:sequence><xs:element name="a" type="xs:string"/></xs:sequence></xs:complexType>
<xs:element name="root"><xs:complexType><xs:sequence>
<xs:element name="d" type="xs:date" default="2001-01-01"/>
<xs:element name="e" type="XmlDate"/>
</xs:sequence></xs:complexType></xs:element>'''), None)
c = GeneratorConfig(); c.output.generic_collections = True
cands["class_Sequence"] = (X('''<xs:complexType name="Sequence"><xs:sequence><xs:element name="a" type="xs:string" maxOccurs="unbounded"/></xs:sequence></xs:complexType>
<xs:element name="root"><xs:complexType><xs:sequence>
<xs:element name="e" type="Sequence" maxOccurs="3"/>
</xs:sequence></xs:complexType></xs:element>'''), c)
cands["field_dataclass_inner"] = (X('''<xs:element name="root"><xs:complexType><xs:sequence>
<xs:element name="dataclass" type="xs:string" minOccurs="0"/>
<xs:element name="inner"><xs:complexType><xs:sequence><xs:element name="x" type="xs:string"/></xs:sequence></xs:complexType></xs:element>
</xs:sequence></xs:complexType></xs:element>'''), None)
cands["pattern_Type"] = (X('''<xs:element name="root"><xs:complexType><xs:sequence>
<xs:element name="a"><xs:simpleType><xs:restriction base="xs:string"><xs:pattern value="Type[A-Z]"/></xs:restriction></xs:simpleType></xs:element>
</xs:sequence></xs:complexType></xs:element>'''), None)
c = GeneratorConfig(); c.output.docstring_style = DocstringStyle.ACCESSIBLE
cands["doc_Type"] = (X('''<xs:element name="root"><xs:complexType><xs:sequence>
<xs:element name="a" type="xs:string"><xs:annotation><xs:documentation>Type[str] of the thing</xs:documentation></xs:annotation></xs:element>
</xs:sequence></xs:complexType></xs:element>'''), c)
cands["ns_backslash"] = (X('''<xs:element name="root"><xs:complexType><xs:sequence>
<xs:element name="a" type="xs:string"/>
</xs:sequence></xs:complexType></xs:element>''', tns="urn:a\\xb"), None)
cands["class_ForwardRef"] = (X('''<xs:element name="ForwardRef"><xs:complexType><xs:choice maxOccurs="unbounded">
<xs:element name="a"><xs:complexType><xs:sequence><xs:element name="x" type="xs:string"/></xs:sequence></xs:complexType></xs:element>
<xs:element name="b" type="xs:int"/>
</xs:choice></xs:complexType></xs:element>'''), (lambda: (lambda c: (setattr(c.output, "compound_fields", CompoundFields(enabled=True)), c)[1])(GeneratorConfig()))())
cands["class_Type"] = (X('''<xs:element name="Type"><xs:complexType><xs:sequence><xs:element name="a" type="xs:string"/></xs:sequence></xs:complexType></xs:element>
<xs:element name="root"><xs:complexType><xs:choice maxOccurs="unbounded">
<xs:element ref="Type"/>
<xs:element name="b" type="xs:int"/>
</xs:choice></xs:complexType></xs:element>'''), (lambda: (lambda c: (setattr(c.output, "compound_fields", CompoundFields(enabled=True)), c)[1])(GeneratorConfig()))())
only = sys.argv[1:]
bad = 0
for k, (xsd, cfg) in cands.items():
    if only and k not in only: continue
    print("=====", k)
    res = run({"a.xsd": xsd}, cfg, show=bool(only))
    report(res)
