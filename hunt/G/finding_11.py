"""C07: enumeration member names that Python's Enum machinery rejects are not treated as
reserved.  With a case-preserving / lower-case constant naming convention (originalCase,
camelCase, snakeCase, mixedCase) the value `mro` gives `mro = "mro"` inside `class X(Enum)`
-> ValueError: invalid enum member name(s) 'mro'; a value like `_a_` (valid NMTOKEN/string)
with originalCase gives a _sunder_ name -> ValueError.  Generation dies with that
ValueError while validating its own output.
"""
from common import *
from xsdata.models.config import NameCase

violated = False


def enum_schema(values):
    members = "".join(f'<xs:enumeration value="{v}"/>' for v in values)
    return xsd(
        f'<xs:simpleType name="Method"><xs:restriction base="xs:string">{members}'
        '</xs:restriction></xs:simpleType><xs:element name="root" type="Method"/>'
    )


cases = [
    ("gen11a", NameCase.SNAKE, ["mro", "c3"]),
    ("gen11b", NameCase.CAMEL, ["mro", "c3"]),
    ("gen11c", NameCase.ORIGINAL, ["_a_", "b"]),
]
for package, case, values in cases:
    print("===", package, case.value, values)
    cfg = GeneratorConfig()
    cfg.conventions.constant_name.case = case
    tmp, exc = generate({"a.xsd": enum_schema(values)}, cfg, package=package)
    if exc is not None:
        print(describe(exc))
        violated |= not isinstance(exc, CodegenError)
    problems = bind_all(tmp, package)
    print("\n".join(problems) or "ok")
    violated |= bool(problems)
verdict(violated)
