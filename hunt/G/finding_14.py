"""C07: Attr.__post_init__ renames members whose name has no ASCII letter/digit with
`unicodedata.name(char)`, which raises ValueError("no such name") for characters that have
no Unicode name (TAB, LF, other controls, private-use and unassigned code points).

14a: an enumeration of delimiters `,` `;` TAB (value="&#9;") -> bare ValueError while the
     schema is being mapped.
14b: an XML sample with an element named U+FFF0 (a legal XML NameStartChar without a
     Unicode name) -> bare ValueError.
14c: a JSON sample with the key "\\t": the ValueError is swallowed by the `except ValueError`
     meant for JSON syntax errors, the whole document is dropped and NOTHING is generated,
     without any error (the output package does not exist afterwards).
"""
from common import *

violated = False

print("=== 14a")
schema = xsd(
    '<xs:simpleType name="Delimiter"><xs:restriction base="xs:string">'
    '<xs:enumeration value=","/><xs:enumeration value=";"/><xs:enumeration value="&#9;"/>'
    '</xs:restriction></xs:simpleType><xs:element name="root" type="Delimiter"/>'
)
tmp, exc = generate({"a.xsd": schema}, package="gen14a")
if exc is not None:
    print(describe(exc))
    violated |= not isinstance(exc, CodegenError)
else:
    print("\n".join(bind_all(tmp, "gen14a")) or "ok")

print("=== 14b")
tmp, exc = generate({"doc.xml": "<root><￰>1</￰></root>"}, package="gen14b")
if exc is not None:
    print(describe(exc))
    violated |= not isinstance(exc, CodegenError)
else:
    print("\n".join(bind_all(tmp, "gen14b")) or "ok")

print("=== 14c")
tmp, exc = generate({"doc.json": '{"\\t": 1, "a": 2}'}, package="gen14c")
if exc is not None:
    print(describe(exc))
    violated |= not isinstance(exc, CodegenError)
else:
    exists = (tmp / "gen14c").exists()
    print("no error raised; output package exists:", exists)
    violated |= not exists

verdict(violated)
