"""C07: well-formed JSON samples whose root is not an object (or an array of objects) -
an array of scalars, a nested array, a scalar, null - crash the generator with
AttributeError / TypeError from process_json_documents / DictMapper instead of being
skipped or reported with CodegenError.
"""
from common import *

violated = False
for i, doc in enumerate(["[1, 2]", "3", "null", '[[{"a": 1}]]', '[{"a": 1}, "x"]']):
    print("===", doc)
    tmp, exc = generate({"doc.json": doc}, package=f"gen5_{i}")
    if exc is not None:
        print(describe(exc))
        violated |= not isinstance(exc, CodegenError)
    else:
        print("generated without error")
verdict(violated)
