"""C07: two classes of one module with the same name, caused by module names (not class
names) colliding after the module naming convention.

With the default filenames structure the schemas `order-types.xsd` and `order_types.xsd`
(different target namespaces) are both written to module `order_types`.  Duplicate class
detection works on qualified names when there are several locations, so `{urn:one}Root` and
`{urn:two}Root` are both kept as `class Root` in the same module, and the package __init__
imports `Root` twice.  The first class is unreachable.  (The "different locations designated
to same module" warning compares the raw file names and does not fire either.)
"""
import ast

from common import *


def schema(ns, child):
    return (
        f'<xs:schema xmlns:xs="http://www.w3.org/2001/XMLSchema" targetNamespace="{ns}" '
        'elementFormDefault="qualified"><xs:element name="Root"><xs:complexType><xs:sequence>'
        f'<xs:element name="{child}" type="xs:string"/></xs:sequence></xs:complexType>'
        "</xs:element></xs:schema>"
    )


files = {"order-types.xsd": schema("urn:one", "x"), "order_types.xsd": schema("urn:two", "y")}
tmp, exc = generate(files, package="gen9")
violated = False
if exc is not None:
    print(describe(exc))
    violated = not isinstance(exc, CodegenError)
else:
    for path in sorted((tmp / "gen9").glob("*.py")):
        tree = ast.parse(path.read_text())
        classes = [n.name for n in tree.body if isinstance(n, ast.ClassDef)]
        dup = sorted({n for n in classes if classes.count(n) > 1})
        print(path.name, "top level classes:", classes, "duplicates:", dup)
        violated |= bool(dup)
    problems = bind_all(tmp, "gen9")
    print("\n".join(problems))
    violated |= bool(problems)
verdict(violated)
