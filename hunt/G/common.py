"""Shared helper for the finding scripts: run the generator in a fresh temp dir and
try to import / bind / instantiate everything that was generated."""
import dataclasses
import importlib
import logging
import os
import pkgutil
import sys
import tempfile
import traceback
from pathlib import Path

os.environ["PATH"] = "/verif/shims/bin:" + os.environ.get("PATH", "")
if "/verif/shims" not in sys.path:
    sys.path.insert(0, "/verif/shims")

from xsdata.codegen.exceptions import CodegenError  # noqa: E402
from xsdata.codegen.transformer import ResourceTransformer  # noqa: E402
from xsdata.formats.dataclass.context import XmlContext  # noqa: E402
from xsdata.models.config import GeneratorConfig  # noqa: E402

logging.getLogger("xsdata").setLevel(logging.CRITICAL)
BASE = Path("/tmp/hunt/G/tmp")
BASE.mkdir(parents=True, exist_ok=True)


def generate(files, config=None, package="generated", sources=None):
    """Write files in a new temp dir, run the generator there.

    Returns (tmpdir, exception-or-None)."""
    tmp = Path(tempfile.mkdtemp(prefix="f", dir=BASE))
    config = config or GeneratorConfig()
    config.output.package = package
    for name, content in files.items():
        path = tmp / name
        path.parent.mkdir(parents=True, exist_ok=True)
        path.write_text(content, encoding="utf-8")
    uris = [(tmp / n).as_uri() for n in (sources or files)]
    old = os.getcwd()
    os.chdir(tmp)
    try:
        ResourceTransformer(config=config).process(uris)
        return tmp, None
    except BaseException as exc:  # noqa: BLE001
        return tmp, exc
    finally:
        os.chdir(old)


def describe(exc):
    kind = "CodegenError (own error type)" if isinstance(exc, CodegenError) else "ARBITRARY EXCEPTION"
    last = traceback.format_exception(exc)[-4:]
    return f"{kind}: {type(exc).__name__}: {exc}\n" + "".join(last)


def show(tmp, package="generated"):
    root = tmp / package.split(".")[0]
    paths = sorted(root.rglob("*.py")) if root.is_dir() else []
    paths += sorted(tmp.glob("*.py"))
    for path in paths:
        print(f"----- {path.relative_to(tmp)}")
        print(path.read_text())


def bind_all(tmp, package="generated"):
    """Import every module, build binding metadata for and instantiate every class.

    Returns the list of problems."""
    problems = []
    sys.path.insert(0, str(tmp))
    importlib.invalidate_caches()
    mods = []
    try:
        root = importlib.import_module(package)
    except BaseException as exc:  # noqa: BLE001
        return [f"import {package}: {type(exc).__name__}: {exc}"]
    mods.append(root)
    if hasattr(root, "__path__"):
        for _, name, _ in pkgutil.walk_packages(root.__path__, root.__name__ + "."):
            try:
                mods.append(importlib.import_module(name))
            except BaseException as exc:  # noqa: BLE001
                problems.append(f"import {name}: {type(exc).__name__}: {exc}")
    ctx = XmlContext()
    seen = set()

    def visit(cls):
        if cls in seen:
            return
        seen.add(cls)
        if dataclasses.is_dataclass(cls):
            try:
                ctx.build(cls)
            except BaseException as exc:  # noqa: BLE001
                problems.append(f"binding metadata for {cls.__qualname__}: {type(exc).__name__}: {exc}")
            try:
                kwargs = {
                    f.name: None
                    for f in dataclasses.fields(cls)
                    if f.init
                    and f.default is dataclasses.MISSING
                    and f.default_factory is dataclasses.MISSING
                }
                cls(**kwargs)
            except BaseException as exc:  # noqa: BLE001
                problems.append(f"instantiate {cls.__qualname__}: {type(exc).__name__}: {exc}")
        for val in list(vars(cls).values()):
            if isinstance(val, type) and val.__qualname__.startswith(cls.__qualname__ + "."):
                visit(val)

    for mod in mods:
        for val in list(vars(mod).values()):
            if isinstance(val, type) and val.__module__ == mod.__name__:
                visit(val)
    return problems


def xsd(body, tns=None, extra=""):
    t = f' targetNamespace="{tns}" xmlns:t="{tns}" elementFormDefault="qualified"' if tns else ""
    return f'<xs:schema xmlns:xs="http://www.w3.org/2001/XMLSchema"{t} {extra}>{body}</xs:schema>'


def verdict(violated):
    print()
    print("VIOLATION" if violated else "no violation")
    sys.exit(1 if violated else 0)
