"""C07: class.jinja2 / module.jinja2 interpolate names and namespaces into string
literals without escaping (`name = "{{ local_name }}"`, `namespace = "{{ obj.namespace }}"`,
`__NAMESPACE__ = "{{ namespace }}"`).  A double quote or a backslash in a JSON key or in a
namespace URI gives a module that does not compile (or silently a different string).
"""
from common import *

violated = False


def check(label, files, package, **kw):
    global violated
    print("===", label)
    tmp, exc = generate(files, package=package, **kw)
    if exc is not None:
        print(describe(exc))
        violated |= not isinstance(exc, CodegenError)
    problems = bind_all(tmp, package)
    print("\n".join(problems))
    violated |= bool(problems)
    return tmp


# 2a: JSON sample, nested object under a key containing a double quote
check("2a json key with a double quote", {"doc.json": '{"5\\" pipe": {"length": 1}}'}, "gen2a")

# 2b: schema whose targetNamespace contains backslashes (anyURI allows it)
schema = xsd(
    '<xs:element name="root"><xs:complexType><xs:sequence>'
    '<xs:element name="a" type="xs:string"/></xs:sequence></xs:complexType></xs:element>',
    tns="urn:corp:C:\\schemas\\users",
)
check("2b targetNamespace with backslashes", {"a.xsd": schema}, "gen2b")

# 2c: XML sample document in a namespace that contains a double quote
doc = """<root xmlns='urn:"quoted"'><a>1</a></root>"""
check("2c xml sample namespace with a double quote", {"doc.xml": doc}, "gen2c")

verdict(violated)
