from common import *
for i, doc in enumerate(['[1, 2]', '3', '"str"', 'null', '[]', '{}', '[[{"a":1}]]', 'true', '[{"a":1}, 2]', '{"a": {}}', '{"a": [{}]}', '{"a": [[]]}', '{"a":{"a":{"a":1}}}']):
    print("===", doc)
    tmp, exc = generate({"doc.json": doc}, package=f"g8_{i}")
    if exc is not None:
        print(describe(exc)[:600])
    else:
        print("\n".join(bind_all(tmp, f"g8_{i}")) or "ok")
