"""Usage: seedrun.py <outdir> <style> <compound> <src...>; prints sha of the generated tree."""
import hashlib, os, sys, logging
from pathlib import Path
os.environ["PATH"] = "/verif/shims/bin:" + os.environ.get("PATH", "")
sys.path.insert(0, "/verif/shims")
from xsdata.codegen.transformer import ResourceTransformer
from xsdata.models.config import GeneratorConfig, StructureStyle
logging.getLogger("xsdata").setLevel(logging.CRITICAL)
out, style, compound, unnest = sys.argv[1:5]
srcs = sys.argv[5:]
Path(out).mkdir(parents=True, exist_ok=True)
os.chdir(out)
cfg = GeneratorConfig()
cfg.output.package = "gen"
cfg.output.structure_style = StructureStyle(style)
cfg.output.compound_fields.enabled = compound == "1"
cfg.output.unnest_classes = unnest == "1"
try:
    ResourceTransformer(config=cfg).process([Path(s).as_uri() for s in srcs])
except BaseException as e:
    print("ERR", type(e).__name__, e)
h = hashlib.sha256()
for p in sorted(Path(out).rglob("*.py")):
    h.update(str(p.relative_to(out)).encode()); h.update(p.read_bytes())
print(h.hexdigest())
