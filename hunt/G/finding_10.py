"""C07: with the namespaces structure style a module and a package can get the same dotted
name, which makes the module file unimportable (the package directory always wins).

10a: a no-namespace schema that imports a namespaced one: the no-namespace classes go to
     module `<package>` itself (file gen10a.py in the cwd, plus an `__init__.py` written into
     the cwd, outside the output package) while namespace urn:b goes to gen10a/b.py.
     `import gen10a` gives the directory; gen10a.py, which holds `Root`, can never be imported.
10b: namespaces urn:a and urn:a:b: module gen10b/a.py next to package gen10b/a/.
     `from gen10b.a import Root` returns the urn:a:b class; the urn:a classes are unreachable.
The generator's own import validation does not notice, generation "succeeds".
"""
import importlib

from common import *
from xsdata.models.config import StructureStyle


def check(tmp, package):
    """Import every generated file under its dotted name and compare __file__."""
    bad = []
    sys.path.insert(0, str(tmp))
    importlib.invalidate_caches()
    for path in sorted(tmp.rglob("*.py")):
        rel = path.relative_to(tmp).with_suffix("")
        parts = list(rel.parts)
        if parts[-1] == "__init__":
            parts.pop()
        if not parts:
            print(f"  stray file written outside the package: {path.relative_to(tmp)}")
            continue
        dotted = ".".join(parts)
        try:
            mod = importlib.import_module(dotted)
        except BaseException as exc:  # noqa: BLE001
            bad.append(f"{dotted}: {type(exc).__name__}: {exc}")
            continue
        actual = Path(mod.__file__)
        if actual != path:
            bad.append(
                f"{path.relative_to(tmp)} is not importable: `import {dotted}` loads "
                f"{actual.relative_to(tmp)} instead"
            )
    return bad


violated = False

cfg = GeneratorConfig()
cfg.output.structure_style = StructureStyle.NAMESPACES
files = {
    "main.xsd": xsd(
        '<xs:import namespace="urn:b" schemaLocation="b.xsd"/>'
        '<xs:element name="root"><xs:complexType><xs:sequence><xs:element ref="b:item"/>'
        "</xs:sequence></xs:complexType></xs:element>",
        extra='xmlns:b="urn:b"',
    ),
    "b.xsd": xsd(
        '<xs:element name="item"><xs:complexType><xs:attribute name="x"/></xs:complexType>'
        "</xs:element>",
        tns="urn:b",
    ),
}
print("=== 10a")
tmp, exc = generate(files, cfg, package="gen10a", sources=["main.xsd"])
if exc is not None:
    print(describe(exc))
    violated |= not isinstance(exc, CodegenError)
else:
    bad = check(tmp, "gen10a")
    print("\n".join(bad) or "ok")
    violated |= bool(bad)
    mod = importlib.import_module("gen10a")
    print("gen10a has Root:", hasattr(mod, "Root"))

print("=== 10b")
cfg = GeneratorConfig()
cfg.output.structure_style = StructureStyle.NAMESPACES
one = xsd('<xs:element name="Root"><xs:complexType><xs:attribute name="x"/></xs:complexType></xs:element>', tns="urn:a")
two = xsd('<xs:element name="Root"><xs:complexType><xs:attribute name="y"/></xs:complexType></xs:element>', tns="urn:a:b")
tmp, exc = generate({"one.xsd": one, "two.xsd": two}, cfg, package="gen10b")
if exc is not None:
    print(describe(exc))
    violated |= not isinstance(exc, CodegenError)
else:
    bad = check(tmp, "gen10b")
    print("\n".join(bad) or "ok")
    violated |= bool(bad)

verdict(violated)
