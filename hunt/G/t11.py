from common import *
schema = xsd('<xs:simpleType name="Delimiter"><xs:restriction base="xs:string"><xs:enumeration value=","/><xs:enumeration value=";"/><xs:enumeration value="&#9;"/></xs:restriction></xs:simpleType><xs:element name="root" type="Delimiter"/>')
tmp, exc = generate({"a.xsd": schema}, package="g11a")
print(describe(exc) if exc else "\n".join(bind_all(tmp, "g11a")) or "ok")
# XML sample: element/attribute names can't be control chars. but private-use chars? NameStartChar includes [#xF900-#xFDCF] | [#xFDF0-#xFFFD] - includes U+FDF0.. and U+FFF0? 
doc = '<root><￰>1</￰></root>'
tmp, exc = generate({"doc.xml": doc}, package="g11b")
print(describe(exc) if exc else "\n".join(bind_all(tmp, "g11b")) or "ok")
# DTD attr enumeration? json key
tmp, exc = generate({"doc.json": '{"\\t": 1, "a": 2}'}, package="g11c")
print(describe(exc) if exc else "\n".join(bind_all(tmp, "g11c")) or "ok")
print(sorted(str(p.relative_to(tmp)) for p in tmp.rglob("*")))
