from harness import *
import logging
logging.basicConfig(level=logging.DEBUG)
logging.getLogger("xsdata").setLevel(logging.DEBUG)
from xsdata.models.config import *
def S(ns, body, imports=""):
    return f'<xs:schema xmlns:xs="http://www.w3.org/2001/XMLSchema" targetNamespace="{ns}" xmlns:t="{ns}" elementFormDefault="qualified" {body}</xs:schema>'
root = '<xs:element name="Root"><xs:complexType><xs:sequence><xs:element name="%s" type="xs:string"/></xs:sequence></xs:complexType></xs:element>'
c = GeneratorConfig(); c.output.structure_style = StructureStyle.NAMESPACES
res = run({
 "a.xsd": S("urn:a", ">" + root % "x"),
 "b.xsd": S("urn:a:b", ">" + root % "y"),
}, c, show=True)
report(res)
