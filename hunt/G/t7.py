from harness import *
import sys
from xsdata.models.config import *
only = sys.argv[1:]
def go(name, files, cfg=None, sources=None):
    if only and name not in only: return
    print("=====", name)
    res = run(files, cfg, show=bool(only), sources=sources)
    report(res)
    return res
def X(body, tns=None, extra=""):
    t = f' targetNamespace="{tns}" xmlns:t="{tns}" elementFormDefault="qualified"' if tns else ""
    return f'<xs:schema xmlns:xs="http://www.w3.org/2001/XMLSchema"{t} {extra}>{body}</xs:schema>'
def conv(**kw):
    c = GeneratorConfig()
    for k,v in kw.items():
        getattr(c.conventions, k).case = v
    return c
enum = lambda vals: X('<xs:simpleType name="E"><xs:restriction base="xs:string">' + "".join(f'<xs:enumeration value="{v}"/>' for v in vals) + '</xs:restriction></xs:simpleType><xs:element name="root" type="E"/>')
go("enum_mro_orig", {"a.xsd": enum(["mro", "x"])}, conv(constant_name=NameCase.ORIGINAL))
go("enum_sunder_orig", {"a.xsd": enum(["_a_", "x"])}, conv(constant_name=NameCase.ORIGINAL))
go("enum_name_value_orig", {"a.xsd": enum(["name", "value", "_value_", "_name_"])}, conv(constant_name=NameCase.ORIGINAL))
go("enum_dunder_orig", {"a.xsd": enum(["__a__", "__class__"])}, conv(constant_name=NameCase.ORIGINAL))
go("enum_mro_mixed", {"a.xsd": enum(["mro", "x"])}, conv(constant_name=NameCase.MIXED))
go("enum_mro_camel", {"a.xsd": enum(["mro", "x"])}, conv(constant_name=NameCase.CAMEL))
go("enum_mro_snake", {"a.xsd": enum(["mro", "x"])}, conv(constant_name=NameCase.SNAKE))
dund = X('<xs:element name="root"><xs:complexType>' + "".join(f'<xs:attribute name="{n}" type="xs:string"/>' for n in ["__slots__"]) + '</xs:complexType></xs:element>')
go("field_slots_orig", {"a.xsd": dund}, conv(field_name=NameCase.ORIGINAL))
for n in ["__init__","__annotations__","__dataclass_fields__","__post_init__","__class__","__dict__","__eq__","__doc__","__module__", "__match_args__", "__hash__", "__repr__", "__setattr__", "__x", "_"]:
    d = X(f'<xs:element name="root"><xs:complexType><xs:attribute name="{n}" type="xs:string"/><xs:attribute name="b" type="xs:string"/></xs:complexType></xs:element>')
    go("field_%s_orig" % n, {"a.xsd": d}, conv(field_name=NameCase.ORIGINAL))
# no-namespace + namespaces style
c = GeneratorConfig(); c.output.structure_style = StructureStyle.NAMESPACES
go("nons_imports_ns", {
  "main.xsd": X('<xs:import namespace="urn:b" schemaLocation="b.xsd"/><xs:element name="root"><xs:complexType><xs:sequence><xs:element ref="b:item"/></xs:sequence></xs:complexType></xs:element>', extra='xmlns:b="urn:b"'),
  "b.xsd": X('<xs:element name="item" type="xs:string"/><xs:element name="item2"><xs:complexType><xs:attribute name="x"/></xs:complexType></xs:element>', tns="urn:b"),
}, c, sources=["main.xsd"])
c = GeneratorConfig(); c.output.structure_style = StructureStyle.NAMESPACES
go("ns_imports_nons", {
  "main.xsd": X('<xs:import schemaLocation="b.xsd"/><xs:element name="root"><xs:complexType><xs:sequence><xs:element ref="item2"/></xs:sequence></xs:complexType></xs:element>', tns="urn:a"),
  "b.xsd": X('<xs:element name="item2"><xs:complexType><xs:attribute name="x"/></xs:complexType></xs:element>'),
}, c, sources=["main.xsd"])
