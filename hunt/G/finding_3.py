"""C07: WSDL service classes: Filters.constant_value renders `f'"{attr.default}"'` without
escaping.  A soapAction / location containing a double quote or a backslash (e.g. the very
common quoted SOAPAction form) produces a module that does not compile.
"""
from common import *

WSDL = """<definitions xmlns:soap="http://schemas.xmlsoap.org/wsdl/soap/" xmlns:tns="http://hello/"
 xmlns:xsd="http://www.w3.org/2001/XMLSchema" xmlns="http://schemas.xmlsoap.org/wsdl/"
 targetNamespace="http://hello/" name="S">
 <types><xsd:schema targetNamespace="http://hello/" elementFormDefault="qualified">
   <xsd:element name="Req"><xsd:complexType><xsd:sequence><xsd:element name="a" type="xsd:string"/></xsd:sequence></xsd:complexType></xsd:element>
   <xsd:element name="Res"><xsd:complexType><xsd:sequence><xsd:element name="b" type="xsd:string"/></xsd:sequence></xsd:complexType></xsd:element>
 </xsd:schema></types>
 <message name="In"><part name="p" element="tns:Req"/></message>
 <message name="Out"><part name="p" element="tns:Res"/></message>
 <portType name="PT"><operation name="op"><input message="tns:In"/><output message="tns:Out"/></operation></portType>
 <binding name="B" type="tns:PT">
  <soap:binding transport="http://schemas.xmlsoap.org/soap/http" style="document"/>
  <operation name="op"><soap:operation soapAction=%s/>
    <input><soap:body use="literal"/></input><output><soap:body use="literal"/></output></operation>
 </binding>
 <service name="S"><port name="P" binding="tns:B"><soap:address location=%s/></port></service>
</definitions>"""

violated = False
cases = {
    "gen3ok": ('"urn:op"', '"http://localhost/ws"'),
    "gen3a": ("'\"urn:op\"'", '"http://localhost/ws"'),  # soapAction='"urn:op"'
    "gen3b": ('"urn:op"', '"file:\\\\server\\users\\ws"'),  # backslashes in location
}
for package, (action, location) in cases.items():
    print("===", package, "soapAction=" + action, "location=" + location)
    tmp, exc = generate({"s.wsdl": WSDL % (action, location)}, package=package)
    if exc is not None:
        print(describe(exc))
        violated |= not isinstance(exc, CodegenError)
    problems = bind_all(tmp, package)
    print("\n".join(problems) or "ok")
    violated |= bool(problems)

verdict(violated)
