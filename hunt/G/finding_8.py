"""C07: import aliases can collide (resolver.DependenciesResolver.resolve_conflicts).

When a module imports two same-named classes, the alias prefix is built from the module path
parts that the two sources do NOT share (`set(parts) - set(other parts)`).  If the two module
paths consist of the same parts in a different order (namespaces http://a.b/ and http://b.a/
with the namespaces structure style give gen.b.a and gen.a.b) the difference is empty, both
aliases are `:Root`, and the module ends up with
    from gen.a.b import Root as Root
    from gen.b.a import Root as Root
i.e. two classes of the module under one name; the second silently replaces the first and
both fields of the referring class are bound to the same class.
"""
import ast
import importlib
import typing

from common import *
from xsdata.models.config import StructureStyle


def schema(ns, body, extra=""):
    return (
        f'<xs:schema xmlns:xs="http://www.w3.org/2001/XMLSchema" targetNamespace="{ns}" '
        f'elementFormDefault="qualified" {extra}>{body}</xs:schema>'
    )


root = (
    '<xs:element name="Root"><xs:complexType><xs:sequence>'
    '<xs:element name="%s" type="xs:string"/></xs:sequence></xs:complexType></xs:element>'
)
files = {
    "a.xsd": schema("http://a.b/", root % "x"),
    "b.xsd": schema("http://b.a/", root % "y"),
    "c.xsd": schema(
        "http://c/",
        '<xs:import namespace="http://a.b/" schemaLocation="a.xsd"/>'
        '<xs:import namespace="http://b.a/" schemaLocation="b.xsd"/>'
        '<xs:element name="Top"><xs:complexType><xs:sequence>'
        '<xs:element ref="a:Root"/><xs:element ref="b:Root"/>'
        "</xs:sequence></xs:complexType></xs:element>",
        'xmlns:a="http://a.b/" xmlns:b="http://b.a/"',
    ),
}
cfg = GeneratorConfig()
cfg.output.structure_style = StructureStyle.NAMESPACES
tmp, exc = generate(files, cfg, package="gen8", sources=["c.xsd"])
violated = False
if exc is not None:
    print(describe(exc))
    violated = not isinstance(exc, CodegenError)
else:
    src = (tmp / "gen8/c.py").read_text()
    print(src)
    names = [
        alias.asname or alias.name
        for node in ast.parse(src).body
        if isinstance(node, ast.ImportFrom)
        for alias in node.names
    ]
    dup = {n for n in names if names.count(n) > 1}
    print("imported names:", names, "duplicates:", dup)
    problems = bind_all(tmp, "gen8")
    print("\n".join(problems))
    mod = importlib.import_module("gen8.c")
    hints = typing.get_type_hints(mod.Top)
    print("Top field types:", hints)
    same = len({id(v) for v in hints.values()}) == 1
    print("both fields bound to the same class:", same)
    violated = bool(dup) or bool(problems)
verdict(violated)
