from harness import *
xsd = '''<xs:schema xmlns:xs="http://www.w3.org/2001/XMLSchema">
<xs:element name="root"><xs:complexType><xs:sequence>
<xs:element name="a" type="xs:string"/>
<xs:element name="class" type="xs:int" minOccurs="0"/>
</xs:sequence><xs:attribute name="x" type="xs:gYear" default="2001"/></xs:complexType></xs:element>
</xs:schema>'''
res = run({"a.xsd": xsd}, show=True)
report(res)
