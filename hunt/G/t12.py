from common import *
from xsdata.models.config import *
import itertools
dtds = {
 "basic": '<!ELEMENT root (a, b*, (c|d)+)><!ELEMENT a (#PCDATA)><!ELEMENT b EMPTY><!ELEMENT c ANY><!ELEMENT d (#PCDATA|a|b)*><!ATTLIST root x (1|2|-|.) "1" y CDATA #FIXED "q&quot;\\" z NMTOKENS #IMPLIED xml:lang (en|fr) #IMPLIED lang (en|de) "en">',
 "undeclared_child": '<!ELEMENT root (a, zz)><!ELEMENT a (#PCDATA)>',
 "attr_only": '<!ELEMENT root EMPTY><!ATTLIST root id ID #REQUIRED ref IDREFS #IMPLIED ent ENTITY #IMPLIED ents ENTITIES #IMPLIED>',
 "notation": '<!NOTATION gif SYSTEM "gif"><!ELEMENT root EMPTY><!ATTLIST root n NOTATION (gif) #IMPLIED>',
 "attr_no_element": '<!ATTLIST ghost a CDATA #IMPLIED><!ELEMENT root (#PCDATA)>',
 "prefix": '<!ELEMENT x:root (x:a)><!ELEMENT x:a (#PCDATA)><!ATTLIST x:root xmlns:x CDATA #FIXED "urn:x" x:b CDATA #IMPLIED b CDATA #IMPLIED>',
 "same_enum_2attrs": '<!ELEMENT root EMPTY><!ATTLIST root a-b (x|y) "x" a_b (y|z) "z" a.b (q) #IMPLIED>',
 "value_elem": '<!ELEMENT root (#PCDATA|value)*><!ELEMENT value (#PCDATA)><!ATTLIST root value CDATA #IMPLIED>',
 "recursive": '<!ELEMENT root (root*, a?)><!ELEMENT a (root|a)*>',
 "enum_default_list": '<!ELEMENT root EMPTY><!ATTLIST root a (a|A|a-|-a) "a">',
 "self_named_attr": '<!ELEMENT root (root2)><!ELEMENT root2 EMPTY><!ATTLIST root root2 (u|v) "u">',
 "nested_groups": '<!ELEMENT root ((a,b)|(c,d))*><!ELEMENT a EMPTY><!ELEMENT b EMPTY><!ELEMENT c EMPTY><!ELEMENT d EMPTY>',
 "dup_in_seq": '<!ELEMENT root (a, b, a)><!ELEMENT a EMPTY><!ELEMENT b EMPTY>',
 "pcdata_only_attr_value": '<!ELEMENT root (#PCDATA)><!ATTLIST root value CDATA "x" Value CDATA "y">',
 "default_tokens": '<!ELEMENT root EMPTY><!ATTLIST root t NMTOKENS "a b  c" i IDREFS "x y">',
}
n = 0
for name, dtd in dtds.items():
    for cf, un, fr in [(False, False, False), (True, True, True), (True, False, False), (False, True, False)]:
        n += 1
        cfg = GeneratorConfig(); cfg.output.compound_fields.enabled = cf; cfg.output.unnest_classes = un; cfg.output.format.frozen = fr
        tmp, exc = generate({"a.dtd": dtd}, cfg, package=f"g12_{n}")
        if exc is not None:
            print(name, cf, un, fr, describe(exc)[:1200])
        else:
            p = bind_all(tmp, f"g12_{n}")
            if p: print(name, cf, un, fr, p)
print("done")
