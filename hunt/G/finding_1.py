"""C07: Filters.format_string sniffs the *content* of metadata strings.

Any metadata string that starts with `Type[`, `ForwardRef(` or `Literal[...]` is emitted
as raw code instead of a string literal.  These prefixes are meant for the generator's own
type placeholders, but user supplied strings (pattern facets, documentation in the
Accessible docstring style, element names from JSON samples) go through the same function.
"""
from common import *
from xsdata.models.config import DocstringStyle

violated = False

print("=== 1a: xs:pattern value 'Type[A-Z][0-9]+' (a perfectly ordinary regex)")
schema = xsd(
    '<xs:element name="root"><xs:complexType><xs:sequence>'
    '<xs:element name="code"><xs:simpleType><xs:restriction base="xs:string">'
    '<xs:pattern value="Type[A-Z][0-9]+"/></xs:restriction></xs:simpleType></xs:element>'
    "</xs:sequence></xs:complexType></xs:element>"
)
tmp, exc = generate({"a.xsd": schema}, package="gen1a")
if exc is not None:
    print(describe(exc))
    violated |= not isinstance(exc, CodegenError)
problems = bind_all(tmp, "gen1a")
print("\n".join(problems))
violated |= bool(problems)
print([line for line in (tmp / "gen1a/a.py").read_text().splitlines() if "pattern" in line])

print("=== 1b: documentation starting with 'Type[' + Accessible docstring style")
cfg = GeneratorConfig()
cfg.output.docstring_style = DocstringStyle.ACCESSIBLE
schema = xsd(
    '<xs:element name="root"><xs:complexType><xs:sequence>'
    '<xs:element name="a" type="xs:string"><xs:annotation><xs:documentation>'
    "Type[str] of the thing</xs:documentation></xs:annotation></xs:element>"
    "</xs:sequence></xs:complexType></xs:element>"
)
tmp, exc = generate({"a.xsd": schema}, cfg, package="gen1b")
if exc is not None:
    print(describe(exc))
    violated |= not isinstance(exc, CodegenError)
problems = bind_all(tmp, "gen1b")
print("\n".join(problems))
violated |= bool(problems)

print("=== 1c: JSON sample with the key 'ForwardRef(x'")
tmp, exc = generate({"doc.json": '{"ForwardRef(x": 1}'}, package="gen1c")
if exc is not None:
    print(describe(exc))
    violated |= not isinstance(exc, CodegenError)
problems = bind_all(tmp, "gen1c")
print("\n".join(problems))
violated |= bool(problems)

verdict(violated)
