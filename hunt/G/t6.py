from harness import *
import sys
from xsdata.models.config import *
def S(ns, body, imports=""):
    return f'<xs:schema xmlns:xs="http://www.w3.org/2001/XMLSchema" targetNamespace="{ns}" xmlns:t="{ns}" elementFormDefault="qualified" {body}</xs:schema>'
root = '<xs:element name="Root"><xs:complexType><xs:sequence><xs:element name="%s" type="xs:string"/></xs:sequence></xs:complexType></xs:element>'
only = sys.argv[1:]
def go(name, files, cfg=None, sources=None):
    if only and name not in only: return
    print("=====", name)
    res = run(files, cfg, show=bool(only), sources=sources)
    report(res)
    return res
# 1: alias collision
c = GeneratorConfig(); c.output.structure_style = StructureStyle.NAMESPACES
go("alias", {
 "a.xsd": S("http://a.b/", ">" + root % "x"),
 "b.xsd": S("http://b.a/", ">" + root % "y"),
 "c.xsd": S("http://c/", 'xmlns:a="http://a.b/" xmlns:b="http://b.a/"><xs:import namespace="http://a.b/" schemaLocation="a.xsd"/><xs:import namespace="http://b.a/" schemaLocation="b.xsd"/>'
   '<xs:element name="Top"><xs:complexType><xs:sequence><xs:element ref="a:Root"/><xs:element ref="b:Root"/></xs:sequence></xs:complexType></xs:element>'),
}, c, sources=["c.xsd"])
# 2: filenames modules collapse
go("modcollapse", {
 "a-b.xsd": S("urn:one", ">" + root % "x"),
 "a_b.xsd": S("urn:two", ">" + root % "y"),
})
# 3: namespaces collapse
c = GeneratorConfig(); c.output.structure_style = StructureStyle.NAMESPACES
go("nscollapse", {
 "a.xsd": S("urn:a-b", ">" + root % "x"),
 "b.xsd": S("urn:a_b", ">" + root % "y"),
}, c)
# 4: module vs package
c = GeneratorConfig(); c.output.structure_style = StructureStyle.NAMESPACES
go("modpkg", {
 "a.xsd": S("urn:a", ">" + root % "x"),
 "b.xsd": S("urn:a:b", ">" + root % "y"),
}, c)
