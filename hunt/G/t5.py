from harness import *
import sys
W = '''<definitions xmlns:soap="http://schemas.xmlsoap.org/wsdl/soap/" xmlns:tns="http://hello/"
 xmlns:xsd="http://www.w3.org/2001/XMLSchema" xmlns="http://schemas.xmlsoap.org/wsdl/" targetNamespace="http://hello/" name="S">
 <types><xsd:schema targetNamespace="http://hello/" elementFormDefault="qualified">
   <xsd:element name="Req"><xsd:complexType><xsd:sequence><xsd:element name="a" type="xsd:string"/></xsd:sequence></xsd:complexType></xsd:element>
   <xsd:element name="Res"><xsd:complexType><xsd:sequence><xsd:element name="b" type="xsd:string"/></xsd:sequence></xsd:complexType></xsd:element>
 </xsd:schema></types>
 <message name="In"><part name="p" element="tns:Req"/></message>
 <message name="Out"><part name="p" element="tns:Res"/></message>
 <portType name="PT"><operation name="op"><input message="tns:In"/><output message="tns:Out"/></operation></portType>
 <binding name="B" type="tns:PT">
  <soap:binding transport="http://schemas.xmlsoap.org/soap/http" style="document"/>
  <operation name="op"><soap:operation soapAction=%s/>
    <input><soap:body use="literal"/></input><output><soap:body use="literal"/></output></operation>
 </binding>
 <service name="S"><port name="P" binding="tns:B"><soap:address location=%s/></port></service>
</definitions>'''
cands = {
 "plain": ('"urn:x"', '"http://x/y"'),
 "quote": ("'urn:\"x\"'", '"http://x/y"'),
 "backslash": ('"urn:x"', '"http://x/\\y\\N"'),
}
only = sys.argv[1:]
for k,(a,l) in cands.items():
    if only and k not in only: continue
    print("=====",k)
    res = run({"s.wsdl": W % (a,l)}, show=bool(only))
    report(res)
