"""Common harness: generate code from sources in a fresh temp dir, import, bind, instantiate."""
import dataclasses
import importlib
import logging
import os
import pkgutil
import shutil
import sys
import tempfile
import traceback
from pathlib import Path

os.environ["PATH"] = "/verif/shims/bin:" + os.environ.get("PATH", "")
if "/verif/shims" not in sys.path:
    sys.path.insert(0, "/verif/shims")

from xsdata.codegen.exceptions import CodegenError  # noqa
from xsdata.codegen.transformer import ResourceTransformer  # noqa
from xsdata.formats.dataclass.context import XmlContext  # noqa
from xsdata.models.config import GeneratorConfig  # noqa

logging.getLogger("xsdata").setLevel(logging.ERROR)

_counter = [0]


def generate(files: dict, config: GeneratorConfig = None, package=None, sources=None):
    """Return (tmpdir, package, error). files: name->content."""
    _counter[0] += 1
    tmp = Path(tempfile.mkdtemp(prefix="g", dir="/tmp/hunt/G/tmp"))
    package = package or f"gen{os.getpid()}x{_counter[0]}"
    config = config or GeneratorConfig()
    config.output.package = package
    for name, content in files.items():
        p = tmp / name
        p.parent.mkdir(parents=True, exist_ok=True)
        if isinstance(content, bytes):
            p.write_bytes(content)
        else:
            p.write_text(content, encoding="utf-8")
    uris = [(tmp / n).as_uri() for n in (sources or files)]
    old = os.getcwd()
    os.chdir(tmp)
    try:
        t = ResourceTransformer(config=config)
        t.process(uris)
        return tmp, package, None
    except BaseException as e:  # noqa
        return tmp, package, e
    finally:
        os.chdir(old)


def check_package(tmp, package):
    """Import all modules, build metadata, instantiate. Return list of problems."""
    problems = []
    sys.path.insert(0, str(tmp))
    importlib.invalidate_caches()
    mods = []
    try:
        root = importlib.import_module(package)
        mods.append(root)
        if hasattr(root, "__path__"):
            for _, name, _ in pkgutil.walk_packages(root.__path__, root.__name__ + "."):
                try:
                    mods.append(importlib.import_module(name))
                except BaseException as e:
                    problems.append(f"import {name}: {type(e).__name__}: {e}")
    except BaseException as e:
        problems.append(f"import {package}: {type(e).__name__}: {e}")
        return problems
    ctx = XmlContext()
    seen = set()

    def visit(cls):
        if cls in seen:
            return
        seen.add(cls)
        if dataclasses.is_dataclass(cls):
            try:
                ctx.build(cls)
            except BaseException as e:
                problems.append(f"build {cls.__qualname__}: {type(e).__name__}: {e}")
            try:
                kwargs = {}
                for f in dataclasses.fields(cls):
                    if f.init and f.default is dataclasses.MISSING and f.default_factory is dataclasses.MISSING:
                        kwargs[f.name] = None
                cls(**kwargs)
            except BaseException as e:
                problems.append(f"init {cls.__qualname__}: {type(e).__name__}: {e}")
        for v in list(vars(cls).values()):
            if isinstance(v, type) and v.__module__ == cls.__module__ and v.__qualname__.startswith(cls.__qualname__ + "."):
                visit(v)

    for m in mods:
        for v in list(vars(m).values()):
            if isinstance(v, type) and v.__module__ == m.__name__:
                visit(v)
    return problems


def run(files, config=None, show=False, sources=None, package=None):
    tmp, package, err = generate(files, config, sources=sources, package=package)
    if show:
        for p in sorted(tmp.rglob("*.py")):
            print("-----", p.relative_to(tmp))
            print(p.read_text())
    if err is not None:
        kind = "CodegenError" if isinstance(err, CodegenError) else "OTHER"
        tb = "".join(traceback.format_exception(err)[-6:])
        return {"error": err, "kind": kind, "tb": tb, "tmp": tmp, "problems": []}
    problems = check_package(tmp, package)
    return {"error": None, "kind": None, "tmp": tmp, "problems": problems, "package": package}


def report(res):
    if res["error"] is not None:
        print("GENERATION ERROR", res["kind"], type(res["error"]).__name__, res["error"])
        print(res["tb"])
    for p in res["problems"]:
        print("PROBLEM", p)
    if res["error"] is None and not res["problems"]:
        print("ok")


import ast


def ast_dups(tmp, package):
    """Find duplicate names in module scope / class scope of generated files."""
    out = []
    for p in sorted((Path(tmp) / package.split(".")[0]).rglob("*.py")):
        try:
            tree = ast.parse(p.read_text())
        except SyntaxError as e:
            out.append(f"{p.name}: SyntaxError {e}")
            continue

        def scope(body, where):
            seen = {}
            for node in body:
                names = []
                if isinstance(node, ast.ClassDef):
                    names = [node.name]
                    scope(node.body, f"{where}.{node.name}")
                elif isinstance(node, ast.AnnAssign) and isinstance(node.target, ast.Name):
                    names = [node.target.id]
                elif isinstance(node, ast.Assign):
                    names = [t.id for t in node.targets if isinstance(t, ast.Name)]
                elif isinstance(node, ast.ImportFrom):
                    names = [a.asname or a.name for a in node.names]
                for n in names:
                    if n in seen:
                        out.append(f"{p.relative_to(tmp)}: duplicate name {n!r} in {where}")
                    seen[n] = 1

        scope(tree.body, "<module>")
    return out


_old_run = run


def run(files, config=None, show=False, sources=None, package=None):  # noqa
    res = _old_run(files, config, show, sources, package)
    if res["error"] is None:
        res["problems"].extend(ast_dups(res["tmp"], res["package"]))
    return res
