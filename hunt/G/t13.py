from common import *
from xsdata.models.config import *
docs = {
 "xsi": '<root xmlns:xsi="http://www.w3.org/2001/XMLSchema-instance" xsi:type="foo" xsi:nil="true" xsi:schemaLocation="a b"><a xsi:nil="true"/><a xsi:type="xs:int" xmlns:xs="http://www.w3.org/2001/XMLSchema">1</a></root>',
 "xml_attrs": '<root xml:lang="en" xml:space="preserve" lang="x" xml:id="a"><a xml:lang="de">x</a></root>',
 "ns_mix": '<a:root xmlns:a="urn:a" xmlns:b="urn:b" a:x="1" b:x="2" x="3"><a:x>1</a:x><b:x>2</b:x><x>3</x><b:root><a:root/></b:root></a:root>',
 "mixed": '<root>text<a>1</a>tail<b/>more<a>2</a></root>',
 "leaf_and_container": '<root><a>1</a><a><b>2</b></a><a x="1">3</a></root>',
 "recursive": '<a><a><a>1</a></a><b><a/></b></a>',
 "types": '<r><v>1</v><v>1.5</v><v>true</v><v>2001-01-01</v><v>P1D</v><v>10:00:00</v><v>2001-01-01T00:00:00</v><v>abc</v><v/></r>',
 "types_attr": '<r><v a="1"/><v a="1.5"/><v a="x"/><v a=""/></r>',
 "empty_root": '<root/>',
 "only_text": '<root>hello</root>',
 "keyword_names": '<class><def import="1" None="2" True="3"><pass/><return>x</return></def><self/><Meta/><Enum/><field/></class>',
 "case_collide": '<root><ab>1</ab><AB>2</AB><a_b>3</a_b><aB><x/></aB><Ab y="1"/></root>',
 "value_names": '<root value="1"><value>2</value>text<Value><value>x</value></Value></root>',
 "same_name_nested": '<root><root><root>1</root></root></root>',
 "diff_ns_same_local": '<root xmlns="urn:a"><item xmlns="urn:b"><x>1</x></item><item xmlns="urn:c"><y>1</y></item><item><z/></item></root>',
 "digit_punct": '<_><_1>1</_1><__>2</__><a.1>3</a.1><a-1>4</a-1><a_1>5</a_1></_>',
 "nonascii": '<root><日本>1</日本><本日><x>2</x></本日><é>3</é><É><y/></É></root>',
 "type_named": '<root><type>1</type><Type><a>1</a></Type><list><item>1</item><item>2</item></list><dict><k/></dict><str><int>1</int></str></root>',
 "dup_attr_elem": '<root a="1"><a>2</a><A b="1"/></root>',
 "qname_val": '<root xmlns:p="urn:p"><v>p:local</v></root>',
 "pi_comment": '<?pi x?><!--c--><root><!--c--><a/><?pi y?></root>',
 "cdata_entities": '<!DOCTYPE root [<!ENTITY e "ent">]><root><![CDATA[<x>]]>&e;<a>&#65;</a></root>',
 "long_name": '<root><' + 'a'*300 + '>1</' + 'a'*300 + '></root>',
 "inner_same_as_outer_field": '<root><item><item><item>x</item></item></item><Item>2</Item></root>',
 "choice_repeat": '<root><a>1</a><b>2</b><a>3</a><c><a>1</a><b>2</b><a>3</a></c></root>',
}
n=0
def cfgs():
    for cf, un, wrap, fr, sl in [(0,0,0,0,0),(1,0,0,0,0),(1,1,1,1,1),(0,1,0,0,1),(0,0,1,0,0),(1,0,1,1,0)]:
        for ss in StructureStyle:
            c = GeneratorConfig(); c.output.compound_fields.enabled=bool(cf); c.output.unnest_classes=bool(un); c.output.wrapper_fields=bool(wrap); c.output.format.frozen=bool(fr); c.output.format.slots=bool(sl); c.output.structure_style=ss
            yield (cf,un,wrap,fr,sl,ss.value), c
for name, doc in docs.items():
    for label, cfg in cfgs():
        n+=1
        tmp, exc = generate({"doc.xml": doc}, cfg, package=f"g13_{n}")
        if exc is not None:
            print(name, label, describe(exc)[:800])
        else:
            p = bind_all(tmp, f"g13_{n}")
            if p: print(name, label, p)
print("done", n)
