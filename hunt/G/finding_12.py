"""C07: with field_name case originalCase (or mixedCase/mixedSnakeCase keep them too?) an
attribute/element whose name is a Python special attribute (all valid NCNames) is emitted
verbatim as a dataclass field: `__slots__`, `__annotations__`, `__module__` break class
creation (module does not import), `__init__`, `__post_init__`, `__setattr__` give a class
that cannot be instantiated.  Only keywords and a few builtins are reserved.
"""
from common import *
from xsdata.models.config import NameCase

violated = False
for i, name in enumerate(["__slots__", "__annotations__", "__module__", "__init__", "__post_init__"]):
    package = f"gen12_{i}"
    print("===", name)
    cfg = GeneratorConfig()
    cfg.conventions.field_name.case = NameCase.ORIGINAL
    schema = xsd(
        '<xs:element name="root"><xs:complexType>'
        f'<xs:attribute name="{name}" type="xs:string"/>'
        '<xs:attribute name="other" type="xs:string"/>'
        "</xs:complexType></xs:element>"
    )
    tmp, exc = generate({"a.xsd": schema}, cfg, package=package)
    if exc is not None:
        print(describe(exc))
        violated |= not isinstance(exc, CodegenError)
    problems = bind_all(tmp, package)
    print("\n".join(problems) or "ok")
    violated |= bool(problems)
verdict(violated)
