"""C07: docstring wrapping computes `max_line_length - indentation` without a lower bound and
hands it to textwrap.wrap, which raises ValueError("invalid width ... (must be > 0)").

13a: default options (max_line_length=79): a documented element nested 19 anonymous complex
     types deep (each level indents the docstring by 4 columns).
13b: a small but accepted max_line_length (20) with the Google docstring style and an
     ordinary documented schema (two levels of anonymous types).
In both cases generation aborts with a bare ValueError from textwrap, not CodegenError.
"""
from common import *
from xsdata.models.config import DocstringStyle

violated = False

depth = 19
inner = (
    '<xs:element name="leaf" type="xs:string"><xs:annotation><xs:documentation>'
    "The leaf value</xs:documentation></xs:annotation></xs:element>"
)
for level in reversed(range(depth)):
    inner = (
        f'<xs:element name="n{level}"><xs:annotation><xs:documentation>Level {level} container'
        "</xs:documentation></xs:annotation><xs:complexType><xs:sequence>"
        f"{inner}</xs:sequence></xs:complexType></xs:element>"
    )
print("=== 13a: nesting depth", depth, "default config")
tmp, exc = generate({"a.xsd": xsd(inner)}, package="gen13a")
if exc is not None:
    print(describe(exc))
    violated |= not isinstance(exc, CodegenError)
else:
    print("\n".join(bind_all(tmp, "gen13a")) or "ok")

print("=== 13b: max_line_length=20, Google docstrings")
cfg = GeneratorConfig()
cfg.output.max_line_length = 20
cfg.output.docstring_style = DocstringStyle.GOOGLE
schema = xsd(
    '<xs:element name="root"><xs:complexType><xs:sequence>'
    '<xs:element name="item"><xs:complexType><xs:sequence>'
    '<xs:element name="part"><xs:complexType><xs:sequence>'
    '<xs:element name="a" type="xs:string"><xs:annotation><xs:documentation>The a value'
    "</xs:documentation></xs:annotation></xs:element></xs:sequence></xs:complexType></xs:element>"
    "</xs:sequence></xs:complexType></xs:element>"
    "</xs:sequence></xs:complexType></xs:element>"
)
tmp, exc = generate({"a.xsd": schema}, cfg, package="gen13b")
if exc is not None:
    print(describe(exc))
    violated |= not isinstance(exc, CodegenError)
else:
    print("\n".join(bind_all(tmp, "gen13b")) or "ok")

verdict(violated)
