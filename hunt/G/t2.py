from harness import *
import json, sys
cands = {
 "quote": {"a\"b": 1},
 "backslash": {"a\\b": 1},
 "backslash_x": {"a\\xb": 1},
 "newline": {"a\nb": 1},
 "empty": {"": 1},
 "brace": {"{a}b": 1},
 "brace2": {"{a": 1},
 "typeprefix": {"Type[x]": 1},
 "fwd": {"ForwardRef(x": 1},
 "nested_quote": {"a\"b": {"c": 1}},
 "nested_empty": {"": {"c": 1}},
 "space": {" ": 1},
 "dup_case": {"ab": 1, "AB": 2, "a_b": 3, "Ab":"x"},
 "value": {"value": 1, "Value": {"value": 2}},
 "nul": {"a\u0000b": 1},
 "surrogate-ish": {"\ud800": 1} ,
 "list_of_lists": {"a": [[1,2],[3]]},
 "list_mixed": {"a": [1, {"b": 2}, "x", None, [1]]},
 "null": {"a": None},
 "bigint": {"a": 10**40},
 "float_nan": {"a": 1e999},
 "bool": {"a": True, "b": [True, 1, 1.5]},
 "unicode": {"ünï": 1, "日本": {"語": 2}},
 "dunder": {"__class__": 1, "__init__": 2, "__slots__": 3, "__dict__": 4},
 "dataclass": {"dataclass": 1, "inner": {"x": 1}},
 "bytes": {"bytes": 1, "tuple": 2, "items": [1,2]},
}
only = sys.argv[1:] 
for k, v in cands.items():
    if only and k not in only: continue
    print("=====", k)
    try:
        s = json.dumps(v)
    except Exception as e:
        print("dump fail", e); continue
    res = run({"doc.json": s}, show=bool(only))
    report(res)
