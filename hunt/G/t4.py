from harness import *
import sys
from xsdata.models.config import *
defaults = {
 "string": ["", "a\"b", "a\\b", "  ", "Type[x]", "@enum@x::y", "ForwardRef(", "a\nb"],
 "boolean": ["1","true"," true "],
 "decimal": ["1.0","+.5","-0", "1E3", "NaN", "INF"],
 "float": ["INF","-INF","NaN","1e400","-0","+1"],
 "double": ["INF","1e-400", "NaN"],
 "duration": ["P1D","-P1Y","PT0S", "P0Y", "PT1.5S"],
 "dateTime": ["2001-01-01T00:00:00","2001-01-01T24:00:00","-0001-01-01T00:00:00Z","2001-01-01T00:00:00.123456789+14:00", "10000-01-01T00:00:00"],
 "time": ["00:00:00","24:00:00","12:00:00.5-05:00"],
 "date": ["2001-01-01","-2001-01-01","2001-01-01Z", "0000-01-01", "2001-02-30"],
 "gYearMonth":["2001-01"],"gYear":["2001","-0001", "12345"],"gMonthDay":["--01-01", "--02-30"],"gMonth":["--01"],"gDay":["---01"],
 "hexBinary":["","0A","0a", "0"],
 "base64Binary":["","YQ==","Y Q = =", "YQ"],
 "anyURI":["", "http://a b"],
 "QName":["xs:a","a","t:a", "u:a", "{x}a"],
 "NOTATION":["xs:a","a"],
 "NMTOKENS":["a b","", "a"],
 "IDREFS":["a b"],
 "ENTITIES":["a b"],
 "integer":["+1","-0","00012", "1.0", " 1 ", "1_000"],
 "nonNegativeInteger": ["-1"],
 "byte": ["300"],
 "unsignedByte": ["٣"],
 "anyType": ["abc", ""],
 "anySimpleType": ["abc","", "1"],
 "anyAtomicType": ["abc"],
 "dateTimeStamp": ["2001-01-01T00:00:00Z"],
 "dayTimeDuration": ["P1D"],
 "yearMonthDuration": ["P1Y"],
 "error": ["x"],
 "language": ["en"],
}
n=0
for tp, vals in defaults.items():
    for v in vals:
        for mode in ("default","fixed"):
          for kind in ("attr","elem"):
            n+=1
            esc = v.replace("&","&amp;").replace('"',"&quot;").replace("<","&lt;").replace("\n","&#10;")
            if kind=="attr":
                body = f'<xs:element name="root"><xs:complexType><xs:attribute name="a" type="xs:{tp}" {mode}="{esc}"/></xs:complexType></xs:element>'
            else:
                body = f'<xs:element name="root"><xs:complexType><xs:sequence><xs:element name="a" type="xs:{tp}" {mode}="{esc}"/></xs:sequence></xs:complexType></xs:element>'
            xsd = f'<xs:schema xmlns:xs="http://www.w3.org/2001/XMLSchema" xmlns:t="urn:t" targetNamespace="urn:t">{body}</xs:schema>'
            res = run({"a.xsd": xsd})
            if res["error"] is not None or res["problems"]:
                print("=====", tp, repr(v), mode, kind)
                if res["error"] is not None:
                    print("  ERR", res["kind"], type(res["error"]).__name__, str(res["error"])[:200])
                for p in res["problems"]: print("  ", p[:200])
print(n)
