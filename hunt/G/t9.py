from common import *
from xsdata.models.config import *
schema = xsd(
    '<xs:element name="root"><xs:annotation><xs:documentation>Some long documentation text for the root element. Second sentence here with more words.</xs:documentation></xs:annotation><xs:complexType><xs:sequence>'
    '<xs:element name="a" default="a fairly long default value with spaces in it that wraps"><xs:annotation><xs:documentation>Doc for a with several words in it</xs:documentation></xs:annotation>'
    '<xs:complexType><xs:sequence><xs:element name="deep"><xs:annotation><xs:documentation>Deep doc words words</xs:documentation></xs:annotation><xs:complexType><xs:sequence><xs:element name="deeper" type="xs:string" fixed="some other long string value with spaces"><xs:annotation><xs:documentation>Deeper doc words words words words</xs:documentation></xs:annotation></xs:element></xs:sequence></xs:complexType></xs:element></xs:sequence></xs:complexType></xs:element>'
    '<xs:element name="b"><xs:simpleType><xs:restriction base="xs:string"><xs:pattern value="[a-z ]+ [0-9 ]+ some long pattern with spaces"/></xs:restriction></xs:simpleType></xs:element>'
    "</xs:sequence></xs:complexType></xs:element>", tns="urn:some:long:namespace with spaces in it to wrap"
)
n=0
for ds in DocstringStyle:
    for mll in [1, 5, 10, 15, 20, 25, 30, 40, 50, 79]:
        n+=1
        cfg = GeneratorConfig(); cfg.output.docstring_style = ds; cfg.output.max_line_length = mll
        tmp, exc = generate({"a.xsd": schema}, cfg, package=f"g9_{n}")
        if exc is not None:
            print(ds.value, mll, describe(exc).splitlines()[0][:200])
        else:
            p = bind_all(tmp, f"g9_{n}")
            if p: print(ds.value, mll, p)
