import warnings, logging; warnings.simplefilter("ignore"); logging.disable(logging.CRITICAL)
from zoo import *
from zoo_docs import *
from xsdata.formats.dataclass.parsers import XmlParser
from xsdata.formats.dataclass.serializers import PycodeSerializer
for doc, cls in ((ROOT, Root), (WILDLIST, WildList), (WILDONE, WildOne), (FROZEN, Frozen)):
    obj = XmlParser().from_string(doc.replace("<z:flt>NaN</z:flt>", "<z:flt>-INF</z:flt>"), cls)
    code = PycodeSerializer().render(obj)
    ns = {}
    try:
        exec(code, ns)
        print(cls.__name__, ns["obj"] == obj)
        if ns["obj"] != obj:
            import dataclasses
            for f in dataclasses.fields(obj):
                a, b = getattr(obj, f.name), getattr(ns["obj"], f.name)
                if a != b: print("  DIFF", f.name, a, b)
    except Exception as e:
        print(cls.__name__, "EXC", type(e).__name__, e); print(code)
