import sys, encodings, pkgutil, warnings
from dataclasses import dataclass, field
from typing import Optional
from xsdata.formats.dataclass.parsers import XmlParser
from xsdata.formats.dataclass.parsers.handlers import XmlEventHandler, LxmlEventHandler
from xsdata.exceptions import ParserError, ConverterError, XmlContextError

@dataclass
class R:
    a: Optional[str] = field(default=None, metadata={"type": "Element"})

names = sorted({m.name for m in pkgutil.iter_modules(encodings.__path__)} | set(encodings.aliases.aliases.keys()))
res = {}
for h in (XmlEventHandler, LxmlEventHandler):
    for n in names:
        doc = f'<?xml version="1.0" encoding="{n}"?><R><a>x</a></R>'.encode("ascii")
        try:
            XmlParser(handler=h).from_bytes(doc, R)
            r = "ok"
        except (ParserError, ConverterError, XmlContextError) as e:
            r = "clean"
        except BaseException as e:
            r = f"LEAK {type(e).__name__}: {e}"
        res.setdefault((h.__name__, r), []).append(n)
for k, v in res.items():
    print(k, len(v), v[:12])
