"""C18: a model class whose name equals the name of a value type the
serializer imports (Decimal, QName, XmlDate, ...). `from decimal import Decimal`
and `from <models> import Decimal` shadow each other (sorted import order decides
which one wins), so the source either fails or builds a different object."""
import sys
import types
from dataclasses import dataclass, field
from decimal import Decimal as PyDecimal
from typing import Optional

mod = types.ModuleType("zmodels")
sys.modules["zmodels"] = mod


@dataclass
class Decimal:  # e.g. <xs:complexType name="Decimal"> or element "decimal"
    value: Optional[PyDecimal] = field(default=None, metadata={"type": "Attribute"})
    places: Optional[int] = field(default=None, metadata={"type": "Attribute"})


Decimal.__module__ = "zmodels"
mod.Decimal = Decimal

from xsdata.formats.dataclass.serializers import PycodeSerializer

obj = Decimal(value=PyDecimal("1.50"), places=2)
code = PycodeSerializer().render(obj)
print(code)
ns = {}
try:
    exec(code, ns)
except Exception as exc:
    print("VIOLATION: exec raised", type(exc).__name__, exc)
    sys.exit(1)
if ns["obj"] != obj:
    print("VIOLATION: not equal", ns["obj"], "!=", obj)
    sys.exit(1)
print("ok")
