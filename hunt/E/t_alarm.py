import signal, sys, time, warnings, faulthandler
warnings.simplefilter("ignore")
sys.path.insert(0, ".")
import importlib.util
spec = importlib.util.spec_from_file_location("f8", "finding_8.py")
src = open("finding_8.py").read().split("times = {}")[0]
exec(src)
class T(BaseException): pass
def on(*_):
    print("alarm fired", flush=True); raise T
signal.signal(signal.SIGALRM, on); signal.alarm(3)
t=time.time()
try:
    XmlParser(handler=LxmlEventHandler).from_string(doc(40).replace("<child y='1'></child>", "<child y='oops'></child>"), Node)
except BaseException as e:
    print("caught", type(e), time.time()-t)
