"""C18: an instance nested deeper than ~100 levels (e.g. a linked-list style
Node.child chain, which XmlParser happily produces) is rendered as one expression
with one pair of parentheses per level; CPython refuses to compile more than 200
nested parentheses ("SyntaxError: too many nested parentheses"), so the rendered
source cannot be executed."""
import sys
from dataclasses import dataclass, field
from typing import List, Optional

from xsdata.formats.dataclass.parsers import XmlParser
from xsdata.formats.dataclass.parsers.handlers import XmlEventHandler
from xsdata.formats.dataclass.serializers import PycodeSerializer


@dataclass
class Node:
    name: Optional[str] = field(default=None, metadata={"type": "Attribute"})
    child: Optional["Node"] = field(default=None, metadata={"type": "Element"})


def make(depth):
    xml = "<Node>" + "<child name='x'>" * depth + "</child>" * depth + "</Node>"
    return XmlParser(handler=XmlEventHandler).from_string(xml, Node)


bad = 0
for depth in (50, 99, 120, 250, 400):
    obj = make(depth)
    try:
        code = PycodeSerializer().render(obj)
    except RecursionError as e:
        print(depth, "VIOLATION render raised RecursionError")
        bad += 1
        continue
    ns = {}
    try:
        exec(code, ns)
        same = ns["obj"] == obj
        print(depth, "ok" if same else "VIOLATION not equal")
        bad += not same
    except RecursionError:
        # comparing deep dataclasses recursively, not the serializer's fault
        print(depth, "exec ok, == hit the recursion limit")
    except Exception as e:
        print(depth, "VIOLATION exec raised", type(e).__name__, str(e)[:70])
        bad += 1
sys.exit(1 if bad else 0)
