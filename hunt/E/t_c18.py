import sys, enum
from dataclasses import dataclass, field
from typing import Optional, Any
from decimal import Decimal
from xml.etree.ElementTree import QName
from xsdata.formats.dataclass.serializers import PycodeSerializer
from xsdata.models.datatype import *
from xsdata.formats.dataclass.models.generics import AnyElement, DerivedElement

class Perm(enum.Flag):
    R = 1
    W = 2

class Al(enum.Enum):
    A = 1
    B = 1

@dataclass
class M:
    a: Any = None
    b: Any = field(default_factory=list)
    c: dict = field(default_factory=dict)

def check(obj):
    code = PycodeSerializer().render(obj)
    ns = {}
    try:
        exec(code, ns)
        if ns["obj"] != obj:
            print("NEQ", code, ns["obj"], obj)
        else:
            print("ok", repr(obj)[:80])
    except Exception as e:
        print("ERR", type(e).__name__, e, code)

check(M(a=Perm.R | Perm.W))
check(M(a=Al.B))
check(M(a=XmlDateTime(2020,1,1,0,0,0,0,60)))
check(M(a=XmlDateTime(2020,1,1,0,0,0,5)))
check(M(a=XmlDateTime(-2020,1,1,0,0,0)))
check(M(a=XmlTime(1,1,1,0,0)))
check(M(a=XmlTime(1,1,1,5)))
check(M(a=XmlDate(1,1,1,-60)))
check(M(a=XmlDuration("-P1Y")))
check(M(a=XmlPeriod("--12-01Z")))
check(M(a=XmlHexBinary(b"ab")))
check(M(a=XmlBase64Binary(b"ab")))
check(M(a={frozenset({1})}))
check(M(a=frozenset({1})))
check(M(a=(1,)))
check(M(a=()))
check(M(a=set()))
check(M(a=frozenset()))
check(M(a=1e400))
check(M(a=-1e400))
check(M(a=Decimal("Infinity")))
check(M(a=1e22))
check(M(a=QName("{a}b\n")))
check(M(a=b"\x00\xff"))
check(M(a=AnyElement(qname="a", text="x", children=[AnyElement(qname="b")], attributes={"a":"b"})))
check(M(a=DerivedElement(qname="a", value=M(a=1), type="x")))
check(M(c={QName("a"): Decimal(1)}))
check(M(a=True, b=(), c={1:[]}))
import datetime
check(M(a=datetime.timezone.utc))
check(M(a=datetime.datetime(2020,1,1,tzinfo=datetime.timezone(datetime.timedelta(hours=1)))))
check(M(a=datetime.timedelta(1)))
check(M(a=complex(1,2)))
check(M(a=float))
check(M(a=range(3)))
check(M(a=bytearray(b"x")))
