import time, warnings; warnings.simplefilter("ignore")
from dataclasses import dataclass, field
from typing import Optional, Union
from xsdata.formats.dataclass.parsers import XmlParser
from xsdata.formats.dataclass.parsers.handlers import XmlEventHandler

@dataclass
class Alt:
    x: Optional[int] = field(default=None, metadata={"type": "Attribute"})
    child: Optional[Union["Alt", "Node"]] = field(default=None, metadata={"type": "Element"})

@dataclass
class Node:
    y: Optional[int] = field(default=None, metadata={"type": "Attribute"})
    child: Optional[Union["Node", Alt]] = field(default=None, metadata={"type": "Element"})

for d in (2, 6, 10, 12, 14, 16):
    doc = "<Node>" + "<child y='1'>" * d + "</child>" * d + "</Node>"
    t = time.time()
    r = XmlParser(handler=XmlEventHandler).from_string(doc, Node)
    print(d, len(doc), round(time.time() - t, 3))
