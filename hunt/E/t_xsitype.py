import warnings, logging; warnings.simplefilter("ignore"); logging.disable(logging.CRITICAL)
import traceback
from zoo import *
from zoo_docs import *
from lxml import etree
import copy
from xsdata.formats.dataclass.parsers import XmlParser
from xsdata.formats.dataclass.parsers.handlers import XmlEventHandler, LxmlEventHandler
from xsdata.exceptions import ParserError, ConverterError, XmlContextError
from xsdata.formats.dataclass.context import XmlContext
ctx = XmlContext()
VALS = ["{", "{}", "{}}", "}{", "{a}b:c", "{urn:zoo}Leaf", "{urn:zoo}", "{urn:zoo} Leaf", " z:Leaf ", "z:Leaf z:Leaf", "z::Leaf", ":Leaf", "z:", ":", "::", "z:1", "xs:int xs:int", "{http://www.w3.org/2001/XMLSchema}int", "{http://www.w3.org/2001/XMLSchema}hexBinary", "\t", "xml:lang", "xmlns:z", "xsi:type", "{{a}}b", "{a b}c", "{}Leaf", "z:Leaf ", "é:x", "z:é"]
XSI_NS = "http://www.w3.org/2001/XMLSchema-instance"
seen=set()
for doc, cls in ((ROOT, Root), (WILDLIST, WildList), (WILDONE, WildOne), (FROZEN, Frozen)):
    root = etree.fromstring(doc.encode())
    n = len(list(root.iter()))
    for i in range(n):
        for v in VALS:
            for attr in ("type", "nil"):
                r = copy.deepcopy(root); t = list(r.iter())[i]; t.set(f"{{{XSI_NS}}}{attr}", v)
                data = etree.tostring(r)
                for h in (XmlEventHandler, LxmlEventHandler):
                    try:
                        XmlParser(handler=h, context=ctx).from_bytes(data, cls)
                    except (ParserError, ConverterError, XmlContextError):
                        pass
                    except Exception as e:
                        tb = traceback.extract_tb(e.__traceback__)[-1]
                        key = (type(e).__name__, tb.filename.split("/")[-1], tb.lineno)
                        if key not in seen:
                            seen.add(key); print("LEAK", key, e, t.tag, repr(v))
print("done")
