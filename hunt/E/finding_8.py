"""C15 (bounded time): UnionNode replays the recorded events once per candidate
class, and every replay meets the nested union field again -> 2**depth work.
A 900 byte document (40 nested <child> elements) for a model whose element field
is a union of two dataclasses effectively never returns."""
import signal
import sys
import time
import warnings
from dataclasses import dataclass, field
from typing import Optional, Union

from xsdata.formats.dataclass.parsers import XmlParser
from xsdata.formats.dataclass.parsers.handlers import LxmlEventHandler, XmlEventHandler

warnings.simplefilter("ignore")


@dataclass
class Alt:
    x: Optional[int] = field(default=None, metadata={"type": "Attribute"})
    child: Optional[Union["Alt", "Node"]] = field(default=None, metadata={"type": "Element"})


@dataclass
class Node:
    y: Optional[int] = field(default=None, metadata={"type": "Attribute"})
    child: Optional[Union["Node", Alt]] = field(default=None, metadata={"type": "Element"})


def doc(depth):
    return "<Node>" + "<child y='1'>" * depth + "</child>" * depth + "</Node>"


times = {}
for d in (8, 10, 12, 14):
    t = time.time()
    XmlParser(handler=XmlEventHandler).from_string(doc(d), Node)
    times[d] = time.time() - t
    print(f"depth {d:2d} ({len(doc(d))} bytes): {times[d]:.3f}s")
print("growth per extra level ~", round((times[14] / times[10]) ** 0.25, 2))


class Timeout(BaseException):  # UnionNode suppresses every Exception
    pass


def on_alarm(*_):
    raise Timeout


LIMIT = 20
signal.signal(signal.SIGALRM, on_alarm)
signal.alarm(LIMIT)
try:
    # a malformed variant as well: the innermost element carries a bad value
    bad = doc(40).replace("<child y='1'></child>", "<child y='oops'></child>")
    XmlParser(handler=LxmlEventHandler).from_string(bad, Node)
    signal.alarm(0)
    print("returned in time")
    sys.exit(0)
except Timeout:
    print(f"VIOLATION: {len(bad)} byte document still parsing after {LIMIT}s "
          f"(extrapolated: {times[14] * 2 ** 26 / 3600 / 24 / 365:.0f} years)")
    sys.exit(1)
