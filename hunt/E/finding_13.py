"""C18 (low): an enum field holding a composite Flag/IntFlag member (Perm.R | Perm.W).
The serializer renders `<EnumClass>.<member.name>`; the name of a composite member
is "R|W", so the source reads `Perm.R|W` -> NameError: name 'W' is not defined."""
import sys

from flagmod import FileEntry, Perm
from xsdata.formats.dataclass.serializers import PycodeSerializer

obj = FileEntry(name="a", mode=Perm.R | Perm.W)
code = PycodeSerializer().render(obj)
print(code)
ns = {}
try:
    exec(code, ns)
except Exception as e:
    print("VIOLATION exec raised", type(e).__name__, e)
    sys.exit(1)
if ns["obj"] != obj:
    print("VIOLATION not equal", ns["obj"])
    sys.exit(1)
print("ok")
