import warnings, logging, sys, copy, traceback, itertools, signal
warnings.simplefilter("ignore")
logging.disable(logging.CRITICAL)
from lxml import etree
from zoo import *
from zoo_docs import *
from xsdata.formats.dataclass.parsers import XmlParser
from xsdata.formats.dataclass.context import XmlContext
from xsdata.formats.dataclass.parsers.handlers import XmlEventHandler, LxmlEventHandler
from xsdata.formats.dataclass.parsers.config import ParserConfig
from xsdata.exceptions import ParserError, ConverterError, XmlContextError, ConverterWarning
from xsdata.models.enums import DataType

XSI_NS = "http://www.w3.org/2001/XMLSchema-instance"
ctx = XmlContext()
configs = [ParserConfig(), ParserConfig(fail_on_unknown_properties=False, fail_on_unknown_attributes=True), ParserConfig(fail_on_converter_warnings=True)]
seen = {}
count = 0

def run(data, cls, label):
    global count
    for h in (XmlEventHandler, LxmlEventHandler):
        for ci, cfg in enumerate(configs):
            count += 1
            try:
                res = XmlParser(handler=h, config=cfg, context=ctx).from_bytes(data, cls)
                if not isinstance(res, cls):
                    key = ("WRONGTYPE", type(res).__name__)
                    if key not in seen:
                        seen[key] = (label, data)
                        print("WRONGTYPE", type(res).__name__, label, data[:300], flush=True)
            except (ParserError, ConverterError, XmlContextError):
                pass
            except Exception as e:
                tb = traceback.extract_tb(e.__traceback__)[-1]
                key = (type(e).__name__, tb.filename.split("/")[-1], tb.lineno)
                if key not in seen:
                    seen[key] = (label, data)
                    print("LEAK", key, str(e)[:100], h.__name__, ci, label, flush=True)
                    print("   ", data.decode("utf8", "replace")[:3000].replace("\n", " "), flush=True)

NASTY = ["", " ", "x", "-1", "1 2", "1e5", "NaN", "INF", "true", "z:q", "q:zz", ":", "{", "{}x", "{urn:zoo}q", "xs:int", "0x10", "1_0", "١٢", "2020-13-01", "P", "PT", "-P1Y", "--02-30", "24:00:00", "9"*5000, "1E+9999999", "a\u0000b".replace("\u0000", ""), " ", "ab=", "6", "zz", "red", "red red", "a b", "1 2 3", "2020-01-01 10:00", "2020-01-01T10:00:00+99:00", "10:00:00.5555555555", "z:", ":q", "xml:lang", "A"*70000]
TYPES = ["z:Leaf", "z:Leaf2", "z:Other", "z:Root", "z:NilC", "z:Mixed", "z:WildList", "z:Frozen", "z:nope", "q:Leaf", "Leaf", "", " ", "xs:nope", "AnyElement", "DerivedElement", "z:Color", "ParserConfig", "XmlParser"] + ["xs:" + d.code for d in DataType]

def mutations(root):
    elems = list(root.iter())
    tags = sorted({e.tag for e in elems if isinstance(e.tag, str)}) + ["{urn:zoo}unknown", "unknown", "{urn:other}zzz"]
    def clone(idx=None):
        r = copy.deepcopy(root)
        es = list(r.iter())
        return r, (es[idx] if idx is not None else None)
    for i, e in enumerate(elems):
        # delete
        if i:
            r, t = clone(i); t.getparent().remove(t); yield f"del {e.tag}", r
            r, t = clone(i); t.addnext(copy.deepcopy(t)); yield f"dup {e.tag}", r
            r, t = clone(i); p = t.getparent(); p.remove(t); p.insert(0, t); yield f"first {e.tag}", r
            r, t = clone(i); p = t.getparent(); p.remove(t); p.append(t); yield f"last {e.tag}", r
        for tg in tags:
            if tg != e.tag:
                r, t = clone(i); t.tag = tg; yield f"retag {e.tag}->{tg}", r
        for v in NASTY:
            r, t = clone(i); t.text = v; yield f"text {e.tag}={v[:20]!r}", r
            if i:
                r, t = clone(i); t.tail = v; yield f"tail {e.tag}={v[:20]!r}", r
        for a in list(e.attrib):
            r, t = clone(i); del t.attrib[a]; yield f"delattr {e.tag}@{a}", r
            for v in NASTY:
                r, t = clone(i); t.set(a, v); yield f"attr {e.tag}@{a}={v[:20]!r}", r
        for ty in TYPES:
            r, t = clone(i); t.set(f"{{{XSI_NS}}}type", ty); yield f"xsitype {e.tag}={ty}", r
            r, t = clone(i); t.set(f"{{{XSI_NS}}}type", ty); t.text = None
            for c in list(t): t.remove(c)
            yield f"xsitype-empty {e.tag}={ty}", r
        for nv in ("true", "false", "1", "x", ""):
            r, t = clone(i); t.set(f"{{{XSI_NS}}}nil", nv); yield f"nil {e.tag}={nv}", r
            r, t = clone(i); t.set(f"{{{XSI_NS}}}nil", nv); t.text = None
            for c in list(t): t.remove(c)
            yield f"nil-empty {e.tag}={nv}", r
        # add children
        for tg in tags[:]:
            r, t = clone(i); c = etree.SubElement(t, tg); c.text = "1"; yield f"addchild {e.tag}<-{tg}", r
        r, t = clone(i); c = etree.SubElement(t, "{urn:zoo}leaf"); c.set("id", "1"); etree.SubElement(c, "x"); yield f"addchild2 {e.tag}", r
        r, t = clone(i); t.set("bogus", "1"); yield f"addattr {e.tag}", r
        r, t = clone(i); t.set("{urn:other}bogus", "z:1"); yield f"addattr2 {e.tag}", r
        # move under each other element
        if i:
            for j in range(len(elems)):
                if j != i and elems[j] not in e.iter():
                    r = copy.deepcopy(root); es = list(r.iter()); t = es[i]; d = es[j]
                    t.getparent().remove(t); d.append(t); yield f"move {e.tag} under {elems[j].tag}", r

if __name__ == "__main__":
    which = sys.argv[1] if len(sys.argv) > 1 else "all"
    for name, doc, cls in (("root", ROOT, Root), ("wildlist", WILDLIST, WildList), ("wildone", WILDONE, WildOne), ("frozen", FROZEN, Frozen)):
        if which not in ("all", name): continue
        root = etree.fromstring(doc.encode())
        for label, r in mutations(root):
            data = etree.tostring(r)
            run(data, cls, label)
        print(name, "done", count, flush=True)
