import warnings; warnings.simplefilter("ignore")
from zoo import *
from xsdata.formats.dataclass.parsers import XmlParser, JsonParser
from xsdata.formats.dataclass.parsers.handlers import XmlEventHandler, LxmlEventHandler
X='xmlns:xsi="http://www.w3.org/2001/XMLSchema-instance" xmlns:z="urn:zoo" xmlns:xs="http://www.w3.org/2001/XMLSchema"'
docs = [
 f'<x {X} xsi:type="z:Leaf" id="1"/>',
 f'<x {X} xsi:type="z:Leaf2" id="1"/>',
 f'<x {X} xsi:type="z:Other" id="1"/>',
 f'<x {X} xsi:type="xs:int" id="1"/>',
 f'<x {X} xsi:type="z:nope" id="1"/>',
 f'<z:Leaf {X} xsi:type="z:Other" id="1"/>',
 f'<z:Leaf {X} xsi:type="xs:int" id="1">5</z:Leaf>',
 f'<z:Leaf {X} xsi:nil="true" id="1"/>',
 f'<z:Other {X} id="1"/>',
]
for d in docs:
    for h in (XmlEventHandler,):
        try:
            print(d[120:], '->', XmlParser(handler=h).from_string(d, Leaf))
        except Exception as e:
            print(d[120:], '-> EXC', type(e).__name__, e)
