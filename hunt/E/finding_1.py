"""C18: two model classes with the same name living in different modules
(the normal outcome of generating a multi-namespace schema with the
namespaces/filenames structure style) -> the emitted imports shadow each other."""
import sys

from pkg_a import Address as AddressA
from pkg_b import Address as AddressB, Order
from xsdata.formats.dataclass.serializers import PycodeSerializer

obj = Order(billing=AddressA(street="Main"), shipping=AddressB(zip_code=12345))
code = PycodeSerializer().render(obj, var_name="obj")
print(code)
ns = {}
try:
    exec(code, ns)
except Exception as exc:
    print("VIOLATION: exec raised", type(exc).__name__, exc)
    sys.exit(1)
if ns["obj"] != obj:
    print("VIOLATION: not equal", ns["obj"], "!=", obj)
    sys.exit(1)
print("ok")
