import warnings, logging
warnings.simplefilter("ignore")
logging.disable(logging.CRITICAL)
from zoo import *
from zoo_docs import *
from xsdata.formats.dataclass.parsers import XmlParser
from xsdata.formats.dataclass.parsers.handlers import XmlEventHandler, LxmlEventHandler
from xsdata.formats.dataclass.parsers.config import ParserConfig
for doc, cls in ((ROOT, Root), (WILDLIST, WildList), (WILDONE, WildOne), (FROZEN, Frozen)):
    for h in (XmlEventHandler, LxmlEventHandler):
        r = XmlParser(handler=h, config=ParserConfig(fail_on_converter_warnings=True)).from_string(doc, cls)
        print(r)
