import time, json, warnings; warnings.simplefilter("ignore")
from dataclasses import dataclass, field
from typing import Optional, List
from xsdata.formats.dataclass.parsers import JsonParser

@dataclass
class Node:
    name: Optional[str] = field(default=None, metadata={"type": "Attribute"})
    child: Optional["Node"] = field(default=None, metadata={"type": "Element"})

@dataclass
class Special(Node):
    extra: Optional[int] = field(default=None, metadata={"type": "Attribute"})

def doc(d):
    o = {"name": "leaf"}
    for i in range(d):
        o = {"name": "n", "child": o}
    return json.dumps(o)
for d in (4, 8, 10, 12, 14, 16):
    t = time.time(); JsonParser().from_string(doc(d), Node); print(d, len(doc(d)), round(time.time()-t, 3))
