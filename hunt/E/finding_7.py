"""C15 (JSON/dict decoder): a derived-element object inside a compound (Elements)
field whose "qname" member is not a string (null, number, array, object) leaks
TypeError from XmlVar.find_choice (dict lookup / namespace matching)."""
import sys
from dataclasses import dataclass, field
from typing import List, Union

from xsdata.exceptions import ConverterError, ParserError, XmlContextError
from xsdata.formats.dataclass.parsers import JsonParser


@dataclass
class Leaf:
    id: str = field(default="", metadata={"type": "Attribute"})


@dataclass
class Holder:
    choice: List[Union[int, Leaf, object]] = field(
        default_factory=list,
        metadata={
            "type": "Elements",
            "choices": (
                {"name": "ci", "type": int},
                {"name": "cl", "type": Leaf},
                {"wildcard": True, "type": object, "namespace": "##other"},
            ),
        },
    )


valid = '{"choice": [{"qname": "ci", "value": 1}, {"qname": "cl", "value": {"id": "x"}}]}'
print("valid:", JsonParser().from_string(valid, Holder))

bad = 0
for doc in (
    '{"choice": [{"qname": null, "value": 1}]}',
    '{"choice": [{"qname": 5, "value": 1}]}',
    '{"choice": [{"qname": ["ci"], "value": 1}]}',
    '{"choice": [{"qname": {}, "value": {"id": "x"}}]}',
):
    try:
        res = JsonParser().from_string(doc, Holder)
        print(doc, "->", res)
    except (ParserError, ConverterError, XmlContextError) as e:
        print(doc, "-> clean", type(e).__name__, e)
    except Exception as e:
        print(doc, "-> VIOLATION leaked", type(e).__name__, e)
        bad += 1
sys.exit(1 if bad else 0)
