"""C15 (JSON/dict decoder): a root object that looks like a derived element
({"qname": ..., "value": <scalar>}) decoded without a target class (the decoder
auto-locates DerivedElement from the keys) or with clazz=DerivedElement leaks
AttributeError: 'int' object has no attribute 'keys' from bind_derived_dataclass."""
import sys

from xsdata.exceptions import ConverterError, ParserError, XmlContextError
from xsdata.formats.dataclass.models.generics import DerivedElement
from xsdata.formats.dataclass.parsers import JsonParser

bad = 0
for doc, clazz in (
    ('{"qname": "a", "value": 1}', None),
    ('{"qname": "a", "value": "text"}', None),
    ('{"qname": "a", "value": [1, 2]}', DerivedElement),
    ('[{"qname": "a", "value": null}]', None),
):
    try:
        res = JsonParser().from_string(doc, clazz)
        print(doc, clazz, "->", res)
    except (ParserError, ConverterError, XmlContextError) as e:
        print(doc, clazz, "-> clean", type(e).__name__, e)
    except Exception as e:
        print(doc, clazz, "-> VIOLATION leaked", type(e).__name__, e)
        bad += 1
sys.exit(1 if bad else 0)
