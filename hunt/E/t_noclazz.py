import warnings, logging, traceback, sys, dataclasses, gc
warnings.simplefilter("ignore"); logging.disable(logging.CRITICAL)
import xsdata.formats.dataclass.serializers, xsdata.formats.dataclass.parsers, xsdata.formats.dataclass.parsers.tree
import xsdata.models.config, xsdata.models.xsd, xsdata.models.wsdl, xsdata.models.dtd, xsdata.codegen.models
try:
    import xsdata.formats.dataclass.client
except Exception as e: print("client", e)
from xsdata.formats.dataclass.parsers import XmlParser, JsonParser
from xsdata.formats.dataclass.parsers.handlers import XmlEventHandler
from xsdata.formats.dataclass.context import XmlContext
from xsdata.exceptions import ParserError, ConverterError, XmlContextError
from dataclasses import dataclass, field
from typing import Optional, List
@dataclass
class Holder:
    anyt: Optional[object] = field(default=None, metadata={"type": "Element"})
    w: List[object] = field(default_factory=list, metadata={"type": "Wildcard"})
ctx = XmlContext()
ctx.build_xsi_cache()
names = sorted(ctx.xsi_cache)
print(len(names))
seen=set()
XSI='xmlns:xsi="http://www.w3.org/2001/XMLSchema-instance"'
def attempt(label, fn):
    try:
        fn()
    except (ParserError, ConverterError, XmlContextError):
        pass
    except Exception as e:
        tb = traceback.extract_tb(e.__traceback__)[-1]
        key = (type(e).__name__, tb.filename.split("/")[-1], tb.lineno)
        if key not in seen:
            seen.add(key); print("LEAK", key, str(e)[:100], label, flush=True)
import re
for qn in names:
    m = re.match(r"\{(.*)\}(.*)", qn)
    ns, local = (m.group(1), m.group(2)) if m else ("", qn)
    for body in ("", "text", "<a>1</a>", "<value>1</value><name>x</name>"):
        doc = f'<p:{local} xmlns:p="{ns}" a="1">{body}</p:{local}>' if ns else f'<{local} a="1">{body}</{local}>'
        attempt(("root", qn, body), lambda: XmlParser(handler=XmlEventHandler, context=ctx).from_string(doc))
        doc = f'<Holder {XSI} xmlns:p="{ns}"><anyt xsi:type="p:{local}">{body}</anyt></Holder>' if ns else f'<Holder {XSI}><anyt xsi:type="{local}">{body}</anyt></Holder>'
        attempt(("anyt", qn, body), lambda: XmlParser(handler=XmlEventHandler, context=ctx).from_string(doc, Holder))
        doc = f'<Holder><p:{local} xmlns:p="{ns}" a="1">{body}</p:{local}></Holder>' if ns else f'<Holder><{local} a="1">{body}</{local}></Holder>'
        attempt(("wild", qn, body), lambda: XmlParser(handler=XmlEventHandler, context=ctx).from_string(doc, Holder))
    attempt(("json", qn), lambda: JsonParser(context=ctx).from_string('{"w": [{"qname": "a", "type": %r, "value": {"a": 1}}]}'.replace("'", '"') % qn, Holder))
# json no clazz: keys from each class
for qn in names:
    for clazz in ctx.xsi_cache[qn]:
        try:
            keys = [f.name for f in dataclasses.fields(clazz)]
        except Exception: continue
        import json
        for val in (1, "x", None, [], {}, [1], {"a": 1}):
            doc = json.dumps({k: val for k in keys[:3]})
            attempt(("json-noclazz", qn, val), lambda: JsonParser(context=ctx).from_string(doc))
print("done")
