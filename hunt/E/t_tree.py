import warnings; warnings.simplefilter("ignore")
from dataclasses import dataclass, field
from typing import Optional, List
import lxml.etree as LE
import xml.etree.ElementTree as ET
from xsdata.formats.dataclass.parsers import XmlParser
from xsdata.formats.dataclass.parsers.handlers import XmlEventHandler, LxmlEventHandler
@dataclass
class R:
    a: Optional[str] = field(default=None, metadata={"type": "Element"})
    w: List[object] = field(default_factory=list, metadata={"type": "Wildcard", "namespace": "##any", "mixed": True})
doc = '<!DOCTYPE R [<!ENTITY e "ent">]><R>t<!-- c --><a>x<!-- c -->y<?pi x?>z&e;</a><?pi y?>tail<b>&e;</b></R>'
def t(label, fn):
    try: print(label, fn())
    except Exception as e: print(label, "EXC", type(e).__name__, e)
t("lxml tree", lambda: XmlParser(handler=LxmlEventHandler).parse(LE.fromstring(doc), R))
t("lxml tree noent", lambda: XmlParser(handler=LxmlEventHandler).parse(LE.fromstring(doc, LE.XMLParser(resolve_entities=False)), R))
t("lxml elementtree", lambda: XmlParser(handler=LxmlEventHandler).parse(LE.ElementTree(LE.fromstring(doc)), R))
p = ET.XMLParser(target=ET.TreeBuilder(insert_comments=True, insert_pis=True))
t("et tree comments", lambda: XmlParser(handler=XmlEventHandler).parse(ET.fromstring(doc, parser=p), R))
t("et tree", lambda: XmlParser(handler=XmlEventHandler).parse(ET.fromstring(doc), R))
t("lxml comment root", lambda: XmlParser(handler=LxmlEventHandler).parse(LE.fromstring(doc)[0], R))
t("native with lxml tree", lambda: XmlParser(handler=XmlEventHandler).parse(LE.fromstring(doc), R))
t("lxml with ET tree", lambda: XmlParser(handler=LxmlEventHandler).parse(ET.fromstring(doc), R))
