"""C15: the pure-python handler leaks ValueError / UnicodeError when the xml
declaration names an encoding python knows but pyexpat cannot use (every
multi-byte codec: shift_jis, euc-jp, gb2312, big5, euc-kr, ... and idna,
punycode, undefined). Only SyntaxError/LookupError are converted to ParserError."""
import sys
from dataclasses import dataclass, field
from typing import Optional

from xsdata.exceptions import ConverterError, ParserError, XmlContextError
from xsdata.formats.dataclass.parsers import XmlParser
from xsdata.formats.dataclass.parsers.handlers import XmlEventHandler


@dataclass
class R:
    a: Optional[str] = field(default=None, metadata={"type": "Element"})


bad = 0
for enc in ("shift_jis", "euc-jp", "gb2312", "big5", "euc-kr", "idna", "undefined"):
    doc = f'<?xml version="1.0" encoding="{enc}"?><R><a>x</a></R>'.encode("ascii")
    try:
        res = XmlParser(handler=XmlEventHandler).from_bytes(doc, R)
        print(enc, "->", res)
    except (ParserError, ConverterError, XmlContextError) as e:
        print(enc, "-> clean", type(e).__name__)
    except Exception as e:
        print(enc, "-> VIOLATION leaked", type(e).__name__, e)
        bad += 1

sys.exit(1 if bad else 0)
