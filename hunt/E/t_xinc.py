import warnings; warnings.simplefilter("ignore")
from dataclasses import dataclass, field
from typing import Optional
from xsdata.formats.dataclass.parsers import XmlParser
from xsdata.formats.dataclass.parsers.config import ParserConfig
from xsdata.formats.dataclass.parsers.handlers import XmlEventHandler, LxmlEventHandler
@dataclass
class R:
    a: Optional[str] = field(default=None, metadata={"type": "Element"})
open("/tmp/hunt/E/inc_ok.xml","w").write("<a>1</a>")
open("/tmp/hunt/E/inc_bad.xml","w").write("<a>1</b>")
XI='xmlns:xi="http://www.w3.org/2001/XInclude"'
docs = [f'<R {XI}><xi:include href="inc_ok.xml"/></R>', f'<R {XI}><xi:include href="inc_missing.xml"/></R>', f'<R {XI}><xi:include href="inc_bad.xml"/></R>',
        f'<R {XI}><xi:include/></R>', f'<R {XI}><xi:include href="inc_ok.xml" parse="bogus"/></R>', f'<R {XI}><xi:include href="inc_ok.xml" parse="text" encoding="nope"/></R>',
        f'<R {XI}><xi:include href="inc_ok.xml" xpointer="xpointer(//zz)"/></R>', f'<R {XI}><xi:fallback/></R>', f'<R {XI}><xi:include href="inc_missing.xml"><xi:fallback><a>f</a></xi:fallback></xi:include></R>', f'<R {XI}><a>1</a']
for d in docs:
    for h in (XmlEventHandler, LxmlEventHandler):
        try:
            r = XmlParser(handler=h, config=ParserConfig(process_xinclude=True, base_url="/tmp/hunt/E/")).from_string(d, R)
            print(h.__name__, d[48:], "->", r)
        except Exception as e:
            print(h.__name__, d[48:], "-> EXC", type(e).__mro__[:3], str(e)[:80])
