"""C15: with ParserConfig(process_xinclude=True) and the lxml handler, a faulty
xi:include (corrupted parse attribute, misplaced xi:fallback, missing href, or an
included file that is not well-formed) leaks lxml.etree.XIncludeError, which is
neither a SyntaxError (so NodeParser.parse does not convert it) nor an xsdata error.
The pure-python handler raises ParserError for the very same documents."""
import os
import sys
import tempfile
from dataclasses import dataclass, field
from typing import Optional

from xsdata.exceptions import ConverterError, ParserError, XmlContextError
from xsdata.formats.dataclass.parsers import XmlParser
from xsdata.formats.dataclass.parsers.config import ParserConfig
from xsdata.formats.dataclass.parsers.handlers import LxmlEventHandler, XmlEventHandler


@dataclass
class R:
    a: Optional[str] = field(default=None, metadata={"type": "Element"})


tmp = tempfile.mkdtemp(dir="/tmp/hunt/E")
with open(os.path.join(tmp, "ok.xml"), "w") as fp:
    fp.write("<a>1</a>")
with open(os.path.join(tmp, "bad.xml"), "w") as fp:
    fp.write("<a>1</b>")

XI = 'xmlns:xi="http://www.w3.org/2001/XInclude"'
config = ParserConfig(process_xinclude=True, base_url=tmp + "/")
valid = f'<R {XI}><xi:include href="ok.xml"/></R>'
print("valid:", XmlParser(handler=LxmlEventHandler, config=config).from_string(valid, R))

docs = [
    f'<R {XI}><xi:include href="ok.xml" parse="bogus"/></R>',  # corrupted attribute
    f'<R {XI}><xi:fallback/></R>',  # misplaced element
    f'<R {XI}><xi:include/></R>',  # deleted attribute
    f'<R {XI}><xi:include href="bad.xml"/></R>',  # included file not well-formed
]
bad = 0
for doc in docs:
    for handler in (XmlEventHandler, LxmlEventHandler):
        try:
            res = XmlParser(handler=handler, config=config).from_string(doc, R)
            print(handler.__name__, doc[45:], "->", res)
        except (ParserError, ConverterError, XmlContextError) as e:
            print(handler.__name__, doc[45:], "-> clean", type(e).__name__)
        except OSError as e:
            print(handler.__name__, doc[45:], "-> OSError (not counted)", e)
        except Exception as e:
            print(handler.__name__, doc[45:], "-> VIOLATION leaked", type(e).__module__, type(e).__name__, str(e)[:60])
            bad += 1
sys.exit(1 if bad else 0)
