"""C15 (JSON/dict decoder): a well-formed JSON document with ~250 nested generic
elements (10 KB; json.load reads it without trouble, and the XML parsers bind the
equivalent XML iteratively) overflows the python stack inside DictDecoder and leaks
RecursionError instead of a ParserError."""
import json
import sys
from dataclasses import dataclass, field
from typing import List

from xsdata.exceptions import ConverterError, ParserError, XmlContextError
from xsdata.formats.dataclass.parsers import JsonParser, XmlParser
from xsdata.formats.dataclass.parsers.handlers import XmlEventHandler
from xsdata.formats.dataclass.serializers import JsonSerializer


@dataclass
class Doc:
    body: List[object] = field(default_factory=list, metadata={"type": "Wildcard", "namespace": "##any"})


def nested(depth):
    obj = {"qname": "leaf", "text": "x", "children": [], "attributes": {}}
    for _ in range(depth):
        obj = {"qname": "div", "children": [obj], "attributes": {}}
    return json.dumps({"body": [obj]})


bad = 0
for depth in (50, 200, 300, 600):
    # the same content as xml binds fine
    xml = "<Doc>" + "<div>" * depth + "<leaf>x</leaf>" + "</div>" * depth + "</Doc>"
    XmlParser(handler=XmlEventHandler).from_string(xml, Doc)
    doc = nested(depth)
    json.loads(doc)  # the loader is fine with it
    try:
        JsonParser().from_string(doc, Doc)
        print(depth, len(doc), "bytes: ok")
    except (ParserError, ConverterError, XmlContextError) as e:
        print(depth, "clean", type(e).__name__)
    except RecursionError as e:
        print(depth, len(doc), "bytes: VIOLATION leaked RecursionError")
        bad += 1
sys.exit(1 if bad else 0)
