"""C15 (bounded time, JSON/dict decoder): DictDecoder.bind_complex_type tries the
field class and each of its subclasses through bind_best_dataclass, and every
attempt recurses into the nested field and tries all of them again -> k**depth.
A plain recursive model (Node.child: Node) with ONE subclass makes a 1 KB JSON
document (40 levels) effectively never return; with a mistyped leaf it is the same."""
import json
import signal
import sys
import time
import warnings
from dataclasses import dataclass, field
from typing import Optional

from xsdata.formats.dataclass.parsers import JsonParser

warnings.simplefilter("ignore")


@dataclass
class Node:
    name: Optional[str] = field(default=None, metadata={"type": "Attribute"})
    size: Optional[int] = field(default=None, metadata={"type": "Attribute"})
    child: Optional["Node"] = field(default=None, metadata={"type": "Element"})


@dataclass
class Special(Node):
    extra: Optional[int] = field(default=None, metadata={"type": "Attribute"})


def doc(depth, leaf):
    obj = leaf
    for _ in range(depth):
        obj = {"name": "n", "child": obj}
    return json.dumps(obj)


times = {}
for d in (8, 10, 12, 14):
    t = time.time()
    JsonParser().from_string(doc(d, {"name": "leaf"}), Node)
    times[d] = time.time() - t
    print(f"depth {d:2d} ({len(doc(d, {'name': 'leaf'}))} bytes): {times[d]:.3f}s")
print("growth per extra level ~", round((times[14] / times[10]) ** 0.25, 2))


class Timeout(BaseException):  # bind_best_dataclass suppresses every Exception
    pass


def on_alarm(*_):
    raise Timeout


LIMIT = 20
signal.signal(signal.SIGALRM, on_alarm)
signal.alarm(LIMIT)
bad = doc(40, {"name": "leaf", "size": "not-a-number"})
try:
    JsonParser().from_string(bad, Node)
    signal.alarm(0)
    print("returned in time")
    sys.exit(0)
except Timeout:
    print(f"VIOLATION: {len(bad)} byte document still decoding after {LIMIT}s")
    sys.exit(1)
