"""C15: a 60 byte document makes the parser allocate gigabytes / raise MemoryError.

A mixed-content model (what the generator emits for <xs:complexType mixed="true">
with an xs:decimal child) stores primitive children of the mixed wildcard as
AnyElement(text=converter.serialize(value)).  The corrupted value `1E+99999999999`
is accepted by DecimalConverter.deserialize (python Decimal allows exponents,
xs:decimal does not) and then DecimalConverter.serialize renders it with
f"{value:f}", i.e. a string with 10**11 zeros -> MemoryError (with 1E+999999999 it
"succeeds" after ~13s and 1GB).  MemoryError is not a parsing/conversion error."""
import resource
import sys
import time
from dataclasses import dataclass, field
from decimal import Decimal
from typing import List

from xsdata.exceptions import ConverterError, ParserError, XmlContextError
from xsdata.formats.dataclass.parsers import XmlParser
from xsdata.formats.dataclass.parsers.handlers import LxmlEventHandler, XmlEventHandler

# keep the box safe, the violation shows long before the cap matters
resource.setrlimit(resource.RLIMIT_AS, (3 * 1024**3, 3 * 1024**3))


@dataclass
class Para:
    content: List[object] = field(
        default_factory=list,
        metadata={
            "type": "Wildcard",
            "namespace": "##any",
            "mixed": True,
            "choices": ({"name": "amount", "type": Decimal},),
        },
    )


ok = XmlParser().from_string("<Para>pay <amount>1.50</amount> now</Para>", Para)
print("valid document:", ok)

bad = 0
for handler in (XmlEventHandler, LxmlEventHandler):
    doc = "<Para>pay <amount>1E+99999999999</amount> now</Para>"
    start = time.time()
    try:
        res = XmlParser(handler=handler).from_string(doc, Para)
        print(handler.__name__, "returned", type(res).__name__, "after", round(time.time() - start, 2), "s")
    except (ParserError, ConverterError, XmlContextError) as e:
        print(handler.__name__, "clean", type(e).__name__)
    except BaseException as e:
        print(handler.__name__, "VIOLATION leaked", type(e).__name__, str(e)[:80])
        bad += 1

sys.exit(1 if bad else 0)
