import warnings, logging, sys, copy, traceback, json
warnings.simplefilter("ignore")
logging.disable(logging.CRITICAL)
from zoo import *
from zoo_docs import *
from xsdata.formats.dataclass.parsers import XmlParser, JsonParser, DictDecoder
from xsdata.formats.dataclass.serializers import JsonSerializer
from xsdata.formats.dataclass.context import XmlContext
from xsdata.formats.dataclass.parsers.config import ParserConfig
from xsdata.exceptions import ParserError, ConverterError, XmlContextError

ctx = XmlContext()
configs = [ParserConfig(), ParserConfig(fail_on_unknown_properties=False), ParserConfig(fail_on_converter_warnings=True)]
seen = {}
count = 0
def run(data, cls, label):
    global count
    for ci, cfg in enumerate(configs):
        for c in (cls, None):
            count += 1
            try:
                res = JsonParser(config=cfg, context=ctx).from_string(data, c)
            except (ParserError, ConverterError, XmlContextError):
                pass
            except Exception as e:
                tb = traceback.extract_tb(e.__traceback__)[-1]
                key = (type(e).__name__, tb.filename.split("/")[-1], tb.lineno)
                if key not in seen:
                    seen[key] = (label, data)
                    print("LEAK", key, str(e)[:100], ci, c, label, flush=True)
                    print("   ", data[:2000], flush=True)

ANY = {"qname": "a", "text": "t", "tail": None, "children": [], "attributes": {}}
NASTY = [None, [], {}, [None], [[]], [[1]], [{}], {"a": 1}, 0, 1, -1, 1.5, True, False, "", "x", "1", "red", 10**400, 1e308*10, float("nan"), [1, "a"], ["a", None], {"qname": "a", "value": 1}, {"qname": "a", "value": {}, "type": "x"}, {"qname": "a", "value": {"id": "1"}, "type": "{urn:zoo}Leaf"}, {"qname": None, "value": None}, {"qname": 1, "value": [1]}, {"qname": "a", "value": None, "type": None},
         ANY, {"qname": "a", "children": [1, None, {}, []], "attributes": []}, {"qname": "a", "children": None, "attributes": None}, {"qname": "a", "children": {}, "attributes": {"a": 1}}, {"qname": {}, "children": [ANY, {"qname": "a", "value": 1}], "attributes": {}, "text": 5, "tail": []},
         {"id": "1", "value": 2}, [{"id": "1"}], {"value": "x"}, {"name": "n"}, {"name": 1, "fixed": "G"}, "P1D", "2020-01-01", ["red"], [["red"]], "red green", {"": 1}]

def paths(obj, prefix=()):
    yield prefix
    if isinstance(obj, dict):
        for k, v in obj.items():
            yield from paths(v, prefix + (k,))
    elif isinstance(obj, list):
        for i, v in enumerate(obj):
            yield from paths(v, prefix + (i,))

def setp(obj, path, value):
    if not path:
        return value
    o = obj
    for p in path[:-1]:
        o = o[p]
    o[path[-1]] = value
    return obj

def delp(obj, path):
    o = obj
    for p in path[:-1]:
        o = o[p]
    del o[path[-1]]
    return obj

def getp(obj, path):
    for p in path:
        obj = obj[p]
    return obj

def mutations(doc):
    for path in list(paths(doc)):
        for v in NASTY:
            yield f"set {path} = {str(v)[:30]}", setp(copy.deepcopy(doc), path, copy.deepcopy(v))
        if path:
            yield f"del {path}", delp(copy.deepcopy(doc), path)
            cur = getp(doc, path)
            yield f"wrap {path}", setp(copy.deepcopy(doc), path, [copy.deepcopy(cur)])
            yield f"wrapd {path}", setp(copy.deepcopy(doc), path, {"qname": "a", "value": copy.deepcopy(cur)})
            if isinstance(path[-1], str):
                d = copy.deepcopy(doc); parent = getp(d, path[:-1]); parent["bogus"] = parent.pop(path[-1]); yield f"rename {path}", d
                # move value to each other key of same parent
                parent0 = getp(doc, path[:-1])
                for k in parent0:
                    if k != path[-1]:
                        d = copy.deepcopy(doc); getp(d, path[:-1])[k] = copy.deepcopy(cur); yield f"copy {path} -> {k}", d

if __name__ == "__main__":
    which = sys.argv[1] if len(sys.argv) > 1 else "all"
    for name, doc, cls in (("wildlist", WILDLIST, WildList), ("wildone", WILDONE, WildOne), ("frozen", FROZEN, Frozen), ("root", ROOT, Root)):
        if which not in ("all", name): continue
        obj = XmlParser(context=ctx).from_string(doc, cls)
        js = JsonSerializer(context=ctx).render(obj)
        base = json.loads(js)
        for label, d in mutations(base):
            run(json.dumps(d), cls, label)
        print(name, "done", count, flush=True)
