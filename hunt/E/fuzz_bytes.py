import warnings, logging, random, traceback, time
warnings.simplefilter("ignore"); logging.disable(logging.CRITICAL)
from zoo import *
from zoo_docs import *
from xsdata.formats.dataclass.parsers import XmlParser, JsonParser
from xsdata.formats.dataclass.parsers.handlers import XmlEventHandler, LxmlEventHandler
from xsdata.exceptions import ParserError, ConverterError, XmlContextError
from xsdata.formats.dataclass.context import XmlContext
import xml.etree.ElementTree as ET
ctx = XmlContext()
rnd = random.Random(5)
seen = set()
def run(data, cls, label):
    wf = True
    try:
        ET.fromstring(data)
    except Exception:
        wf = False
    for h in (XmlEventHandler, LxmlEventHandler):
        try:
            XmlParser(handler=h, context=ctx).from_bytes(data, cls)
            if not wf and h is XmlEventHandler:
                print("ACCEPTED-NOT-WF", label, data[:200])
        except (ParserError, ConverterError, XmlContextError):
            pass
        except Exception as e:
            tb = traceback.extract_tb(e.__traceback__)[-1]
            key = (type(e).__name__, tb.filename.split("/")[-1], tb.lineno)
            if key not in seen:
                seen.add(key); print("LEAK", h.__name__, key, str(e)[:100], label, data[:300], flush=True)
t0 = time.time()
for doc, cls in ((WILDLIST, WildList), (FROZEN, Frozen), (ROOT, Root)):
    b = doc.encode()
    step = 1 if len(b) < 600 else 7
    for i in range(0, len(b), step):
        run(b[:i], cls, f"trunc {i}")
        for _ in range(2):
            bb = bytearray(b); bb[i] = rnd.randrange(256); run(bytes(bb), cls, f"flip {i}")
        bb = bytearray(b); del bb[i]; run(bytes(bb), cls, f"delbyte {i}")
        bb = bytearray(b); bb.insert(i, rnd.choice(b"<>&\"'/ =:;#x\x00\xff]![")); run(bytes(bb), cls, f"ins {i}")
    print(cls.__name__, time.time() - t0, flush=True)
for n in range(3000):
    data = bytes(rnd.randrange(256) for _ in range(rnd.randrange(0, 60)))
    run(data, Root, "random")
    data = bytes(rnd.choice(b"<>/ab =\"'&;:!-[]?x") for _ in range(rnd.randrange(0, 40)))
    run(data, WildList, "random-xmlish")
print("done")
