XSI = 'xmlns:xsi="http://www.w3.org/2001/XMLSchema-instance" xmlns:xs="http://www.w3.org/2001/XMLSchema"'
ROOT = f'''<z:root xmlns:z="urn:zoo" xmlns:o="urn:other" {XSI} req="3" atoks="1.5 2 INF" aq="z:name" afix="6162" o:extra="z:v" xml:lang="en">
  <z:leaf id="a" kind="leaf">1</z:leaf>
  <z:items><z:item id="b">2</z:item><z:item id="c" xsi:type="z:Leaf2" extra="2020-01-01">3</z:item></z:items>
  <z:ns><z:n>1</z:n><z:n>2</z:n></z:ns>
  <z:union id="u">5</z:union>
  <z:unions><z:name>nm</z:name><z:fixed>F</z:fixed></z:unions>
  <z:unions id="x">9</z:unions>
  <z:ci>1</z:ci><z:ci xsi:nil="true"/><z:cs>s</z:cs><z:cl id="cl">4</z:cl><z:cd>P1D</z:cd><z:ct>1 2 3</z:ct><o:w a="1">t<o:x/>tail</o:w>
  <z:anyt xsi:type="xs:int">5</z:anyt>
  <z:anyts xsi:type="z:Leaf" id="q">1</z:anyts><z:anyts xsi:type="xs:hexBinary">6162</z:anyts><z:anyts>plain</z:anyts><z:anyts xsi:nil="true"/><z:anyts><o:deep>1</o:deep></z:anyts>
  <z:nil a="1" xsi:nil="true"/>
  <z:nilp xsi:nil="true"/>
  <z:nilps>a</z:nilps><z:nilps xsi:nil="true"/>
  <z:mixed xml:lang="en">text<z:b id="m">1</z:b>mid<z:i>5</z:i><z:d>2020-01-01</z:d><o:zz>q</o:zz>tail</z:mixed>
  <z:color>red</z:color><z:num>1.5</z:num><z:toks>a b</z:toks><z:qe>z:q</z:qe><z:colors>red green</z:colors>
  <z:q>xs:int</z:q><z:hexb>6162</z:hexb><z:b64s>YWI= YWI=</z:b64s><z:dt>2020-01-01 10:00</z:dt><z:xdt>2020-01-01T10:00:00Z</z:xdt><z:xt>10:00:00.5+01:00</z:xt><z:per>--12-01</z:per>
  <z:dec>1.50</z:dec><z:flt>NaN</z:flt><z:flag>true</z:flag><z:fixed_el>7</z:fixed_el><z:fixed_nan>NaN</z:fixed_nan>
  <o:wild o:a="b">x<o:c>1</o:c></o:wild>
</z:root>'''
WILDLIST = f'''<z:WildList xmlns:z="urn:zoo" xmlns:o="urn:other" {XSI} a="1" o:b="o:c">head<z:a>1</z:a>mid<o:b xsi:type="xs:date">2020-01-01</o:b><z:Leaf id="1">5</z:Leaf><z:c xsi:type="z:Leaf" id="2">5</z:c>tail</z:WildList>'''
WILDONE = f'''<z:WildOne xmlns:z="urn:zoo" xmlns:o="urn:other" {XSI}><z:a>x</z:a><o:b xsi:type="xs:base64Binary">YWI=</o:b><o:c>2</o:c><z:Leaf id="1">5</z:Leaf>tail</z:WildOne>'''
FROZEN = f'''<z:Frozen xmlns:z="urn:zoo" xmlns:o="urn:other" {XSI}><z:xs>1</z:xs><z:xs>2</z:xs><z:ts>a b</z:ts><o:any>1</o:any><z:sub><z:xs>3</z:xs><z:sub/></z:sub></z:Frozen>'''
