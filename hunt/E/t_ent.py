import time, warnings
warnings.simplefilter("ignore")
from dataclasses import dataclass, field
from typing import Optional, List
from xsdata.formats.dataclass.parsers import XmlParser
from xsdata.formats.dataclass.parsers.config import ParserConfig
from xsdata.formats.dataclass.parsers.handlers import XmlEventHandler, LxmlEventHandler
import pyexpat; print(pyexpat.EXPAT_VERSION)
@dataclass
class R:
    a: Optional[str] = field(default=None, metadata={"type": "Element"})

ents = '<!ENTITY a0 "aaaaaaaaaa">' + "".join(f'<!ENTITY a{i} "{"&a%d;" % (i-1) * 10}">' for i in range(1, 10))
docs = {
 "laughs": f'<!DOCTYPE R [{ents}]><R><a>&a9;</a></R>',
 "quad": '<!DOCTYPE R [<!ENTITY a "' + "a"*100000 + '">]><R><a>' + "&a;"*100000 + '</a></R>',
 "ext": '<!DOCTYPE R [<!ENTITY a SYSTEM "file:///etc/passwd">]><R><a>&a;</a></R>',
 "extdtd": '<!DOCTYPE R SYSTEM "file:///nonexistent.dtd"><R><a>&a;</a></R>',
 "pe": '<!DOCTYPE R [<!ENTITY % p SYSTEM "file:///nonexistent"> %p;]><R><a>x</a></R>',
 "undef": '<R><a>&nbsp;</a></R>',
 "attr-ent": '<!DOCTYPE R [<!ENTITY a "&#60;">]><R a="&a;"><a>x</a></R>',
 "rec": '<!DOCTYPE R [<!ENTITY a "&b;"><!ENTITY b "&a;">]><R><a>&a;</a></R>',
 "elem-in-ent": '<!DOCTYPE R [<!ENTITY a "<a>1</a><a>2</a>">]><R>&a;</R>',
 "attlist-default": '<!DOCTYPE R [<!ATTLIST a x CDATA "d">]><R><a>1</a></R>',
}
for name, doc in docs.items():
    for h in (XmlEventHandler, LxmlEventHandler):
        for cfg in (ParserConfig(), ParserConfig(load_dtd=True)):
            t = time.time()
            try:
                r = XmlParser(handler=h, config=cfg).from_string(doc, R)
                out = f"ok len={len(r.a or '')} {r.a[:30] if r.a else r.a!r}"
            except Exception as e:
                out = f"{type(e).__name__}: {str(e)[:80]}"
            print(name, h.__name__, cfg.load_dtd, round(time.time()-t, 2), out)
