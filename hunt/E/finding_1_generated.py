"""C18: same violation as finding_1 but with models produced by the code generator
(two namespaces that both define a complexType `Address`, structure style
`namespaces`) and an instance produced by XmlParser."""
import os
import sys
import tempfile
from pathlib import Path

here = Path(__file__).parent
out = tempfile.mkdtemp(dir=here)
os.chdir(out)
sys.path.insert(0, out)

from xsdata.codegen.transformer import ResourceTransformer
from xsdata.models.config import GeneratorConfig, StructureStyle

config = GeneratorConfig()
config.output.package = "genpkg"
config.output.structure_style = StructureStyle.NAMESPACES
ResourceTransformer(config=config).process([(here / "gen" / "b.xsd").as_uri()])

import importlib
importlib.invalidate_caches()
from genpkg.b import Order
from xsdata.formats.dataclass.parsers import XmlParser
from xsdata.formats.dataclass.serializers import PycodeSerializer

xml = ('<order xmlns="urn:b" xmlns:a="urn:a"><billing><a:street>Main</a:street></billing>'
       '<shipping><zip>12345</zip></shipping></order>')
obj = XmlParser().from_string(xml, Order)
print(obj)
code = PycodeSerializer().render(obj)
print(code)
ns = {}
try:
    exec(code, ns)
except Exception as e:
    print("VIOLATION exec raised", type(e).__name__, e)
    sys.exit(1)
if ns["obj"] != obj:
    print("VIOLATION not equal:", ns["obj"])
    sys.exit(1)
print("ok")
