"""C15 (JSON/dict decoder): a derived-element object whose "type" member is not a
string (array or object - a mistyped value) leaks TypeError: unhashable type,
from DataType.from_qname / the xsi cache lookup in XmlContext.find_type."""
import sys
from dataclasses import dataclass, field
from typing import List, Optional

from xsdata.exceptions import ConverterError, ParserError, XmlContextError
from xsdata.formats.dataclass.parsers import JsonParser


@dataclass
class Leaf:
    id: Optional[str] = field(default=None, metadata={"type": "Attribute"})


@dataclass
class Holder:
    items: List[object] = field(default_factory=list, metadata={"type": "Wildcard", "namespace": "##any"})
    one: Optional[Leaf] = field(default=None, metadata={"type": "Element"})


valid = '{"items": [{"qname": "c", "type": "Leaf", "value": {"id": "2"}}]}'
print("valid:", JsonParser().from_string(valid, Holder))

bad = 0
docs = [
    '{"items": [{"qname": "c", "type": ["Leaf"], "value": {"id": "2"}}]}',
    '{"items": [{"qname": "c", "type": {"a": 1}, "value": {"id": "2"}}]}',
    '{"one": {"qname": "c", "type": [], "value": {"id": "2"}}}',
]
for doc in docs:
    try:
        res = JsonParser().from_string(doc, Holder)
        print(doc, "->", res)
    except (ParserError, ConverterError, XmlContextError) as e:
        print(doc, "-> clean", type(e).__name__, e)
    except Exception as e:
        print(doc, "-> VIOLATION leaked", type(e).__name__, e)
        bad += 1
sys.exit(1 if bad else 0)
