import time, sys, resource
resource.setrlimit(resource.RLIMIT_AS, (4*1024**3, 4*1024**3))
from dataclasses import dataclass, field
from decimal import Decimal
from typing import List
from xsdata.formats.dataclass.parsers import XmlParser
from xsdata.formats.dataclass.parsers.handlers import XmlEventHandler, LxmlEventHandler

@dataclass
class Para:
    content: List[object] = field(default_factory=list, metadata={"type": "Wildcard", "namespace": "##any", "mixed": True,
        "choices": ({"name": "amount", "type": Decimal},)})

for exp in ("5", "99999999", "999999999"):
    t = time.time()
    try:
        r = XmlParser(handler=XmlEventHandler).from_string(f"<Para>pay <amount>1E+{exp}</amount> now</Para>", Para)
        print(exp, "ok", len(r.content[1].text), time.time() - t)
    except BaseException as e:
        print(exp, type(e).__name__, str(e)[:80], time.time() - t)
