"""XSD-side IR: seeded schema generator (supported fragment), renderer (1-3 files), instance
generator (schema-valid documents by walking the content models, with a typed shadow of every
leaf), typed comparison of two documents against the spec.  Nothing here imports xsdata.
"""

from __future__ import annotations

import math
import random
from dataclasses import dataclass, field
from decimal import Decimal

from lxml import etree

from vf import lexical as lx

XS = "http://www.w3.org/2001/XMLSchema"
XSI = "http://www.w3.org/2001/XMLSchema-instance"

BUILTINS = ["string", "int", "integer", "long", "short", "byte", "unsignedInt", "positiveInteger", "nonNegativeInteger", "decimal", "float", "double", "boolean",
            "date", "time", "dateTime", "duration", "gYear", "gYearMonth", "gMonthDay", "gMonth", "gDay", "anyURI", "token", "NMTOKEN", "hexBinary", "base64Binary", "language", "QName", "normalizedString", "Name", "NCName"]
INT_RANGES = {"int": (-(2**31), 2**31 - 1), "integer": (-(10**20), 10**20), "long": (-(2**63), 2**63 - 1), "short": (-(2**15), 2**15 - 1), "byte": (-128, 127),
              "unsignedInt": (0, 2**32 - 1), "positiveInteger": (1, 10**12), "nonNegativeInteger": (0, 10**12)}

# the property's own categories: Python hard and soft keywords (incl. None/True/False), names that start with
# digits, contain punctuation or non-ASCII letters, or collide after case conversion
HOSTILE_NAMES = ["class", "def", "None", "True", "False", "import", "from", "lambda", "pass", "match", "case", "type", "_", "return", "global", "async", "await", "in", "is", "not", "with", "yield",
                 "1st", "2", "3d", "a-b", "a.b", "a_b", "aB", "AB", "ab", "Ab", "_a", "a_", "a__b", "x-", "élan", "Ünï", "名前", "foo", "Foo", "FOO", "foo_", "Foo-1", "fooBar", "foo_bar", "foo-bar",
                 "FooBar", "foo.bar", "x" * 70, "a1", "A1", "a-1", "a_1", "_1st", "_2nd-code", "β1x", "é9", "__3", "_-4", "zip-code", "zip_code", "zipCode", "km", "Km", "KM",
                 # names of things the generated modules use themselves (builtins, decorators, imported value types), dunder / sunder names
                 "bytes", "tuple", "dataclass", "XmlDate", "xmlDateTime", "XmlPeriod", "sequence", "Mapping", "ForwardRef", "mro", "__slots__", "__init__", "__module__", "_a_", "__annotations__",
                 # names of the python types the XSD built-ins map to (a no-namespace user type `bytes` next to an xs:hexBinary element)
                 "str", "int", "float", "bool", "Decimal", "QName"]
PYTHON_TYPE_NAMES = {"string": "str", "token": "str", "normalizedString": "str", "int": "int", "integer": "int", "long": "int", "short": "int", "byte": "int", "nonNegativeInteger": "int",
                     "positiveInteger": "int", "unsignedInt": "int", "hexBinary": "bytes", "base64Binary": "bytes", "decimal": "Decimal", "boolean": "bool", "float": "float", "double": "float", "QName": "QName"}
# names that become the same identifier after the naming conventions: 3 or more of one family in one scope
COLLISION_FAMILIES = [["foo_bar", "foo-bar", "fooBar", "FooBar", "foo.bar"], ["a-b", "a.b", "a_b", "aB", "a__b"], ["zip-code", "zip_code", "zipCode", "ZipCode", "zip.code"],
                      ["km", "Km", "KM"], ["a1", "A1", "a-1", "a_1"], ["_1st", "1st", "n1st"],
                      # names that equal what the duplicate-renaming step itself appends (<name>_Element, <name>_Attribute, <name>_<index>)
                      ["ab", "a_b", "ab_Element", "a-b_Element", "ab_1"], ["foo", "Foo", "foo_Attribute", "foo_Element", "Foo_1"]]
# names that are symbols of the generated code itself (not in the property's list; exercised by dedicated probes only)
GENERATED_CODE_SYMBOLS = ["field", "dataclass", "Decimal", "QName", "XmlDate", "Enum", "Any", "Meta", "value", "list", "str", "int", "Optional", "List", "object", "property", "__init__", "__class__"]
# documentation texts end up in docstrings and (accessible style) in metadata strings of the generated modules
HOSTILE_DOCS = ["Plain sentence.", 'Type[x] looks like a placeholder', 'ForwardRef("x") too', 'say """hi""" there', "a path C:\\new\\table\\x and a trailing backslash \\",
                "The value is stored at \\\\server-name\\share-name\\some-directory\\another-directory\\file-name.extension on the file server of the department, see there.",
                "dense path " + "\\x" * 70 + " end", "dense quotes " + '"' * 61 + " end", "a" * 15 + "\\" * 41 + " z",
                "   leading blanks, tabs\tand\nline breaks ", "é 中文 \u2028 separator", "ends with a quote\"", "{braces} and %s and \\N{DASH}", "x" * 200, ""]
PLAIN_NAMES = ["alpha", "beta", "gamma", "delta", "item", "entry", "name", "size", "code", "note", "kind", "part", "unit", "row", "cell", "info", "data", "node", "leaf", "head", "tail", "body"]


@dataclass
class SimpleT:
    name: str | None  # None: anonymous / builtin reference
    base: str  # builtin local name
    enum: list | None = None  # lexical strings
    facets: dict = field(default_factory=dict)
    list_of: "SimpleT | None" = None
    union_of: list | None = None  # [SimpleT]; members given by memberTypes first, then the inline ones (the order XSD tries them in)
    inline: bool = False  # union member declared as an anonymous <xs:simpleType> child instead of through memberTypes

    def ref(self):
        return self.name


@dataclass
class AttrDecl:
    name: str
    type: SimpleT
    use: str = "optional"  # optional | required
    default: str | None = None
    fixed: str | None = None
    qualified: bool = False


@dataclass
class ElemDecl:
    name: str
    type: object  # SimpleT | ComplexT
    min: int = 1
    max: int = 1  # -1 unbounded
    nillable: bool = False
    default: str | None = None
    fixed: str | None = None
    qualified: bool | None = None  # None: schema default
    is_global: bool = False
    ref: bool = False  # particle referencing a global element
    subst_head: str | None = None
    ns: str | None = None  # namespace of a global element (its schema's target namespace)
    doc: str | None = None  # xs:annotation/xs:documentation text


@dataclass
class Group:
    kind: str  # sequence | choice | all
    items: list  # ElemDecl | Group | AnyP | GroupRef
    min: int = 1
    max: int = 1


@dataclass
class AnyP:
    namespace: str = "##other"
    process: str = "lax"
    min: int = 0
    max: int = 1


@dataclass
class GroupRef:
    name: str
    min: int = 1
    max: int = 1


@dataclass
class ComplexT:
    name: str | None
    content: Group | None = None
    attrs: list = field(default_factory=list)
    mixed: bool = False
    base: "ComplexT | None" = None  # complexContent extension
    simple_base: SimpleT | None = None  # simpleContent extension
    any_attribute: bool = False
    attr_groups: list = field(default_factory=list)
    abstract: bool = False
    ns: str | None = None
    doc: str | None = None


@dataclass
class Schema:
    tns: str | None
    efd: bool  # elementFormDefault="qualified"
    afd: bool
    elements: list = field(default_factory=list)  # global ElemDecl
    ctypes: list = field(default_factory=list)
    stypes: list = field(default_factory=list)
    groups: dict = field(default_factory=dict)  # name -> Group
    attr_groups: dict = field(default_factory=dict)  # name -> [AttrDecl]
    file: str = "main.xsd"


@dataclass
class SchemaSet:
    main: Schema
    others: list = field(default_factory=list)  # imported (other tns) / included (same tns) schemas
    salt: str = ""
    order_preserving: bool = True
    features: set = field(default_factory=set)

    def all(self):
        return [self.main] + self.others


# --------------------------------------------------------------------------------------- generator
class ClassNames:
    """Names that become *class* identifiers must stay distinct after the naming conventions (lower-cased,
    punctuation and non-ASCII stripped) and must not be empty after it (the generator then falls back to
    the bare prefix `Type`): identifier collisions between classes are the open known finding
    C07/class-identifiers-collide-after-naming-conventions and are kept out of the main population."""

    def __init__(self):
        self.norms = set()

    def ok(self, n):
        import re

        norm = re.sub(r"[^a-z0-9]", "", n.lower())
        if not norm or norm in ("type", "value"):
            return False
        # safe-name handling may add the prefix (names starting with a digit) or append it (keywords)
        cands = {norm, norm + "type", norm + "value", "type" + norm, "value" + norm}
        if cands & self.norms:
            return False
        self.norms |= cands
        return True


class XsdGen:
    def __init__(self, rng, salt, hostile=False, max_types=4, depth=2, simple=False, nest_p=0.12, cycle_p=0.15, subst_p=0.2):
        self.rng = rng
        self.salt = salt
        self.hostile = hostile
        self.max_types = max_types
        self.depth = depth
        self.simple = simple  # restrict to the order-preserving sub-fragment
        self.nest_p = nest_p  # probability of a nested group per particle
        self.cycle_p = cycle_p  # probability of a reference cycle over 2-3 named types
        self.subst_p = subst_p  # probability of a substitution group
        self.used_global = set()
        self.class_names = ClassNames()
        self.family = None
        self.allow_known_findings = False
        self.feat = set()
        self.third_type = None

    def name(self, used, kind="e"):
        rng = self.rng
        pool = HOSTILE_NAMES if self.hostile and rng.random() < 0.7 else PLAIN_NAMES
        if self.hostile and self.family and rng.random() < 0.75:
            free = [n for n in self.family if n not in used and lx.is_ncname(n)]
            if free:
                n = rng.choice(free)
                used.add(n)
                self.feat.add("name-collision-family")
                return n
        for _ in range(50):
            n = rng.choice(pool)
            if not lx.is_ncname(n):
                n = "n" + n
            if n.lower() not in {u.lower() for u in used} or (self.hostile and n not in used and rng.random() < 0.5):
                if n not in used:
                    used.add(n)
                    return n
        k = 0
        while f"n{k}" in used:
            k += 1
        used.add(f"n{k}")
        return f"n{k}"

    def simple_type(self, schema: Schema, allow_named=True, depth=0):
        rng = self.rng
        r = rng.random()
        base = rng.choice(BUILTINS if not self.simple else ["string", "int", "decimal", "boolean", "date", "dateTime", "double", "token"])
        if r < 0.6 or depth > 0:
            return SimpleT(None, base)
        if r < 0.75:  # enumeration
            self.feat.add("enumeration")
            b = rng.choice(["string", "token", "int", "decimal", "QName"] if not self.hostile else ["string", "token", "int", "decimal"])
            if b in ("string", "token"):
                pool = ["red", "green", "blue", "A", "a", "B-1", "x y" if b == "string" else "x_y", "1", "été", "UPPER", "lower"]
                if self.hostile:
                    pool += ["", " " if b == "string" else "_", "-1", "1.5", "+", "%", "class", "None", "a b" if b == "string" else "ab", "A" * 60, "a", "A", "é", "1a", "_x", "x-", "x.y", "true"]
                vals = rng.sample(pool, rng.randrange(2, min(6, len(pool))))
                if self.hostile and b == "string" and rng.random() < 0.15:  # delimiters: characters that have no unicode name
                    vals = list(dict.fromkeys(vals[:2] + rng.choice([[",", ";", "\t"], ["\n", "\t"], ["\r\n", ","]])))
                    self.feat.add("enumeration-of-control-characters")
                if self.hostile and rng.random() < 0.3:  # members that become the same constant name
                    vals = list(dict.fromkeys(vals[:2] + rng.choice([["km", "Km", "KM"], ["a b" if b == "string" else "a_b", "a-b", "a.b", "A_B"], ["x-", "x.", "X", "x"]])))
            elif b == "int":
                vals = [str(v) for v in rng.sample([0, 1, -1, 10, 255, -32768, 99999], rng.randrange(2, 5))]
            elif b == "decimal":
                vals = rng.sample(["1.5", "2.50", "-0.1", "100"], rng.randrange(2, 4))
            else:
                vals = ["xs:string", "xs:int"]
            t = SimpleT(self.gname("T"), b, enum=vals)
            schema.stypes.append(t)
            return t
        if r < 0.85:  # restriction facets (emitted, not relied on)
            self.feat.add("facets")
            b = rng.choice(["string", "int", "decimal"])
            facets = {"string": {"maxLength": "40", "minLength": "0"}, "int": {"minInclusive": "-100000", "maxInclusive": "100000"}, "decimal": {"fractionDigits": "4", "totalDigits": "12"}}[b]
            if self.hostile and b == "string" and rng.random() < 0.4:
                # patterns that look like the generator's own placeholders, or carry quotes and backslashes (matching every value used here)
                facets = {"pattern": rng.choice(["Type[A-Z]*.*", "ForwardRef(x)?.*", "Literal[a]*.*", '"?.*', "\\\\?.*", "(.|\\s)*"])}
                self.feat.add("pattern-facet")
            t = SimpleT(self.gname("T"), b, facets=facets)
            schema.stypes.append(t)
            return t
        if r < 0.93:  # list
            self.feat.add("list")
            item = SimpleT(None, rng.choice(["int", "token", "date", "boolean", "decimal", "NMTOKEN"]))
            t = SimpleT(self.gname("T"), "list", list_of=item)
            schema.stypes.append(t)
            return t
        self.feat.add("union")
        members = rng.choice([["int", "token"], ["date", "boolean"], ["decimal", "NMTOKEN"], ["int", "boolean"]])
        union_of = [SimpleT(None, m) for m in members]
        if rng.random() < 0.4:
            # memberTypes and inline members in one union (xs:allNNI style): the inline ones come after the listed ones
            listed = rng.choice([["nonNegativeInteger"], ["int"], ["date"], ["int", "boolean"], ["decimal"]])
            inline = rng.choice([SimpleT(None, "token", enum=rng.choice([["unbounded"], ["unbounded", "none"], ["many", "few", "n-a"]]), inline=True),
                                 SimpleT(None, "string", facets={"maxLength": "40", "minLength": "0"}, inline=True) if "boolean" not in listed else SimpleT(None, "token", enum=["maybe"], inline=True)])
            union_of = [SimpleT(None, m) for m in listed] + [inline]
            self.feat.add("union-memberTypes-and-inline")
        t = SimpleT(self.gname("T"), "union", union_of=union_of)
        schema.stypes.append(t)
        return t

    def class_safe(self, n):
        return self.class_names.ok(n)

    def gname(self, prefix):
        used = self.used_global
        if self.hostile and self.rng.random() < 0.6:
            for _ in range(20):
                n = self.name(used)
                if self.class_safe(n):
                    return n
        k = 0
        while f"{prefix}{k}" in used or not self.class_safe(f"{prefix}{k}"):
            k += 1
        used.add(f"{prefix}{k}")
        return f"{prefix}{k}"

    def attrs(self, schema, used):
        rng = self.rng
        out = []
        for _ in range(rng.choice([0, 0, 1, 2, 3])):
            t = self.simple_type(schema)
            a = AttrDecl(self.name(used), t)
            r = rng.random()
            if r < 0.25:
                a.use = "required"
            elif r < 0.45:
                a.default = gen_lexical(rng, t, canonical=True, salt=self.salt)
                self.feat.add("attribute-default")
            elif r < 0.55:
                a.fixed = gen_lexical(rng, t, canonical=True, salt=self.salt)
                self.feat.add("attribute-fixed")
            a.qualified = rng.random() < 0.15
            out.append(a)
        return out

    def occurs(self, allow_many=True):
        rng = self.rng
        r = rng.random()
        if r < 0.45:
            return 1, 1
        if r < 0.65:
            return 0, 1
        if not allow_many:
            return 1, 1
        if r < 0.8:
            return 0, -1
        if r < 0.9:
            return 1, -1
        return rng.choice([(2, 3), (0, 2), (1, 4)])

    def group(self, ss, schema, used, depth, ctypes, gdepth=0):
        rng = self.rng
        kind = rng.choice(["sequence", "sequence", "sequence", "choice"] + ([] if depth else ["all"]))
        g = Group(kind, [])
        if kind == "all":
            ss.order_preserving = False  # instance order of an all group is free, the output follows the declaration
        n = rng.randrange(1, 5)
        for _ in range(n):
            r = rng.random()
            if r < self.nest_p and depth < self.depth and kind != "all" and not self.simple:
                sub = self.group(ss, schema, used, depth + 1, ctypes, gdepth + 1)
                sub.min, sub.max = self.occurs()
                if sub.max != 1 and not (sub.kind == "choice" and all(isinstance(x, ElemDecl) and x.max == 1 for x in sub.items)):
                    ss.order_preserving = False
                self.feat.add(f"nested-{sub.kind}")
                g.items.append(sub)
            elif r < self.nest_p + 0.05 and kind == "sequence" and gdepth == 0 and not self.simple and not any(isinstance(x, AnyP) for x in iter_particles(g)):
                self.feat.add("any")
                g.items.append(AnyP("##other", rng.choice(["lax", "skip"]), 0, rng.choice([1, -1])))
                ss.order_preserving = False
                break  # a wildcard is only safe (UPA) as the last particle
            else:
                e = self.element(ss, schema, used, depth, ctypes)
                if kind == "all":
                    e.min, e.max = rng.choice([(0, 1), (1, 1)])
                g.items.append(e)
        if self.hostile and not self.simple and kind != "all" and rng.random() < 0.2:
            # a sibling named like the python type a built-in of this group maps to, with a type of its own (in a schema without
            # target namespace the class is just `bytes` / `str`: choices are compared by python type name and by class name)
            for x in list(g.items):
                py = PYTHON_TYPE_NAMES.get(x.type.base) if isinstance(x, ElemDecl) and isinstance(x.type, SimpleT) else None
                if py and py not in used and self.class_safe(py):
                    used.add(py)
                    twin = ElemDecl(py, self.complex_type(ss, schema, None, depth + 1, ctypes))
                    twin.min, twin.max = x.min, 1
                    g.items.append(twin)
                    self.feat.add("element-named-like-python-type-of-sibling")
                    break
        if kind == "choice":
            for x in g.items:
                if isinstance(x, ElemDecl):
                    x.min = max(1, x.min) if rng.random() < 0.8 else x.min
        return g

    def element(self, ss, schema, used, depth, ctypes):
        rng = self.rng
        r = rng.random()
        e = ElemDecl(self.name(used), None)
        if r < 0.3 and ctypes:
            e.type = rng.choice(ctypes)
            self.feat.add("complex-child")
        elif r < 0.38 and depth < self.depth and not self.simple:
            e.type = self.complex_type(ss, schema, None, depth + 1, ctypes)
            self.feat.add("anonymous-complex")
            if self.hostile and not self.class_safe(e.name):  # the element name becomes an inner class name
                k = 0
                while f"anon{k}" in used or not self.class_safe(f"anon{k}"):
                    k += 1
                used.add(f"anon{k}")
                e.name = f"anon{k}"
        else:
            e.type = self.simple_type(schema)
            if rng.random() < 0.12 and e.type.base not in ("list", "union", "QName") and not e.type.enum:
                e.default = gen_lexical(rng, e.type, canonical=True, salt=self.salt)
                self.feat.add("element-default")
        e.min, e.max = self.occurs()
        if self.hostile and rng.random() < 0.2:
            e.doc = rng.choice(HOSTILE_DOCS)
            self.feat.add("documentation")
        if rng.random() < 0.1:
            e.nillable = True
            self.feat.add("nillable")
        if rng.random() < 0.1:
            e.qualified = not schema.efd
            self.feat.add("form-override")
        return e

    def nillable_ok(self, e):
        """Two open known findings of C02 are kept out of the population (dedicated probes in vf/props/c02.py):
        an absent optional nillable element comes back as xsi:nil (optional-nillable-absent-becomes-nil), and
        xsi:nil on an element of a list type is lost (nil-on-list-typed-element)."""
        if self.allow_known_findings:
            return True
        if e.min == 0:
            return False
        t = e.type
        return not (isinstance(t, SimpleT) and (t.base == "list" or t.list_of is not None))

    def complex_type(self, ss, schema, name, depth, ctypes):
        rng = self.rng
        used = set()
        ct = ComplexT(name, ns=schema.tns)
        if self.hostile and rng.random() < 0.2:
            ct.doc = rng.choice(HOSTILE_DOCS)
            self.feat.add("documentation")
        if depth <= 1:
            self.family = rng.choice(COLLISION_FAMILIES) if self.hostile and rng.random() < 0.3 else None
        r = rng.random()
        if r < 0.15:
            ct.simple_base = self.simple_type(schema)
            if ct.simple_base.base in ("list", "union"):
                ct.simple_base = SimpleT(None, "string")
            self.feat.add("simple-content")
            if rng.random() < 0.3:
                used.add("value")  # an attribute with the name the generator gives to the text field
                ct.pre_attrs = [AttrDecl("value", SimpleT(None, rng.choice(["string", "int", "token"])), use=rng.choice(["optional", "required"]))]
                self.feat.add("simple-content-attribute-named-value")
        else:
            ct.content = self.group(ss, schema, used, depth, ctypes)
            if rng.random() < 0.08 and not self.simple:
                ct.mixed = True
                self.feat.add("mixed")
                ss.order_preserving = False
        ct.attrs = getattr(ct, "pre_attrs", []) + self.attrs(schema, used)
        if rng.random() < 0.08:
            ct.any_attribute = True
            self.feat.add("anyAttribute")
        return ct

    def schema_set(self) -> SchemaSet:
        rng = self.rng
        salt = self.salt
        tns = rng.choice([f"urn:xsdgen:{salt}:main", f"http://xsdgen.test/{salt}/main", None])
        if self.hostile and rng.random() < 0.12:
            # namespace names are arbitrary strings: quotes, backslashes (they end up in string literals of the generated modules)
            tns = rng.choice([f"urn:corp:C:\\schemas\\users:{salt}", f'urn:"quoted":{salt}', f"urn:it's:{salt}", f"urn:x\\u:{salt}"])
            self.feat.add("namespace-with-quotes-or-backslashes")
        main = Schema(tns, efd=rng.random() < 0.6, afd=rng.random() < 0.15)
        ss = SchemaSet(main, salt=salt)
        self.feat = ss.features
        ctypes = []
        n_types = rng.randrange(1, self.max_types + 1)
        # imported schema (other namespace) with a type and a global element
        other = None
        if rng.random() < (0.45 if self.hostile else 0.4) and tns and not self.simple:
            other = Schema(f"urn:xsdgen:{salt}:other", efd=rng.random() < 0.7, afd=False, file=rng.choice(["other.xsd", "other.xsd", "other_base_types.xsd", "common_types_v2.xsd"]))  # (module names of several words: import aliases are built from the words two module paths differ in)
            want_third = rng.random() < 0.3
            third_tns = f"urn:xsdgen:{salt}:third"
            if rng.random() < 0.3:
                # mirrored namespace names: the package paths hold the same words in another order
                if want_third:
                    other.tns, third_tns = f"http://{salt}.mirror/", f"http://mirror.{salt}/"
                else:
                    main.tns, other.tns = f"http://{salt}.mirror/", f"http://mirror.{salt}/"
                self.feat.add("mirrored-namespace-names")
            oct = self.complex_type(ss, other, self.gname("OtherType"), self.depth, [])
            other.ctypes.append(oct)
            ge = ElemDecl(self.gname("otherEl"), SimpleT(None, rng.choice(["string", "int", "date"])), is_global=True, ns=other.tns)
            other.elements.append(ge)
            ss.others.append(other)
            ctypes.append(oct)
            self.feat.add("import")
            if want_third:
                # a third schema whose type has the very name of the second one's: a module using both needs two aliases
                third = Schema(third_tns, efd=other.efd, afd=False, file="third.xsd")
                tct = self.complex_type(ss, third, oct.name, self.depth, [])
                third.ctypes.append(tct)
                ss.others.append(third)
                ctypes.append(tct)
                self.third_type = tct
                self.feat.add("same-type-name-in-two-imported-schemas")
        for i in range(n_types):
            ct = self.complex_type(ss, main, self.gname("Type"), 0, list(ctypes))
            main.ctypes.append(ct)
            ctypes.append(ct)
        # extension + xsi:type
        if rng.random() < 0.35 and main.ctypes and not self.simple:
            base = rng.choice([c for c in main.ctypes if c.content is not None and c.content.kind == "sequence"] or [None])
            if base is not None:
                ext = ComplexT(self.gname("Ext"), ns=main.tns, base=base, mixed=base.mixed)
                used = names_of(base)
                ext.content = Group("sequence", [self.element(ss, main, used, self.depth, []) for _ in range(rng.randrange(0, 3))])
                ext.attrs = [a for a in self.attrs(main, used)]
                main.ctypes.append(ext)
                self.feat.add("extension")
        # recursion: an optional element of its own type
        if rng.random() < 0.2 and main.ctypes:
            c = rng.choice([c for c in main.ctypes if c.content is not None and c.content.kind != "all"] or [None])
            if c is not None:
                used = names_of(c)
                for d in main.ctypes:  # names of its extensions too (the content models are concatenated)
                    if d.base is c:
                        used |= names_of(d)
                insert_before_any(c.content, ElemDecl(self.name(used), c, min=0, max=rng.choice([1, -1])))
                if c.content.kind == "choice":
                    pass
                self.feat.add("recursion")
        # reference cycle over 2-3 named types: each gets an optional element of the next type
        cyc = [c for c in main.ctypes if c.content is not None and c.content.kind == "sequence" and c.base is None and not any(d.base is c for d in main.ctypes)]
        if rng.random() < self.cycle_p and len(cyc) >= 2 and not self.simple:
            members = rng.sample(cyc, rng.choice([2, 3, min(4, len(cyc))]) if len(cyc) >= 3 else 2)
            if len(members) >= 3 and rng.random() < 0.5:
                # star: a hub and several spokes that refer to each other (the spokes are peers in any dependency order)
                pairs = [(members[0], m) for m in members[1:]] + [(m, members[0]) for m in members[1:]]
                self.feat.add("type-cycle-star")
            else:
                pairs = list(zip(members, members[1:] + members[:1]))  # ring
            for a, b in pairs:
                insert_before_any(a.content, ElemDecl(self.name(names_of(a)), b, min=0, max=rng.choice([1, 1, -1])))
            self.feat.add("type-cycle")
        # element ref to the imported global element
        if other is not None and main.ctypes:
            c = rng.choice(main.ctypes)
            if c.content is not None and c.content.kind == "sequence" and not any(isinstance(x, AnyP) for x in iter_particles(c.content)) and ge_free(c, other.elements[0].name):
                ge = other.elements[0]
                c.content.items.append(ElemDecl(ge.name, ge.type, min=0, max=1, ref=True, ns=other.tns, is_global=True))
                self.feat.add("element-ref")
        # substitution group: head <- m1 <- m2 (transitive), referenced from a sequence of some type
        if rng.random() < self.subst_p and main.ctypes and not self.simple:
            def mixed_chain(c):  # (an element reference added to a type with a mixed base: open known finding of C02)
                return c is not None and (c.mixed or mixed_chain(c.base))

            host = rng.choice([c for c in main.ctypes if c.content is not None and c.content.kind == "sequence" and not any(isinstance(x, AnyP) for x in iter_particles(c.content))
                               and (self.allow_known_findings or not mixed_chain(c))] or [None])
            if host is not None:
                ht = rng.choice([SimpleT(None, rng.choice(["string", "int", "date"])), rng.choice(main.ctypes)])
                head = ElemDecl(self.gname("head"), ht, is_global=True, ns=main.tns)
                members = [head]
                for i in range(rng.choice([1, 2, 2])):
                    parent = members[-1] if rng.random() < 0.6 else head  # chains (transitive) and siblings
                    m = ElemDecl(self.gname("member"), ht, is_global=True, ns=main.tns, subst_head=parent.name)
                    members.append(m)
                main.elements.extend(members)
                if ge_free(host, head.name) and all(ge_free(host, m.name) for m in members):
                    mn = 0 if isinstance(ht, ComplexT) else rng.choice([0, 1])  # (a required reference could recurse for ever)
                    host.content.items.append(ElemDecl(head.name, ht, min=mn, max=rng.choice([1, -1]), ref=True, ns=main.tns, is_global=True))
                    self.feat.add("substitution-group")
        # the same local type name in both namespaces (legal: the names are qualified): the generator has to keep
        # the two classes apart (import aliases, numeric suffixes where one module/package holds both)
        if other is not None and (rng.random() < 0.6 or "mirrored-namespace-names" in self.feat):
            twin = rng.choice([c for c in main.ctypes if c.name])
            variants = [twin.name]
            if self.hostile:
                variants += [v for v in (twin.name.lower(), twin.name.upper(), twin.name[:1].swapcase() + twin.name[1:]) if v != twin.name and lx.is_ncname(v)]
            other.ctypes[0].name = rng.choice(variants)
            if getattr(self, "third_type", None) is not None:
                self.third_type.name = other.ctypes[0].name
            self.feat.add("same-type-name-in-two-namespaces")
            # ... and both of them as branches of one choice (one compound field naming both classes)
            hosts = [c for c in main.ctypes if c.content is not None and c.content.kind == "sequence" and c.base is None and not c.mixed and not any(d.base is c for d in main.ctypes)]
            if hosts and rng.random() < 0.7:
                host = rng.choice(hosts)
                used = names_of(host)
                branches = [ElemDecl(self.name(used), twin, min=1, max=1), ElemDecl(self.name(used), other.ctypes[0], min=1, max=1)]
                rng.shuffle(branches)
                insert_before_any(host.content, Group("choice", branches, min=0, max=rng.choice([1, -1])))
                self.feat.add("choice-of-same-named-types")
        # global elements (roots)
        roots = main.ctypes[-rng.randrange(1, min(3, len(main.ctypes)) + 1):]
        for ct in roots:
            main.elements.append(ElemDecl(self.gname("root"), ct, is_global=True, ns=main.tns))
        if rng.random() < 0.2:
            main.elements.append(ElemDecl(self.gname("leafRoot"), self.simple_type(main), is_global=True, ns=main.tns))
        if not self.allow_known_findings:
            for sch in ss.all():
                for ct in sch.ctypes:
                    sanitize_nillable(ct, set())
        return ss


def iter_elems(g):
    for x in g.items:
        if isinstance(x, Group):
            yield from iter_elems(x)
        elif isinstance(x, ElemDecl):
            yield x


def sanitize_nillable(ct, seen, optional=False):
    """Keep the triggers of the open C02 findings about xsi:nil / mixed content out of the population
    (each has a dedicated probe in vf/props/c02.py): nillable only on elements that are always present
    (not minOccurs=0, not a branch of a choice, not below an optional group), whose type is simple, that
    have no fixed value and do not sit in a mixed type; no QName-valued children in mixed types."""
    if id(ct) in seen:
        return
    seen.add(id(ct))
    mixed = False
    k = ct
    while k is not None:
        mixed = mixed or k.mixed
        k = k.base

    def qname_typed(t):
        return isinstance(t, SimpleT) and (t.base == "QName" or (t.list_of is not None and t.list_of.base == "QName") or any(u.base == "QName" for u in (t.union_of or [])))

    def qname_content(c):  # simple content of a QName type, here or in a base type
        while c is not None:
            if c.simple_base is not None and qname_typed(c.simple_base):
                return True
            c = c.base
        return False

    decls = []

    def walk(g, opt, rep=False):
        opt = opt or g.min == 0 or g.kind == "choice"
        rep = rep or g.max != 1
        for x in g.items:
            if isinstance(x, Group):
                walk(x, opt, rep)
            elif isinstance(x, ElemDecl):
                t = x.type
                decls.append(x)
                if rep:
                    x.repeats = True  # (the field is a list although the element itself has maxOccurs=1: see DocGen.fill)
                if x.nillable and (opt or mixed or x.min == 0 or x.fixed is not None or not isinstance(t, SimpleT)):
                    x.nillable = False  # (complex content that happens to be empty is written back as nil: C01's open finding nillable-field-object-without-content)
                if mixed and (qname_typed(t) or (isinstance(t, ComplexT) and qname_content(t))):
                    x.type = SimpleT(None, "string")
                    x.default = x.fixed = None
                    t = x.type
                if isinstance(t, ComplexT) and t.name is None:
                    sanitize_nillable(t, seen)

    if ct.content is not None:
        walk(ct.content, False)
    k, names = ct.base, [x.name for x in decls]
    while k is not None:
        if k.content is not None:
            names += [x.name for x in iter_elems(k.content)]
        k = k.base
    for x in decls:
        if names.count(x.name) > 1:
            x.repeats = True  # (two particles of one name are merged into one list field)
    if ct.base is not None and mixed and ct.content is not None:
        # the elements an extension adds to a mixed base type are bound generically (open finding
        # C02/global-element-added-by-extension-of-mixed-type...): prefixes used only inside their text or attribute values are
        # not kept, so nothing QName-valued may sit anywhere below them
        done = set()

        def strip(t):
            if not isinstance(t, ComplexT) or id(t) in done:
                return
            done.add(id(t))
            for a in t.attrs:
                if qname_typed(a.type):
                    a.type, a.default, a.fixed = SimpleT(None, "string"), None, None
            if t.simple_base is not None and qname_typed(t.simple_base):
                t.simple_base = SimpleT(None, "string")
            if t.content is not None:
                for x in iter_particles(t.content):
                    if isinstance(x, ElemDecl):
                        if qname_typed(x.type):
                            x.type, x.default, x.fixed = SimpleT(None, "string"), None, None
                        strip(x.type)
            strip(t.base)

        for x in iter_particles(ct.content):
            if isinstance(x, ElemDecl):
                strip(x.type)


def insert_before_any(g: Group, item):
    for i, x in enumerate(g.items):
        if isinstance(x, AnyP):
            g.items.insert(i, item)
            return
    g.items.append(item)


def ge_free(ct, name):
    return name not in names_of(ct)


def names_of(ct: ComplexT):
    used = set()
    c = ct
    while c is not None:
        if c.content:
            for x in iter_particles(c.content):
                if isinstance(x, ElemDecl):
                    used.add(x.name)
        used.update(a.name for a in c.attrs)
        c = c.base
    return used


def iter_particles(g: Group):
    for x in g.items:
        yield x
        if isinstance(x, Group):
            yield from iter_particles(x)


# --------------------------------------------------------------------------------------- rendering
def esc(s):
    # tab / line breaks as character references: a literal one in an attribute value is normalised to a space
    return s.replace("&", "&amp;").replace("<", "&lt;").replace('"', "&quot;").replace("\t", "&#9;").replace("\n", "&#10;").replace("\r", "&#13;")


def occ(mn, mx):
    out = ""
    if mn != 1:
        out += f' minOccurs="{mn}"'
    if mx != 1:
        out += f' maxOccurs="{"unbounded" if mx == -1 else mx}"'
    return out


class Renderer:
    def __init__(self, ss: SchemaSet):
        self.ss = ss

    def prefix_map(self, schema):
        m = {"xs": XS}
        if schema.tns:
            m["tns"] = schema.tns
        for i, o in enumerate(self.ss.all()):
            if o is not schema and o.tns and o.tns != schema.tns:
                m[f"o{i}"] = o.tns
        return m

    def qref(self, schema, ns, local):
        if ns is None:
            return local
        for p, u in self.prefix_map(schema).items():
            if u == ns:
                return f"{p}:{local}"
        raise KeyError(ns)

    def type_ref(self, schema, t):
        if isinstance(t, SimpleT):
            if t.name is None:
                return f"xs:{t.base}"
            return self.qref(schema, self.owner_ns(t), t.name)
        return self.qref(schema, t.ns, t.name)

    def owner_ns(self, t):
        for s in self.ss.all():
            if t in s.stypes:
                return s.tns
        return self.ss.main.tns

    def render(self) -> dict:
        return {s.file: self.schema(s) for s in self.ss.all()}

    def schema(self, s: Schema):
        pm = self.prefix_map(s)
        decls = " ".join(f'xmlns:{p}="{esc(u)}"' for p, u in pm.items())
        out = [f'<?xml version="1.0" encoding="UTF-8"?>', f'<xs:schema {decls}' + (f' targetNamespace="{esc(s.tns)}"' if s.tns else "") +
               (' elementFormDefault="qualified"' if s.efd else "") + (' attributeFormDefault="qualified"' if s.afd else "") + ">"]
        for o in self.ss.all():
            if o is s:
                continue
            if o.tns != s.tns:
                out.append(f'  <xs:import namespace="{esc(o.tns)}" schemaLocation="{o.file}"/>')
            elif s is self.ss.main:
                out.append(f'  <xs:include schemaLocation="{o.file}"/>')
        for e in s.elements:
            out.append(self.element(s, e, 1, top=True))
        for ct in s.ctypes:
            out.append(self.complex(s, ct, 1))
        for st in s.stypes:
            out.append(self.simple(s, st, 1))
        out.append("</xs:schema>")
        return "\n".join(out)

    def simple(self, s, t: SimpleT, ind, anonymous=False):
        pad = "  " * ind
        name = "" if anonymous else f' name="{esc(t.name)}"'
        if t.list_of is not None:
            return f'{pad}<xs:simpleType{name}><xs:list itemType="xs:{t.list_of.base}"/></xs:simpleType>'
        if t.union_of is not None:
            listed = " ".join("xs:" + m.base for m in t.union_of if not m.inline)
            inline = [self.simple(s, m, ind + 2, anonymous=True) for m in t.union_of if m.inline]
            if not inline:
                return f'{pad}<xs:simpleType{name}><xs:union memberTypes="{listed}"/></xs:simpleType>'
            mt = f' memberTypes="{listed}"' if listed else ""
            return f'{pad}<xs:simpleType{name}>\n{pad}  <xs:union{mt}>\n' + "\n".join(inline) + f'\n{pad}  </xs:union>\n{pad}</xs:simpleType>'
        body = []
        for v in t.enum or []:
            body.append(f'{pad}    <xs:enumeration value="{esc(v)}"/>')
        for k, v in t.facets.items():
            body.append(f'{pad}    <xs:{k} value="{esc(v)}"/>')
        xs_decl = ""
        return f'{pad}<xs:simpleType{name}>\n{pad}  <xs:restriction base="xs:{t.base}"{xs_decl}>\n' + "\n".join(body) + f"\n{pad}  </xs:restriction>\n{pad}</xs:simpleType>"

    def attr(self, s, a: AttrDecl, ind):
        pad = "  " * ind
        x = f'{pad}<xs:attribute name="{esc(a.name)}" type="{self.type_ref(s, a.type)}"'
        if a.use == "required":
            x += ' use="required"'
        if a.default is not None:
            x += f' default="{esc(a.default)}"'
        if a.fixed is not None:
            x += f' fixed="{esc(a.fixed)}"'
        if a.qualified != s.afd:
            x += f' form="{"qualified" if a.qualified else "unqualified"}"'
        return x + "/>"

    def element(self, s, e: ElemDecl, ind, top=False):
        pad = "  " * ind
        if e.ref:
            return f'{pad}<xs:element ref="{self.qref(s, e.ns, e.name)}"{occ(e.min, e.max)}/>'
        x = f'{pad}<xs:element name="{esc(e.name)}"'
        anonymous = isinstance(e.type, ComplexT) and e.type.name is None
        if not anonymous:
            x += f' type="{self.type_ref(s, e.type)}"'
        if top and e.subst_head:
            x += f' substitutionGroup="{self.qref(s, e.ns, e.subst_head)}"'
        if not top:
            x += occ(e.min, e.max)
            if e.qualified is not None:
                x += f' form="{"qualified" if e.qualified else "unqualified"}"'
        if e.nillable:
            x += ' nillable="true"'
        if e.default is not None:
            x += f' default="{esc(e.default)}"'
        if e.fixed is not None:
            x += f' fixed="{esc(e.fixed)}"'
        ann = f"\n{pad}  <xs:annotation><xs:documentation>{esc(e.doc)}</xs:documentation></xs:annotation>" if e.doc is not None else ""
        if anonymous:
            return x + ">" + ann + "\n" + self.complex(s, e.type, ind + 1, anonymous=True) + f"\n{pad}</xs:element>"
        if ann:
            return x + ">" + ann + f"\n{pad}</xs:element>"
        return x + "/>"

    def group(self, s, g: Group, ind):
        pad = "  " * ind
        out = [f"{pad}<xs:{g.kind}{occ(g.min, g.max)}>"]
        for x in g.items:
            if isinstance(x, ElemDecl):
                out.append(self.element(s, x, ind + 1))
            elif isinstance(x, Group):
                out.append(self.group(s, x, ind + 1))
            elif isinstance(x, AnyP):
                out.append(f'{pad}  <xs:any namespace="{x.namespace}" processContents="{x.process}"{occ(x.min, x.max)}/>')
        out.append(f"{pad}</xs:{g.kind}>")
        return "\n".join(out)

    def complex(self, s, ct: ComplexT, ind, anonymous=False):
        pad = "  " * ind
        name = "" if anonymous else f' name="{esc(ct.name)}"'
        head = f'{pad}<xs:complexType{name}' + (' mixed="true"' if ct.mixed else "") + (' abstract="true"' if ct.abstract else "") + ">"
        if ct.doc is not None:
            head += f"\n{pad}  <xs:annotation><xs:documentation>{esc(ct.doc)}</xs:documentation></xs:annotation>"
        body = []
        attrs = [self.attr(s, a, ind + (3 if (ct.base or ct.simple_base) else 1)) for a in ct.attrs]
        anyattr = [f'{"  " * (ind + (3 if (ct.base or ct.simple_base) else 1))}<xs:anyAttribute namespace="##other" processContents="lax"/>'] if ct.any_attribute else []
        if ct.simple_base is not None:
            body.append(f'{pad}  <xs:simpleContent>\n{pad}    <xs:extension base="{self.type_ref(s, ct.simple_base)}">')
            body += attrs + anyattr
            body.append(f"{pad}    </xs:extension>\n{pad}  </xs:simpleContent>")
        elif ct.base is not None:
            body.append(f'{pad}  <xs:complexContent>\n{pad}    <xs:extension base="{self.type_ref(s, ct.base)}">')
            if ct.content and ct.content.items:
                body.append(self.group(s, ct.content, ind + 3))
            body += attrs + anyattr
            body.append(f"{pad}    </xs:extension>\n{pad}  </xs:complexContent>")
        else:
            if ct.content and ct.content.items:
                body.append(self.group(s, ct.content, ind + 1))
            body += attrs + anyattr
        return head + "\n" + "\n".join(body) + f"\n{pad}</xs:complexType>"


# --------------------------------------------------------------------------------------- lexical values
WORDS = ["alpha", "Beta", "x y", "q&a", "a<b", "zeta-9", "中文", "é", " lead", "trail ", "it's", 'say "hi"', "tab\there"]
TOKENS = ["tok", "a-b", "x1", "é", "A_B", "n.m"]


def gen_lexical(rng, t: SimpleT, canonical=False, salt="", nsmap_cb=None):
    """A valid lexical string for simple type t (non-canonical spellings unless canonical=True)."""
    if t.enum:
        return rng.choice(t.enum)
    if t.list_of is not None:
        return " ".join(gen_lexical(rng, t.list_of, canonical, salt) for _ in range(rng.randrange(1, 4)))
    if t.union_of is not None:
        return gen_lexical(rng, rng.choice(t.union_of), canonical, salt)
    b = t.base
    if b in INT_RANGES:
        lo, hi = INT_RANGES[b]
        if "minInclusive" in t.facets:
            lo, hi = int(t.facets["minInclusive"]), int(t.facets["maxInclusive"])
        v = rng.choice([lo, hi, 0 if lo <= 0 <= hi else lo, 1 if lo <= 1 <= hi else lo, rng.randint(max(lo, -10**6), min(hi, 10**6))])
        s = str(v)
        if not canonical and v >= 0 and rng.random() < 0.2:
            s = rng.choice(["+", "00"]) + s
        return s
    if b == "decimal":
        v = rng.choice(["0", "1.5", "-2.25", "100", "0.001", "-0.5"] + ([] if t.facets else ["123456789.12345"]))
        if not canonical and rng.random() < 0.3:
            v = rng.choice([v + "0" if "." in v else v + ".0", "+" + v if not v.startswith("-") else v])
        return v
    if b in ("float", "double"):
        v = rng.choice(["0", "1.5", "-2.25", "1E5", "1.5e-3", "INF", "-INF", "NaN", "100", "0.1"])
        return v
    if b == "boolean":
        return rng.choice(["true", "false"] if canonical else ["true", "false", "1", "0"])
    if b == "string":
        w = rng.choice(WORDS)
        if "maxLength" in t.facets:
            w = w[: int(t.facets["maxLength"])]
        return w
    if b == "normalizedString":
        return rng.choice(["alpha", "x y", "two  spaces", "é"])
    if b == "token":
        return rng.choice(["alpha", "x y", "zeta-9", "é"])
    if b in ("NMTOKEN", "Name", "NCName"):
        return rng.choice(TOKENS if b == "NMTOKEN" else ["tok", "a-b", "x1", "é", "A_B"])
    if b == "language":
        return rng.choice(["en", "en-US", "fr", "de-CH"])
    if b == "anyURI":
        return rng.choice(["http://example.com/a?b=c", "urn:x:y", "relative/path", "#frag"])
    if b == "hexBinary":
        return rng.randbytes(rng.randrange(0, 6)).hex().upper() if canonical or rng.random() < 0.5 else rng.randbytes(rng.randrange(1, 6)).hex()
    if b == "base64Binary":
        import base64

        return base64.b64encode(rng.randbytes(rng.randrange(0, 7))).decode()
    if b == "QName":
        return rng.choice(["xs:string", "xs:int", "xs:date"])
    y, mo = rng.choice([1999, 2000, 2024, 1, 9999]), rng.randrange(1, 13)
    d = rng.randrange(1, lx.days_in_month(y, mo) + 1)
    tz = rng.choice(["", "", "Z", "+01:00", "-05:30"])
    h, mi, s = rng.randrange(24), rng.randrange(60), rng.randrange(60)
    frac = rng.choice(["", "", ".5", ".123", ".000001"])
    if b == "date":
        return f"{y:04d}-{mo:02d}-{d:02d}{tz}"
    if b == "time":
        return f"{h:02d}:{mi:02d}:{s:02d}{frac}{tz}"
    if b == "dateTime":
        return f"{y:04d}-{mo:02d}-{d:02d}T{h:02d}:{mi:02d}:{s:02d}{frac}{tz}"
    if b == "duration":
        return rng.choice(["P1Y", "PT1M", "P1Y2M3DT4H5M6S", "-P3D", "PT0.5S", "P1M"])
    if b == "gYear":
        return f"{y:04d}{tz}"
    if b == "gYearMonth":
        return f"{y:04d}-{mo:02d}{tz}"
    if b == "gMonthDay":
        return f"--{mo:02d}-{min(d, 28):02d}{tz}"
    if b == "gMonth":
        return f"--{mo:02d}{tz}"
    if b == "gDay":
        return f"---{d:02d}{tz}"
    raise KeyError(b)


def typed_value(t: SimpleT, text, nsmap=None):
    """Value-space representation of a lexical string for type t (hashable/comparable), or ('?', text)."""
    if t.list_of is not None:
        return ("list",) + tuple(typed_value(t.list_of, x, nsmap) for x in lx.collapse(text).split(" ") if x != "")
    if t.union_of is not None:
        for m in t.union_of:
            v = typed_value(m, text, nsmap)
            if v[0] != "?":
                return v
        return ("?", text)
    b = t.base
    try:
        if b in INT_RANGES:
            v = lx.int_value(text)
            return ("int", v) if v is not None else ("?", text)
        if b == "decimal":
            v = lx.decimal_value(text)
            return ("dec", v.normalize() if v == v else v) if v is not None else ("?", text)
        if b in ("float", "double"):
            v = lx.float_value(text)
            if v is None:
                return ("?", text)
            return ("float", "nan") if math.isnan(v) else ("float", v)
        if b == "boolean":
            v = lx.bool_value(text)
            return ("bool", v) if v is not None else ("?", text)
        if b == "hexBinary":
            v = lx.hex_value(text)
            return ("bytes", v) if v is not None else ("?", text)
        if b == "base64Binary":
            v = lx.b64_value(text)
            return ("bytes", v) if v is not None else ("?", text)
        if b in ("date", "time", "dateTime", "gYear", "gYearMonth", "gMonthDay", "gMonth", "gDay"):
            c = lx.parse_calendar(b, text)
            return (b,) + tuple(sorted((k, v) for k, v in c.items() if k != "frac_digits")) if c else ("?", text)
        if b == "duration":
            c = lx.parse_duration(text)
            return ("dur",) + tuple(sorted(c.items(), key=lambda kv: kv[0])) if c else ("?", text)
        if b == "QName":
            c = lx.collapse(text)
            pfx, _, loc = c.rpartition(":")
            return ("qname", (nsmap or {}).get(pfx or None), loc)
        if b == "string":
            return ("str", text)
        if b == "normalizedString":
            return ("str", text.replace("\t", " ").replace("\n", " ").replace("\r", " "))
        return ("str", lx.collapse(text))
    except Exception:  # noqa: BLE001
        return ("?", text)


# --------------------------------------------------------------------------------------- instances
def clark(ns, local):
    return f"{{{ns}}}{local}" if ns else local


class Resolver:
    """Schema-directed view used by both the instance generator and the typed canonicaliser."""

    def __init__(self, ss: SchemaSet):
        self.ss = ss
        self.by_tns = {}
        for s in ss.all():
            self.by_tns.setdefault(s.tns, s)
        self.ctype_by_qname = {clark(s.tns, ct.name): ct for s in ss.all() for ct in s.ctypes}
        self.global_el = {clark(s.tns, e.name): e for s in ss.all() for e in s.elements}

    def schema_of(self, ns):
        return self.by_tns.get(ns, self.ss.main)

    def el_qname(self, e: ElemDecl, owner_ns):
        if e.is_global or e.ref:
            return clark(e.ns, e.name)
        s = self.schema_of(owner_ns)
        q = e.qualified if e.qualified is not None else s.efd
        return clark(owner_ns if q else None, e.name)

    def attr_qname(self, a: AttrDecl, owner_ns):
        return clark(owner_ns if a.qualified else None, a.name)

    def chain(self, ct: ComplexT):
        out = []
        c = ct
        while c is not None:
            out.append(c)
            c = c.base
        return list(reversed(out))

    def all_attrs(self, ct):
        return [(a, c.ns) for c in self.chain(ct) for a in c.attrs]

    def element_decls(self, ct):
        """{clark: (ElemDecl, owner_ns)} over the whole chain."""
        out = {}
        for c in self.chain(ct):
            if c.content:
                for x in [c.content] + list(iter_particles(c.content)):
                    if isinstance(x, ElemDecl):
                        out[self.el_qname(x, c.ns)] = (x, c.ns)
        return out

    def substitutes(self, head: ElemDecl):
        """Global elements that can stand for `head` (transitively), as ElemDecl of the same namespace."""
        out, frontier = [], [head.name]
        els = [e for s in self.ss.all() for e in s.elements if e.ns == head.ns]
        while frontier:
            h = frontier.pop()
            for e in els:
                if e.subst_head == h and e not in out:
                    out.append(e)
                    frontier.append(e.name)
        return out

    def subtypes(self, ct):
        return [c for s in self.ss.all() for c in s.ctypes if c is not ct and ct in self.chain(c)]


class DocGen:
    def __init__(self, ss: SchemaSet, rng, mode="random", empty_defaults=True):
        self.ss = ss
        self.rng = rng
        self.mode = mode
        self.empty_defaults = empty_defaults  # write some elements that have a default as empty elements
        self.R = Resolver(ss)
        self.depth = 0

    def count(self, mn, mx):
        rng = self.rng
        hi = mn + 2 if mx == -1 else mx
        hi = min(hi, 3, mn + 2) if hi > mn else mn
        if self.mode == "minimal":
            return mn
        if self.depth > 4:
            return mn  # (in every mode: recursive content models otherwise nest a hundred levels deep)
        if self.mode == "maximal":
            return max(hi, mn)
        return rng.randint(mn, max(mn, hi))

    def document(self, root: ElemDecl) -> bytes:
        nsmap = {"xs": XS, "xsi": XSI}
        for i, s in enumerate(self.ss.all()):
            if s.tns:
                nsmap[f"n{i}"] = s.tns
        el = etree.Element(self.R.el_qname(root, root.ns), nsmap=nsmap)
        self.fill(el, root, root.ns)
        return etree.tostring(el, encoding="UTF-8", xml_declaration=self.rng.random() < 0.5)

    def fill(self, el, decl: ElemDecl, owner_ns):
        rng = self.rng
        t = decl.type
        if isinstance(t, SimpleT):
            if decl.nillable and rng.random() < 0.2:
                el.set(f"{{{XSI}}}nil", "true")
                return
            if decl.default is not None and rng.random() < 0.3 and self.empty_defaults and not (decl.nillable and (decl.max != 1 or getattr(decl, "repeats", False))):
                # empty element: the default applies. (Not for nillable elements that repeat - by their own maxOccurs, through a
                # repeating group around them or a second particle of the same name: a list field carries no element default,
                # and an empty value in a nillable field is read as nil - C01's open finding empty-string-in-nillable-field.)
                return
            if decl.fixed is not None:
                el.text = decl.fixed
                return
            el.text = gen_lexical(rng, t, salt=self.ss.salt)
            if decl.nillable and not el.text:
                # an empty value in a nillable element is read as nil (C01's open finding empty-string-in-nillable-field)
                for _ in range(20):
                    el.text = gen_lexical(rng, t, salt=self.ss.salt)
                    if el.text:
                        break
                else:
                    el.set(f"{{{XSI}}}nil", "true")
                    el.text = None
            return
        ct = t
        if ct.name and self.mode != "minimal" and self.depth < 4:
            subs = self.R.subtypes(ct)
            if subs and rng.random() < 0.35:
                ct = rng.choice(subs)
                pfx = next((p for p, u in el.nsmap.items() if u == ct.ns and p), None)
                el.set(f"{{{XSI}}}type", f"{pfx}:{ct.name}" if pfx else ct.name)
        if decl.nillable and rng.random() < 0.15 and not any(a.use == "required" for a, _ in self.R.all_attrs(ct)):
            el.set(f"{{{XSI}}}nil", "true")
            return
        for a, ans in self.R.all_attrs(ct):
            q = self.R.attr_qname(a, ans)
            if a.fixed is not None:
                if rng.random() < 0.5:
                    el.set(q, a.fixed)
                continue
            present = a.use == "required" or (self.mode == "maximal") or (self.mode == "random" and rng.random() < 0.6)
            if a.default is not None and self.mode == "minimal":
                present = False
            if present:
                el.set(q, gen_lexical(rng, a.type, salt=self.ss.salt))
        if any(c.any_attribute for c in self.R.chain(ct)) and rng.random() < 0.5:
            el.set(f"{{urn:xsdgen:{self.ss.salt}:foreign}}fa", "fv")
        sb = next((c.simple_base for c in self.R.chain(ct) if c.simple_base is not None), None)
        if sb is not None:
            el.text = gen_lexical(rng, sb, salt=self.ss.salt)
            return
        self.depth += 1
        try:
            mixed = any(c.mixed for c in self.R.chain(ct))
            if mixed and rng.random() < 0.7:
                el.text = rng.choice(["lead text ", "m"])
            for c in self.R.chain(ct):
                if c.content:
                    self.group(el, c.content, c.ns, mixed)
        finally:
            self.depth -= 1

    def captures_tail(self, el, decl):
        """Text after a child whose own type is mixed or has a wildcard ends up inside that child (open known
        finding C02/tail-after-wildcard-child-moves-into-the-child, probe in vf/props/c02.py): not generated."""
        t = decl.type
        if not isinstance(t, ComplexT):
            return False
        xt = el.get(f"{{{XSI}}}type")
        types = [t] + list(self.R.subtypes(t)) if xt else [t]
        for ct in types:
            for c in self.R.chain(ct):
                if c.mixed or (c.content is not None and any(isinstance(p, AnyP) for p in iter_particles(c.content))):
                    return True
        return False

    def group(self, parent, g: Group, owner_ns, mixed):
        rng = self.rng
        for _ in range(self.count(g.min, g.max)):
            if g.kind == "choice":
                opts = [x for x in g.items if not (self.depth > 4 and isinstance(x, ElemDecl) and isinstance(x.type, ComplexT))] or g.items
                self.particle(parent, rng.choice(opts), owner_ns, mixed)
            else:
                items = list(g.items)
                if g.kind == "all" and self.mode == "random":
                    rng.shuffle(items)
                for x in items:
                    self.particle(parent, x, owner_ns, mixed)

    def particle(self, parent, x, owner_ns, mixed):
        rng = self.rng
        if isinstance(x, Group):
            self.group(parent, x, owner_ns, mixed)
        elif isinstance(x, AnyP):
            for _ in range(self.count(x.min, min(x.max, 2) if x.max != -1 else 2)):
                f = etree.SubElement(parent, f"{{urn:xsdgen:{self.ss.salt}:foreign}}{rng.choice(['fe', 'fx'])}")
                f.text = rng.choice(["ftext", None, "a b"])
                if rng.random() < 0.3:
                    f.set("fk", "fv")
                if rng.random() < 0.2:
                    etree.SubElement(f, f"{{urn:xsdgen:{self.ss.salt}:foreign}}inner").text = "i"
        else:
            n = self.count(x.min, x.max)
            if isinstance(x.type, ComplexT) and self.depth > 4:
                n = x.min
            for _ in range(n):
                decl = x
                if x.ref and self.mode != "minimal":
                    group = self.R.substitutes(x)
                    if group:
                        decl = rng.choice([x] + group)  # any member of the substitution group may stand for the head
                ch = etree.SubElement(parent, self.R.el_qname(decl, owner_ns))
                self.fill(ch, decl, owner_ns)
                x = x if decl is x else x
                if mixed and rng.random() < 0.4 and not self.captures_tail(ch, x):
                    ch.tail = rng.choice(["tail text", " t "])


# --------------------------------------------------------------------------------------- typed canonical form
def canon_doc(ss: SchemaSet, data: bytes, ordered: bool):
    """Schema-directed typed canonical form of a document (defaults applied, prefixes and
    insignificant whitespace gone). Returns (canon, problems)."""
    R = Resolver(ss)
    root = etree.fromstring(data)
    decl = R.global_el.get(root.tag)
    if decl is None:
        return None, [f"root {root.tag} is not a global element of the schema"]
    probs = []
    return _canon(R, root, decl, decl.ns, ordered, probs, "/"), probs


def _canon(R, el, decl, owner_ns, ordered, probs, path):
    p = f"{path}{el.tag}"
    attrs = {k: v for k, v in el.attrib.items()}
    nil = attrs.pop(f"{{{XSI}}}nil", None)
    xt = attrs.pop(f"{{{XSI}}}type", None)
    attrs.pop(f"{{{XSI}}}schemaLocation", None)
    attrs.pop(f"{{{XSI}}}noNamespaceSchemaLocation", None)
    t = decl.type if decl is not None else None
    nilv = lx.bool_value(nil) if nil is not None else False
    if isinstance(t, SimpleT):
        text = el.text or ""
        if nilv:
            return (el.tag, (), ("nil",), ())
        if text == "" and decl.default is not None:
            text = decl.default
        return (el.tag, tuple(sorted(attrs.items())), typed_value(t, text, el.nsmap), ())
    if t is None:  # wildcard content: generic, string-level
        kids = tuple(_canon(R, c, None, None, True, probs, p + "/") for c in el if isinstance(c.tag, str))
        return (el.tag, tuple(sorted(attrs.items())), ("str", (el.text or "").strip() if kids else (el.text or "")), kids)
    ct = t
    if xt is not None:
        pfx, _, loc = xt.strip().rpartition(":")
        q = clark(el.nsmap.get(pfx or None), loc)
        sub = R.ctype_by_qname.get(q)
        if sub is None:
            probs.append(f"{p}: xsi:type {xt!r} does not name a complex type of the schema")
        else:
            ct = sub
    type_name = clark(ct.ns, ct.name) if ct.name and ct is not decl.type else None
    out_attrs = []
    known = {}
    for a, ans in R.all_attrs(ct):
        known[R.attr_qname(a, ans)] = a
    for q, a in known.items():
        if q in attrs:
            out_attrs.append((q, typed_value(a.type, attrs.pop(q), el.nsmap)))
        elif (a.default is not None or a.fixed is not None) and not nilv:
            out_attrs.append((q, typed_value(a.type, a.default if a.default is not None else a.fixed, el.nsmap)))
    for q, v in attrs.items():  # anyAttribute
        out_attrs.append((q, ("str", v)))
    if nilv:
        return (el.tag, tuple(sorted(out_attrs, key=repr)), ("nil", type_name), ())
    sb = next((c.simple_base for c in R.chain(ct) if c.simple_base is not None), None)
    if sb is not None:
        return (el.tag, tuple(sorted(out_attrs, key=repr)), ("simple", type_name, typed_value(sb, el.text or "", el.nsmap)), ())
    decls = R.element_decls(ct)
    mixed = any(c.mixed for c in R.chain(ct))
    kids = []
    texts = []
    if mixed and (el.text or "").strip():
        texts.append((el.text or "").strip())
    for c in el:
        if not isinstance(c.tag, str):
            continue
        d = decls.get(c.tag)
        if d is None:
            ge = R.global_el.get(c.tag)
            kids.append(_canon(R, c, ge, ge.ns if ge else None, ordered, probs, p + "/"))
        else:
            kids.append(_canon(R, c, d[0], d[1], ordered, probs, p + "/"))
        if mixed and (c.tail or "").strip():
            texts.append((c.tail or "").strip())
    if not mixed:
        stray = [(el.text or "")] + [c.tail or "" for c in el]
        if any(s.strip() for s in stray):
            probs.append(f"{p}: character data in element-only content: {[s for s in stray if s.strip()][:2]}")
    if not ordered:
        kids = sorted(kids, key=repr)
        texts = sorted(texts)
    return (el.tag, tuple(sorted(out_attrs, key=repr)), ("complex", type_name, tuple(texts)), tuple(kids))
