"""Binding-model IR: spec, seeded generator, materialiser (Python source -> module),
instance generator, JSON codec for specs and instances (replay), reference semantics
(expected infoset from the *documented* metadata rules — never consults XmlMeta/XmlVar).
"""

from __future__ import annotations

import dataclasses
import datetime as dt
import enum
import gc
import itertools
import json
import math
import sys
import types
from dataclasses import dataclass, field
from decimal import Decimal
from typing import Any
from xml.etree.ElementTree import QName

from vf import lexical as lx
from vf.xmlkit import XSI, XSI_NIL, XSI_TYPE, XS

# --------------------------------------------------------------------------------------- spec
PRIMS = ["str", "int", "bool", "float", "Decimal", "QName", "XmlDate", "XmlTime", "XmlDateTime", "XmlDuration", "XmlPeriod", "bytes"]
DOC_ORDER = ["int", "bool", "float", "Decimal", "datetime", "date", "time", "XmlTime", "XmlDate", "XmlDateTime", "XmlDuration", "XmlPeriod", "QName", "str"]
XS_NAME = {"str": "string", "int": None, "bool": "boolean", "float": None, "Decimal": "decimal", "QName": "QName", "XmlDate": "date", "XmlTime": "time",
           "XmlDateTime": "dateTime", "XmlDuration": "duration", "XmlPeriod": None}


@dataclass
class T:
    kind: str  # prim | enum | class | object
    name: str


@dataclass
class Choice:
    name: str
    types: list[T]
    namespace: str | None = None  # None = absent
    tokens: bool = False
    nillable: bool = False
    wildcard: bool = False


@dataclass
class Field:
    name: str
    xml: str  # Element Attribute Text Elements Wildcard Attributes Ignore
    types: list[T]
    container: str  # one | opt | list | tuple | default
    meta_name: str | None = None
    namespace: str | None = None  # None = absent in metadata
    tokens: bool = False
    nillable: bool = False
    required: bool = False
    sequence: int | None = None
    wrapper: str | None = None
    format: str | None = None
    default: Any = None  # encoded value (see enc_value) for container == "default"
    mixed: bool = False
    process_contents: str | None = None
    choices: list[Choice] = field(default_factory=list)
    init: bool = True
    explicit_type: bool = True  # whether metadata carries "type"


@dataclass
class Cls:
    name: str
    fields: list[Field]
    meta_name: str | None = None
    has_namespace: bool = False
    namespace: str | None = None  # only meaningful when has_namespace
    nillable: bool = False
    base: str | None = None
    frozen: bool = False
    kw_only: bool = True
    slots: bool = False
    name_gen: str | None = None  # element_name_generator / attribute_name_generator key
    has_meta: bool = True


@dataclass
class EnumSpec:
    name: str
    base: str  # prim name of member values
    members: list  # [(NAME, encoded value)]


@dataclass
class Model:
    salt: str
    classes: list[Cls]
    enums: list[EnumSpec]
    root: str
    future_annotations: bool = False
    module_namespace: str | None = None  # __NAMESPACE__

    def cls(self, name) -> Cls:
        for c in self.classes:
            if c.name == name:
                return c
        raise KeyError(name)

    def enum(self, name) -> EnumSpec:
        for e in self.enums:
            if e.name == name:
                return e
        raise KeyError(name)


def model_to_json(m: Model):
    return dataclasses.asdict(m)


def model_from_json(j) -> Model:
    def t(x):
        return T(**x)

    def ch(x):
        x = dict(x)
        x["types"] = [t(y) for y in x["types"]]
        return Choice(**x)

    def f(x):
        x = dict(x)
        x["types"] = [t(y) for y in x["types"]]
        x["choices"] = [ch(y) for y in x["choices"]]
        return Field(**x)

    def c(x):
        x = dict(x)
        x["fields"] = [f(y) for y in x["fields"]]
        return Cls(**x)

    j = dict(j)
    j["classes"] = [c(x) for x in j["classes"]]
    j["enums"] = [EnumSpec(**{**x, "members": [tuple(mm) for mm in x["members"]]}) for x in j["enums"]]
    return Model(**j)


NAME_GENS = {
    None: None,
    "pascal": "text.pascal_case",
    "camel": "text.camel_case",
    "kebab": "text.kebab_case",
    "snake": "text.snake_case",
}

# --------------------------------------------------------------------------------------- value codec


def enc_value(v):
    if v is None or isinstance(v, (bool, int, str)):
        return v
    if isinstance(v, float):
        return {"f": v.hex()}
    if isinstance(v, Decimal):
        return {"d": str(v)}
    if isinstance(v, bytes):
        return {"b": v.hex(), "t": type(v).__name__}
    if isinstance(v, QName):
        return {"q": v.text}
    if isinstance(v, enum.Enum):
        return {"e": [type(v).__name__, v.name]}
    if isinstance(v, list):
        return {"l": [enc_value(x) for x in v]}
    if isinstance(v, tuple) and not hasattr(v, "_fields"):
        return {"tu": [enc_value(x) for x in v]}
    if isinstance(v, dict):
        return {"m": [[k, enc_value(x)] for k, x in v.items()]}
    tn = type(v).__name__
    if tn in ("XmlDate", "XmlTime", "XmlDateTime"):
        return {"x": [tn, list(v)]}
    if tn in ("XmlDuration", "XmlPeriod"):
        return {"x": [tn, str(v)]}
    if isinstance(v, dt.datetime):
        return {"dt": v.isoformat()}
    if isinstance(v, dt.date):
        return {"date": v.isoformat()}
    if isinstance(v, dt.time):
        return {"time": v.isoformat()}
    if dataclasses.is_dataclass(v):
        return {"c": [tn, [[f.name, enc_value(getattr(v, f.name))] for f in dataclasses.fields(v)]]}
    raise TypeError(f"cannot encode {type(v)}")


def dec_value(j, ns):
    """ns: mapping name -> class/enum (module namespace of the loaded model + xsdata types)."""
    if not isinstance(j, dict):
        return j
    if "f" in j:
        return float.fromhex(j["f"])
    if "d" in j:
        return Decimal(j["d"])
    if "b" in j:
        b = bytes.fromhex(j["b"])
        return ns[j["t"]](b) if j.get("t", "bytes") != "bytes" else b
    if "q" in j:
        return QName(j["q"])
    if "e" in j:
        return ns[j["e"][0]][j["e"][1]]
    if "l" in j:
        return [dec_value(x, ns) for x in j["l"]]
    if "tu" in j:
        return tuple(dec_value(x, ns) for x in j["tu"])
    if "m" in j:
        return {k: dec_value(x, ns) for k, x in j["m"]}
    if "x" in j:
        tn, a = j["x"]
        return ns[tn](*a) if isinstance(a, list) else ns[tn](a)
    if "dt" in j:
        return dt.datetime.fromisoformat(j["dt"])
    if "date" in j:
        return dt.date.fromisoformat(j["date"])
    if "time" in j:
        return dt.time.fromisoformat(j["time"])
    if "c" in j:
        tn, fs = j["c"]
        C = ns[tn]
        kwargs, post = {}, {}
        finit = {f.name: f.init for f in dataclasses.fields(C)}
        for k, x in fs:
            (kwargs if finit.get(k, True) else post)[k] = dec_value(x, ns)
        return C(**kwargs)
    raise TypeError(j)


def xsdata_ns():
    from xsdata.formats.dataclass.models.generics import AnyElement, DerivedElement
    from xsdata.models.datatype import XmlBase64Binary, XmlDate, XmlDateTime, XmlDuration, XmlHexBinary, XmlPeriod, XmlTime

    return {"AnyElement": AnyElement, "DerivedElement": DerivedElement, "XmlDate": XmlDate, "XmlTime": XmlTime, "XmlDateTime": XmlDateTime,
            "XmlDuration": XmlDuration, "XmlPeriod": XmlPeriod, "XmlHexBinary": XmlHexBinary, "XmlBase64Binary": XmlBase64Binary}


# --------------------------------------------------------------------------------------- source rendering
HEADER = """from dataclasses import dataclass, field
from decimal import Decimal
from enum import Enum
from typing import Any, Dict, List, Optional, Tuple, Union
from xml.etree.ElementTree import QName
from xsdata.models.datatype import XmlDate, XmlDateTime, XmlDuration, XmlPeriod, XmlTime
from xsdata.utils import text
"""


def value_src(j, ns_names=None):
    """Python source for an encoded value (used for defaults and enum members)."""
    if not isinstance(j, dict):
        return repr(j)
    if "f" in j:
        v = float.fromhex(j["f"])
        if math.isnan(v) or math.isinf(v):
            return f"float({str(v)!r})"
        return repr(v)
    if "d" in j:
        return f"Decimal({j['d']!r})"
    if "b" in j:
        return repr(bytes.fromhex(j["b"]))
    if "q" in j:
        return f"QName({j['q']!r})"
    if "e" in j:
        return f"{j['e'][0]}.{j['e'][1]}"
    if "l" in j:
        return "[" + ", ".join(value_src(x) for x in j["l"]) + "]"
    if "tu" in j:
        return "(" + "".join(value_src(x) + ", " for x in j["tu"]) + ")"
    if "x" in j:
        tn, a = j["x"]
        return f"{tn}({', '.join(map(repr, a))})" if isinstance(a, list) else f"{tn}({a!r})"
    raise TypeError(j)


def type_src(t: T, pep604: bool):
    if t.kind == "prim":
        return t.name
    if t.kind == "object":
        return "object"
    return t.name


def annotation_src(f: Field, style: int):
    """style bit0: PEP604 unions, bit1: builtin generics."""
    pep604 = style & 1
    generic = style & 2
    names = [type_src(t, pep604) for t in f.types]
    if f.xml == "Attributes":
        return "Dict[str, str]" if not generic else "dict[str, str]"
    if f.xml == "Elements":
        names = []
        for ch in f.choices:
            for t in ch.types:
                n = type_src(t, pep604)
                if ch.tokens:
                    n = f"List[{n}]" if not generic else f"list[{n}]"
                if n not in names:
                    names.append(n)
    inner = names[0] if len(names) == 1 else (" | ".join(names) if pep604 else f"Union[{', '.join(names)}]")
    L, Tu = ("list", "tuple") if generic else ("List", "Tuple")
    if f.tokens and f.xml != "Elements":
        inner = f"{Tu}[{inner}, ...]" if f.container == "tuple" or f.container == "ttuple" else f"{L}[{inner}]"
        if f.container in ("list",):  # list of token lists
            return f"{L}[{inner}]"
        if f.container == "opt":
            return f"Optional[{inner}]" if not pep604 else f"None | {inner}"
        return inner
    if f.container == "list":
        return f"{L}[{inner}]"
    if f.container == "tuple":
        return f"{Tu}[{inner}, ...]"
    if f.container == "opt":
        return f"Optional[{inner}]" if not pep604 else f"None | {inner}"
    return inner


def field_src(f: Field, style: int):
    md = {}
    if f.explicit_type:
        md["type"] = f.xml
    if f.meta_name is not None:
        md["name"] = f.meta_name
    if f.namespace is not None:
        md["namespace"] = f.namespace
    if f.tokens and f.xml != "Elements":
        md["tokens"] = True
    if f.nillable:
        md["nillable"] = True
    if f.required:
        md["required"] = True
    if f.sequence is not None:
        md["sequence"] = f.sequence
    if f.wrapper:
        md["wrapper"] = f.wrapper
    if f.format:
        md["format"] = f.format
    if f.mixed:
        md["mixed"] = True
    if f.process_contents:
        md["process_contents"] = f.process_contents
    md_src = ", ".join(f"{k!r}: {v!r}" for k, v in md.items())
    if f.choices:
        chs = []
        for ch in f.choices:
            d = [f"'name': {ch.name!r}"] if not ch.wildcard else ["'wildcard': True"]
            tnames = [type_src(t, False) for t in ch.types]
            tsrc = tnames[0] if len(tnames) == 1 else f"Union[{', '.join(tnames)}]"
            if ch.tokens:
                tsrc = f"List[{tsrc}]"
            d.append(f"'type': {tsrc}")
            if ch.namespace is not None:
                d.append(f"'namespace': {ch.namespace!r}")
            if ch.tokens:
                d.append("'tokens': True")
            if ch.nillable:
                d.append("'nillable': True")
            chs.append("{" + ", ".join(d) + "}")
        md_src += (", " if md_src else "") + "'choices': (" + "".join(c + ", " for c in chs) + ")"
    args = []
    if not f.init:
        args.append("init=False")
    if f.container == "opt":
        args.append("default=None")
    elif f.container == "list" or (f.tokens and f.container == "tlist"):
        args.append("default_factory=list")
    elif f.container == "tuple":
        args.append("default_factory=tuple")
    elif f.container == "default":
        j = f.default
        if isinstance(j, dict) and ("l" in j or "m" in j):
            args.append(f"default_factory=lambda: {value_src(j)}")
        else:
            args.append(f"default={value_src(j)}")
    if f.xml == "Attributes" and f.container != "opt":
        args = [a for a in args if not a.startswith("default")] + ["default_factory=dict"]
    if md_src:
        args.append(f"metadata={{{md_src}}}")
    return f"    {f.name}: {annotation_src(f, style)} = field({', '.join(args)})"


def render_source(m: Model, style: int = 0) -> str:
    out = []
    if m.future_annotations:
        out.append("from __future__ import annotations")
    out.append(HEADER)
    if m.module_namespace is not None:
        out.append(f"__NAMESPACE__ = {m.module_namespace!r}\n")
    for e in m.enums:
        out.append(f"class {e.name}(Enum):")
        for n, v in e.members:
            out.append(f"    {n} = {value_src(v)}")
        out.append("")
    for c in order_classes(m):
        flags = []
        if c.kw_only:
            flags.append("kw_only=True")
        if c.frozen:
            flags.append("frozen=True")
        if c.slots:
            flags.append("slots=True")
        out.append(f"@dataclass({', '.join(flags)})" if flags else "@dataclass")
        out.append(f"class {c.name}({c.base}):" if c.base else f"class {c.name}:")
        body = []
        if c.has_meta:
            body.append("    class Meta:")
            mb = []
            if c.meta_name is not None:
                mb.append(f"        name = {c.meta_name!r}")
            if c.has_namespace:
                mb.append(f"        namespace = {c.namespace!r}")
            if c.nillable:
                mb.append("        nillable = True")
            if c.name_gen:
                mb.append(f"        element_name_generator = {NAME_GENS[c.name_gen]}")
                mb.append(f"        attribute_name_generator = {NAME_GENS[c.name_gen]}")
            body += mb or ["        pass"]
        for f in c.fields:
            body.append(field_src(f, style))
        out += body or ["    pass"]
        out.append("")
    return "\n".join(out)


def order_classes(m: Model):
    """Bases and referenced classes need not precede (annotations are strings or resolved
    lazily by get_type_hints) — but base classes must precede subclasses."""
    done, out = set(), []

    def visit(c):
        if c.name in done:
            return
        if c.base:
            visit(m.cls(c.base))
        done.add(c.name)
        out.append(c)

    for c in m.classes:
        visit(c)
    return out


# --------------------------------------------------------------------------------------- materialiser
class Loaded:
    def __init__(self, model: Model, source: str, module):
        self.model = model
        self.source = source
        self.module = module
        self.ns = {**xsdata_ns(), **{k: v for k, v in vars(module).items() if isinstance(v, type)}}

    def cls(self, name):
        return getattr(self.module, name)

    def unload(self):
        sys.modules.pop(self.module.__name__, None)
        self.module.__dict__.clear()
        self.ns.clear()
        gc.collect()


_counter = itertools.count()


def load(m: Model, style: int = 0) -> Loaded:
    src = render_source(m, style)
    name = f"vfmodel_{m.salt}_{next(_counter)}"
    mod = types.ModuleType(name)
    mod.__file__ = f"<{name}>"
    sys.modules[name] = mod
    try:
        exec(compile(src, mod.__file__, "exec"), mod.__dict__)  # noqa: S102
    except BaseException:
        sys.modules.pop(name, None)
        raise
    # forward references in annotations: quote-free source works because get_type_hints
    # evaluates lazily only when `from __future__ import annotations` is on; otherwise classes
    # are emitted in dependency order by the generator (refs only to earlier classes or self via Optional string)
    return Loaded(m, src, mod)


def _emit_order(m: Model):
    """Generator invariant: class i only references (field type, choice type, base) classes with
    a larger index, except quoted self/back references; so emit in descending index order."""
    return list(reversed(m.classes))


order_classes = _emit_order  # noqa: F811  (replaces the draft above)

# --------------------------------------------------------------------------------------- generator
SAFE_WORDS = ["alpha", "beta", "x y", "Hello World", "a", "zeta-9", "ÄÖ ü", "中文", "q&a", "a<b", "c>d", "it's", 'say "hi"', "]]>", "tab\there", "line\nbreak", " lead", "trail ", "  ", "", "😀", "é́", "cr\rmid", "trail\r", "a\r\rb", "\r\n", "\r", "\n", "\tx"]
UNION_SAFE_WORDS = ["alpha", "beta gamma", "Hello", "zeta-x", "q&a", "a<b", "中文"]
LOCAL_NAMES = ["aa", "bb", "itemz", "value", "x-z", "n.m", "_u", "Élan", "data1", "Itemz", "ITEMZ", "fooBar", "foo_bar"]  # disjoint from every name generator output of the python field names


class Gen:
    """Seeded, feature-directed model generator. `features` restricts what may be used."""

    ALL = {
        "attribute", "text", "elements", "wildcard", "attributes", "tokens", "nillable", "sequence", "wrapper", "union", "enum",
        "inheritance", "namespaces", "field_ns", "namegen", "frozen", "default", "bytes", "dates", "qname", "class_nillable", "recursion", "meta_name",
        "list", "float", "decimal", "object", "slots", "fixed", "module_ns", "multi_class_choice",
    }

    def __init__(self, rng, salt, features=None, max_classes=4, max_fields=5):
        self.rng = rng
        self.salt = salt
        self.features = self.ALL if features is None else set(features)
        self.max_classes = max_classes
        self.max_fields = max_fields
        self.ns_pool = [f"urn:vf:{salt}:a", f"http://vf.test/{salt}/b", f"urn:vf:{salt}:c#frag"]
        self.used = set()
        self.seq_counter = 0
        self.boost = set()  # features a check wants more often than the default mix

    def on(self, f, p=0.5):
        return f in self.features and self.rng.random() < p

    def model(self) -> Model:
        rng = self.rng
        n = rng.randrange(1, self.max_classes + 1)
        m = Model(salt=self.salt, classes=[], enums=[], root=f"K{self.salt}x0")
        m.future_annotations = rng.random() < 0.5
        if self.on("module_ns", 0.15):
            m.module_namespace = rng.choice(self.ns_pool)
        names = [f"K{self.salt}x{i}" for i in range(n)]
        if self.on("enum", 0.6):
            for i in range(rng.randrange(1, 3)):
                m.enums.append(self.enum(f"E{self.salt}x{i}"))
        frozen_model = self.on("frozen", 0.2)
        bases = {}
        if self.on("inheritance", 0.45) and n >= 2:
            # a derived class with a smaller index extends a base with a larger index
            for _ in range(rng.randrange(1, 3)):
                i = rng.randrange(0, n - 1)
                j = rng.randrange(i + 1, n)
                if names[i] not in bases and i != 0:
                    bases[names[i]] = names[j]
        for i, name in enumerate(names):
            c = Cls(name=name, fields=[])
            c.frozen = frozen_model
            c.kw_only = True
            c.slots = self.on("slots", 0.1) and name not in bases and name not in bases.values()
            c.has_meta = rng.random() < 0.85
            if c.has_meta:
                if self.on("meta_name", 0.35):
                    c.meta_name = rng.choice(LOCAL_NAMES) + f"_{self.salt}{i}"
                if self.on("namespaces", 0.55):
                    c.has_namespace = True
                    c.namespace = rng.choice(self.ns_pool + ([""] if rng.random() < 0.1 else []))
                if self.on("class_nillable", 0.1):
                    c.nillable = True
                if self.on("namegen", 0.15):
                    c.name_gen = rng.choice(["pascal", "camel", "kebab", "snake"])
            c.base = bases.get(name)
            m.classes.append(c)
        for i in reversed(range(len(m.classes))):  # bases (larger index) first
            self.fields(m, m.classes[i], i, names)
        self.fix_namespaces(m)
        return m

    def enum(self, name):
        rng = self.rng
        base = rng.choice(["str", "str", "int", "float", "Decimal", "QName"] if "qname" in self.features else ["str", "str", "int"])
        if base == "str":
            vals = rng.sample(["red", "green", "dark blue", "X-1", "é", "a_b", "UPPER", "1st"], rng.randrange(2, 5))
        elif base == "int":
            vals = rng.sample([0, 1, -1, 10, 2**40, -(2**33)], rng.randrange(2, 5))
        elif base == "float":
            vals = [enc_value(x) for x in rng.sample([0.5, 1e22, -2.25, 1e-7, 3.0], rng.randrange(2, 4))]
        elif base == "Decimal":
            vals = [enc_value(Decimal(x)) for x in rng.sample(["1.50", "-0.001", "1E+3", "7"], rng.randrange(2, 4))]
        else:
            vals = [enc_value(QName(x)) for x in rng.sample([f"{{{self.ns_pool[0]}}}qa", f"{{{self.ns_pool[2]}}}qb", f"{{{self.ns_pool[1]}}}qc"], 2)]
        return EnumSpec(name=name, base=base, members=[(f"M{i}", v) for i, v in enumerate(vals)])

    def prim(self):
        rng = self.rng
        pool = ["str", "str", "int", "int", "bool"]
        if "float" in self.features:
            pool += ["float"]
        if "decimal" in self.features:
            pool += ["Decimal"]
        if "dates" in self.features:
            pool += ["XmlDate", "XmlTime", "XmlDateTime", "XmlDuration", "XmlPeriod"]
        if "qname" in self.features:
            pool += ["QName"]
        if "bytes" in self.features:
            pool += ["bytes"]
        return rng.choice(pool)

    def leaf_types(self, m, allow_union=True):
        """-> (types, format)"""
        rng = self.rng
        if m.enums and self.on("enum", 0.2):
            return [T("enum", rng.choice(m.enums).name)], None
        if allow_union and self.on("union", 0.15):
            combos = [["int", "str"], ["float", "str"], ["bool", "str"], ["int", "float"], ["int", "bool"], ["Decimal", "str"], ["int", "XmlDate"], ["XmlDate", "str"], ["XmlDuration", "int"]]
            combo = rng.choice([c for c in combos if all(t in ("str", "int", "bool") or self.allowed(t) for t in c)])
            combo = list(combo)
            rng.shuffle(combo)
            return [T("prim", t) for t in combo], None
        p = self.prim()
        fmt = rng.choice(["base16", "base64"]) if p == "bytes" else None
        return [T("prim", p)], fmt

    def allowed(self, t):
        return {"float": "float", "Decimal": "decimal", "XmlDate": "dates", "XmlDuration": "dates"}.get(t, t) in self.features

    def uname(self, base):
        n = base
        k = 0
        while n in self.used:
            k += 1
            n = f"{base}{k}"
        self.used.add(n)
        return n

    def fields(self, m, c, idx, names):
        rng = self.rng
        self.used = set()
        if c.base:
            # avoid python-name and xml-name clashes with inherited fields
            b = m.cls(c.base)
            while b:
                for f in b.fields:
                    self.used.update(x for x in (f.name, f.meta_name, f.wrapper) if x)
                    self.used.update(ch.name for ch in f.choices)
                b = m.cls(b.base) if b.base else None
        nf = rng.randrange(0 if c.base else 1, self.max_fields + 1)
        # simple content: a class with a Text field only has attributes besides it, takes no part in inheritance
        text_ok = not c.base and not any(k.base == c.name for k in m.classes)
        simple_content = text_ok and "text" in self.features and rng.random() < 0.18
        later = names[idx + 1 :]
        inherited = [f for _, f in chain_fields(m, c)]
        have_text = False
        has_wild = any(f.xml == "Wildcard" for f in inherited)
        chain_mixed = any(f.mixed for f in inherited)
        chain_attrs = any(f.xml == "Attributes" for f in inherited)
        seq_group = None
        base_has_text = False
        b = m.cls(c.base) if c.base else None
        # bases are generated later (larger index) -> text exclusivity is enforced in fix-up
        for k in range(nf):
            r = rng.random()
            fname = self.uname(rng.choice(["a", "b", "c", "val", "item", "x_y", "node", "flag", "count", "ref"]))
            if "wildcard" in self.boost and "wildcard" in self.features and not has_wild and not have_text and rng.random() < 0.35:
                r = 0.35
            if chain_mixed:
                r = 0.1  # a mixed wildcard in a base captures every child: only attributes may be added
                if "attribute" not in self.features:
                    break
            if simple_content:
                r = 0.25 if not have_text else 0.1
                if have_text and "attribute" not in self.features:
                    break
            elif 0.22 <= r < 0.28:
                r = 0.9
            if r < 0.22 and "attribute" in self.features:
                f = self.attr_field(m, fname)
            elif r < 0.28 and "text" in self.features and text_ok and not have_text and not has_wild:
                types, fmt = self.leaf_types(m)
                f = Field(fname, "Text", types, rng.choice(["one", "opt", "default"]), format=fmt)
                if self.on("tokens", 0.2) and types[0].name != "bytes":
                    f.tokens, f.container = True, "tlist"
                have_text = True
            elif r < 0.34 and "elements" in self.features and later:
                f = self.compound_field(m, fname, later)
            elif r < 0.40 and "wildcard" in self.features and not have_text and not has_wild:
                f = Field(fname, "Wildcard", [T("object", "object")], rng.choice(["opt", "list"]))
                if rng.random() < 0.3:
                    f.namespace = rng.choice(["##any", "##other", "##local", "##targetNamespace", "##any"])
                if f.container == "list" and rng.random() < 0.3:
                    f.mixed = True
                has_wild = True
            elif r < 0.45 and "attributes" in self.features and not chain_attrs and not any(x.xml == "Attributes" for x in c.fields):
                f = Field(fname, "Attributes", [T("prim", "str")], "default")
                if rng.random() < 0.6:
                    f.namespace = rng.choice(["##any", "##any", "##other", "##local"])
                if False and c.nillable and f.namespace in ("##any", "##other"):
                    f.namespace = "##local"  # xsi:nil would be captured by the map (kept out of the main population)
            else:
                f = self.element_field(m, fname, later, names, idx)
            if f.container == "default" and f.xml not in ("Attributes",) and f.default is None:
                f.default = self.default_for(m, f)
                if f.default is None:
                    f.container = "opt"
            # sequence groups: runs of adjacent Element fields, numbers unique per model (so that a group
            # never spans unrelated fields of a base class)
            if f.xml == "Element" and "sequence" in self.features and (seq_group is not None and rng.random() < 0.6 or rng.random() < 0.15):
                if seq_group is None:
                    self.seq_counter += 1
                    seq_group = self.seq_counter
                f.sequence = seq_group
            elif f.xml not in ("Attribute", "Attributes"):
                seq_group = None
            f.explicit_type = f.xml != "Element" or rng.random() < 0.7
            if f.meta_name is None and self.on("meta_name", 0.3) and f.xml in ("Element", "Attribute"):
                f.meta_name = self.uname(rng.choice(LOCAL_NAMES))
            c.fields.append(f)
        # mixed content: the mixed wildcard captures every child, so it is the only element-ish field
        if any(f.mixed for f in c.fields) and any(f.xml in ("Element", "Elements", "Text") for f in c.fields + inherited):
            for f in c.fields:
                f.mixed = False
        # default_xml_type: a lone untyped field would be read as Text; keep untyped Element fields only
        # in classes outside inheritance that have at least two of them
        untyped = [f for f in c.fields if not f.explicit_type]
        if len(untyped) < 2 or c.base or any(k.base == c.name for k in m.classes):
            for f in untyped:
                f.explicit_type = True

    def attr_field(self, m, fname):
        rng = self.rng
        types, fmt = self.leaf_types(m)
        f = Field(fname, "Attribute", types, rng.choice(["one", "opt", "opt", "default"]), format=fmt)
        if self.on("tokens", 0.15) and types[0].name != "bytes":
            f.tokens, f.container = True, rng.choice(["tlist", "tlist", "ttuple" if False else "tlist"])
        if self.on("field_ns", 0.2):
            f.namespace = rng.choice(self.ns_pool + ["http://www.w3.org/XML/1998/namespace"] * 0)
        if f.container == "default" and rng.random() < 0.3:
            f.required = True
        return f

    def element_field(self, m, fname, later, names, idx):
        rng = self.rng
        r = rng.random()
        if later and r < 0.35:
            target = rng.choice(later)
            f = Field(fname, "Element", [T("class", target)], rng.choice(["one", "opt", "list"] if "list" in self.features else ["one", "opt"]))
            subs = [c for c in m.classes if c.base == target]
            if subs and rng.random() < 0.3:
                # the element is called like one of the derived types (xsi:type is still needed to tell them apart)
                sub = rng.choice(subs)
                local = sub.meta_name if (sub.has_meta and sub.meta_name) else namegen(sub.name_gen if sub.has_meta else None, sub.name)
                if local not in self.used:
                    self.used.add(local)
                    f.meta_name = local
        elif self.on("recursion", 0.08):
            target = rng.choice(names[: idx + 1])
            f = Field(fname, "Element", [T("class", target)], rng.choice(["opt", "list"]))
        elif self.on("object", 0.06):
            f = Field(fname, "Element", [T("object", "object")], rng.choice(["opt", "list"]))
            if f.container == "opt" and self.on("nillable", 0.3):
                f.nillable = True  # a nillable anyType element: None is written as a nil element
        else:
            types, fmt = self.leaf_types(m)
            conts = ["one", "opt", "default"] + (["list", "list"] if "list" in self.features else [])
            f = Field(fname, "Element", types, rng.choice(conts), format=fmt)
            if self.on("tokens", 0.15) and types[0].name != "bytes":
                f.tokens = True
                f.container = rng.choice(["tlist", "tlist", "list"])
        if f.types[0].kind in ("prim", "enum") and self.on("nillable", 0.2) and f.container in ("opt", "list", "tlist", "default") and not (f.tokens and f.container == "list"):
            f.nillable = True  # (with a default value too: nillable="true" default="5" is what the generator emits for such elements)
        if self.on("field_ns", 0.2):
            f.namespace = rng.choice(self.ns_pool + [""])
        if f.container == "list" and not f.tokens and f.types[0].kind in ("prim", "enum") and self.on("wrapper", 0.2):
            f.wrapper = self.uname(rng.choice(["wrap", "items", "W-x"]))
        if m.classes and m.classes[idx].frozen and f.container == "list":
            f.container = "tuple"
        return f

    def compound_field(self, m, fname, later):
        rng = self.rng
        f = Field(fname, "Elements", [], rng.choice(["list", "list", "opt"]))
        pool = [("prim", "int"), ("prim", "str"), ("prim", "bool")] + [("class", n) for n in later[: 3 if "multi_class_choice" in self.features else 1]]
        if "float" in self.features:
            pool.append(("prim", "float"))
        rng.shuffle(pool)
        seen = set()
        for kind, name in pool[: rng.randrange(2, 4)]:
            if name in seen:
                continue
            seen.add(name)
            ch = Choice(self.uname(rng.choice(["ch", "opt", "alt"])), [T(kind, name)])
            if self.on("field_ns", 0.15):
                ch.namespace = rng.choice(self.ns_pool)
            f.choices.append(ch)
        # str absorbs everything on the way back: only keep str when it is the sole primitive choice
        prims = [ch for ch in f.choices if ch.types[0].kind == "prim"]
        if len(prims) > 1:
            f.choices = [ch for ch in f.choices if ch.types[0].name != "str"]
        if m.classes and any(c.frozen for c in m.classes) and f.container == "list":
            f.container = "tuple"
        return f

    def default_for(self, m, f):
        if f.tokens or f.types[0].kind not in ("prim", "enum") or len(f.types) > 1:
            return None
        if f.types[0].kind == "enum":
            e = m.enum(f.types[0].name)
            return {"e": [e.name, self.rng.choice(e.members)[0]]}
        if f.types[0].name in ("XmlDuration", "XmlPeriod"):
            return None  # UserString subclasses are unhashable: dataclasses refuses them as plain defaults
        v = gen_leaf(self.rng, m, f.types[0], None, self.ns_pool, union_safe=True, allow_unqualified_qname=False)
        if isinstance(v, str) and v.strip() == "":
            v = "dflt"
        return enc_value(v) if not isinstance(v, (bytes,)) or True else None

    # ---- namespace consistency fix-up (see DESIGN: classes without Meta.namespace are only kept
    # where every use site makes them inherit one and the same namespace by both routes)
    def fix_namespaces(self, m: Model):
        """A class without Meta.namespace takes the namespace handed down on first use; the serializer
        hands down the namespace of the *element* its parent was written as, the parser the parent's
        *class* namespace. Such a class is only kept where both agree and every use site hands down
        the same namespace; otherwise it gets an explicit Meta.namespace."""
        for _ in range(20):
            eff, seen = {}, set()
            conflict = None

            def visit(cname, parent_class_ns, parent_elem_ns, own_elem_ns):
                nonlocal conflict
                if conflict or (cname, parent_class_ns, parent_elem_ns, own_elem_ns) in seen:
                    return
                seen.add((cname, parent_class_ns, parent_elem_ns, own_elem_ns))
                c = m.cls(cname)
                if c.has_namespace:
                    ns = c.namespace or None
                else:
                    if parent_class_ns != parent_elem_ns:
                        conflict = cname
                        return
                    ns = parent_class_ns
                if cname in eff and eff[cname] != ns:
                    conflict = cname
                    return
                eff[cname] = ns
                elem_ns = ns if own_elem_ns == "__class__" else own_elem_ns
                for decl, f in chain_fields(m, c):
                    sites = []
                    if f.xml == "Elements":
                        for ch in f.choices:
                            sites += [(t.name, ch.namespace) for t in ch.types if t.kind == "class"]
                    else:
                        sites += [(t.name, f.namespace) for t in f.types if t.kind == "class"]
                    for tname, meta_ns in sites:
                        fns = field_parent_ns(m, c, decl, ns) if meta_ns is None else (meta_ns or None)
                        for sub in [tname] + subclasses_of(m, tname):
                            visit(sub, ns, elem_ns, fns)

            for c in m.classes:  # every class may be the root of a document of its own
                if conflict is None:
                    visit(c.name, None, None, "__class__")
            if conflict is None:
                return
            c = m.cls(conflict)
            c.has_meta = True
            c.has_namespace = True
            c.namespace = self.rng.choice(self.ns_pool)
        raise RuntimeError("namespace fix-up did not converge")


def subclasses_of(m: Model, name):
    out = []
    for c in m.classes:
        k = c
        while k.base:
            if k.base == name:
                out.append(c.name)
                break
            k = m.cls(k.base)
    return out


def field_parent_ns(m: Model, clazz: Cls, declaring: Cls, class_ns):
    """Namespace a field inherits when it gives none: the namespace of the class it is read
    through, except that a field declared in a base class which has its own Meta with a
    namespace keeps the base's namespace (XSD extension across namespaces)."""
    if declaring is not clazz and declaring.has_meta and declaring.has_namespace:
        return declaring.namespace or None
    return class_ns or None


# --------------------------------------------------------------------------------------- effective namespaces
def effective_namespaces(m: Model, root=None):
    """class name -> namespace it has in documents rooted at `root` (own Meta.namespace, else the one
    inherited from the single consistent use site; see Gen.fix_namespaces)."""
    eff = {}

    def visit(cname, parent_ns):
        c = m.cls(cname)
        ns = (c.namespace or None) if c.has_namespace else parent_ns
        if cname in eff:
            return
        eff[cname] = ns
        k = c
        while k:
            for f in k.fields:
                targets = [t.name for t in f.types if t.kind == "class"] + [t.name for ch in f.choices for t in ch.types if t.kind == "class"]
                for tname in targets:
                    for sub in [tname] + subclasses_of(m, tname):
                        visit(sub, ns)
            k = m.cls(k.base) if k.base else None

    visit(root or m.root, None)
    for c in m.classes:  # classes unreachable from the root: as roots of their own
        if c.name not in eff:
            visit(c.name, None)
    return eff


def chain_fields(m: Model, c: Cls):
    """(declaring class, field) in dataclass field order: base-class fields first."""
    chain = []
    k = c
    while k:
        chain.append(k)
        k = m.cls(k.base) if k.base else None
    out = []
    for k in reversed(chain):
        for f in k.fields:
            out.append((k, f))
    return out


# --------------------------------------------------------------------------------------- instance generator
INT_POOL = [0, 1, -1, 7, 42, -128, 255, 65536, 2**31 - 1, -(2**31), 2**63, -(2**63) - 1, 10**25]
FLOAT_POOL = [0.0, -0.0, 1.0, -1.5, 0.1, 1e22, 1e16, 1e-7, 123456.789, 5e-324, 1.7976931348623157e308, float("inf"), float("-inf"), float("nan"), 3.4028235e38, 2.5e-10]
DEC_POOL = ["0", "1", "-1.50", "0.001", "1E+10", "123456789012345678901234567890.5", "-0.0", "7.00", "1E-12"]
DURATIONS = ["P1Y", "PT1M", "P1Y2M3DT4H5M6S", "-P3D", "PT0.5S", "P0Y", "PT36H", "P1M", "PT1.000000001S"]
PERIODS = ["2001", "-0045", "12345", "2001-10", "--05", "--02-29", "---31", "2001Z", "--11-04:00", "---01+14:00", "2001-02-05:00"]


def gen_leaf(rng, m: Model, t: T, loaded, ns_pool, union_safe=False, allow_unqualified_qname=True):
    from xsdata.models.datatype import XmlDate, XmlDateTime, XmlDuration, XmlPeriod, XmlTime

    if t.kind == "enum":
        e = m.enum(t.name)
        if loaded is None:
            return dec_value(rng.choice(e.members)[1], xsdata_ns())
        members = list(loaded.cls(t.name))
        if not allow_unqualified_qname:
            ok = [mm for mm in members if not (isinstance(mm.value, QName) and not mm.value.text.startswith("{"))]
            members = ok or members
        return rng.choice(members)
    n = t.name
    if n == "str":
        return rng.choice(UNION_SAFE_WORDS if union_safe else SAFE_WORDS)
    if n == "int":
        return rng.choice(INT_POOL) if rng.random() < 0.6 else rng.randrange(-(10**9), 10**9)
    if n == "bool":
        return rng.random() < 0.5
    if n == "float":
        return rng.choice(FLOAT_POOL) if rng.random() < 0.6 else rng.uniform(-1e9, 1e9)
    if n == "Decimal":
        return Decimal(rng.choice(DEC_POOL)) if rng.random() < 0.7 else Decimal(rng.randrange(-(10**12), 10**12)) / Decimal(10 ** rng.randrange(0, 8))
    if n == "QName":
        local = rng.choice(["qa", "q-b", "_c", "Élan", "int"])
        if allow_unqualified_qname and rng.random() < 0.2:
            return QName(local)
        return QName(f"{{{rng.choice(ns_pool + [XS])}}}{local}")
    if n == "bytes":
        return rng.randbytes(rng.choice([0, 1, 2, 3, 10, 31]))
    y = rng.choice([1, 1999, 2000, 2024, 9999, 12345, -44, 0])
    mo = rng.randrange(1, 13)
    d = rng.randrange(1, lx.days_in_month(y, mo) + 1)
    off = rng.choice([None, None, 0, 60, -330, 840, -840])
    h, mi, s = rng.choice([0, 23, 12, 24]), rng.randrange(60), rng.randrange(60)
    ns = rng.choice([0, 0, 500000000, 123000, 999999999, 1])
    if h == 24:
        mi = s = ns = 0
    if n == "XmlDate":
        return XmlDate(y, mo, d, off)
    if n == "XmlTime":
        return XmlTime(h, mi, s, ns, off)
    if n == "XmlDateTime":
        return XmlDateTime(y, mo, d, h, mi, s, ns, off)
    if n == "XmlDuration":
        return XmlDuration(rng.choice(DURATIONS))
    if n == "XmlPeriod":
        return XmlPeriod(rng.choice(PERIODS))
    raise KeyError(n)


class InstGen:
    def __init__(self, rng, loaded: Loaded, max_depth=3, default_ns=False, hostile_text=False, json_mode=False):
        self.json_mode = json_mode
        self.rng = rng
        self.L = loaded
        self.m = loaded.model
        self.max_depth = max_depth
        self.ns_pool = [f"urn:vf:{self.m.salt}:a", f"http://vf.test/{self.m.salt}/b", f"urn:vf:{self.m.salt}:q"]
        self.default_ns = default_ns  # a default namespace may be in scope: unqualified QName values not representable
        self.dropped = []
        self.eff = effective_namespaces(self.m)
        self.ref = Ref(loaded)
        self.field_qname = None

    def leaf(self, f_types, fmt, tokens=False, nonempty=False):
        rng = self.rng
        t = rng.choice(f_types)
        v = gen_leaf(rng, self.m, t, self.L, self.ns_pool, union_safe=len(f_types) > 1 or tokens, allow_unqualified_qname=not self.default_ns)
        if nonempty and isinstance(v, (str, bytes)) and len(v) == 0:
            v = "ne" if isinstance(v, str) else b"\x00"
        if tokens and isinstance(v, str):
            v = rng.choice(["tok", "a-b", "x1", "é"])  # tokens contain no whitespace and are non-empty
        if tokens and isinstance(v, enum.Enum) and isinstance(v.value, str) and (" " in v.value or not v.value):
            v = rng.choice([mm for mm in type(v) if " " not in mm.value and mm.value])
        return v

    def obj(self, cname, depth=0):
        rng = self.rng
        c = self.m.cls(cname)
        C = self.L.cls(cname)
        kwargs = {}
        for decl, f in chain_fields(self.m, c):
            if not f.init:
                continue
            if f.xml == "Element":
                self.field_qname = clark(self.ref.field_ns(c, decl, f.namespace, "Element"), self.ref.field_local(c, f))
            self.holder = c
            kwargs[f.name] = self.value(f, depth, field_parent_ns(self.m, c, decl, self.eff.get(cname)))
        return C(**kwargs)

    def pick_class(self, tname, depth):
        subs = subclasses_of(self.m, tname)
        if subs and depth < self.max_depth and self.rng.random() < 0.4:
            return self.rng.choice(subs)
        return tname

    def single(self, f: Field, depth, qname=None):
        rng = self.rng
        t0 = f.types[0]
        if t0.kind == "class":
            return self.obj(self.pick_class(t0.name, depth), depth + 1)
        if t0.kind == "object":
            return self.any_value(depth, qname, nillable=f.nillable)
        if f.tokens:
            n = rng.randrange(1, 4)
            items = [self.leaf(f.types, f.format, tokens=True) for _ in range(n)]
            return items
        # known findings keep '' / b'' out of Text fields and nillable fields (dedicated probes cover them)
        return self.leaf(f.types, f.format, nonempty=(f.xml == "Text" or f.nillable))

    def any_value(self, depth, qname, nillable=False):
        """A value for an xs:anyType *element* field (object): primitive -> xsi:type'd, or a generic tree
        that carries the element's own qualified name (the generic form of that very element)."""
        rng = self.rng
        r = rng.random()
        if nillable:
            # (an empty value in a nillable field reads back as nil - known findings C01/empty-string-in-nillable-field and
            # friends - so a nillable anyType field only gets non-empty primitives here)
            r = 0.3
        if r < 0.07 and not self.json_mode:
            # binary values carry their encoding in the wrapper type (xs:hexBinary / xs:base64Binary), b"" included
            from xsdata.models.datatype import XmlBase64Binary, XmlHexBinary

            return rng.choice([XmlHexBinary, XmlBase64Binary])(rng.randbytes(rng.choice([0, 0, 1, 2, 5, 33])))
        if r < 0.6 and not self.json_mode:
            t = T("prim", rng.choice(["str", "int", "bool", "float", "Decimal", "XmlDate", "XmlDuration"]))
            v = gen_leaf(rng, self.m, t, self.L, self.ns_pool, union_safe=True)
            if isinstance(v, str):
                v = rng.choice(["plain", "two words", "x"])
            return v
        el = self.any_element(depth, top=True)
        el.qname = qname
        el.tail = None
        if not el.children and not el.attributes:
            el.attributes["k"] = "v"  # a childless, attribute-less anyType element comes back as its text
        return el

    def any_element(self, depth, top=False, foreign_ns=None, root_ns=None):
        from xsdata.formats.dataclass.models.generics import AnyElement

        rng = self.rng
        if root_ns is not None:
            ns = rng.choice(root_ns)
        else:
            ns = rng.choice([None, foreign_ns or f"urn:vf:{self.m.salt}:w", f"urn:vf:{self.m.salt}:w2"])
        local = rng.choice(["w", "wild", "w-1", "Ŵ"])
        q = f"{{{ns}}}{local}" if ns else local
        el = AnyElement(qname=q)
        kids = rng.randrange(0, 3) if depth < self.max_depth else 0
        if kids == 0:
            el.text = rng.choice(["", "txt", "a b", "ü", " ", "\t", " lead", "trail "])  # leaf text is kept verbatim, whitespace included
        else:
            el.text = rng.choice(["", "lead"])  # the parser's canonical "no text" for a generic element is ""
            for _ in range(kids):
                ch = self.any_element(depth + 1, foreign_ns=ns)
                ch.tail = rng.choice([None, None, "tail"])
                el.children.append(ch)
        if rng.random() < 0.4:
            k = rng.choice(["k", f"{{urn:vf:{self.m.salt}:w}}k", "k-2"])
            el.attributes[k] = rng.choice(["v", "", "a b"])
        return el

    def value(self, f: Field, depth, class_ns=None):
        rng = self.rng
        deep = depth >= self.max_depth
        if f.xml == "Attributes":
            out = {}
            allowed = {None: [None], "##any": [None, f"urn:vf:{self.m.salt}:x", class_ns], "##local": [None], "##other": [x for x in (f"urn:vf:{self.m.salt}:x", f"urn:vf:{self.m.salt}:x2") if x != class_ns]}[f.namespace]
            for _ in range(rng.randrange(0, 3)):
                ns = rng.choice(allowed)
                k = rng.choice(["xa", "xb", "x-c"])
                out[f"{{{ns}}}{k}" if ns else k] = rng.choice(["1", "v v", "", "é"])
            return out
        if f.xml == "Wildcard":
            return self.wildcard_value(f, depth, class_ns)
        if f.xml == "Elements":
            return self.compound_value(f, depth)
        cont = f.container
        is_class = f.types and f.types[0].kind == "class"
        if f.types and f.types[0].kind == "object":
            q = self.field_qname
            if cont == "opt":
                return None if rng.random() < 0.35 else self.single(f, depth, q)
            items = [self.single(f, depth, q) for _ in range(rng.randrange(0, 4))]
            return tuple(items) if cont == "tuple" else items
        if f.tokens:
            if cont == "list":  # list of token lists
                return [self.single(f, depth) for _ in range(rng.randrange(0, 3))]
            if cont == "opt":
                return None if rng.random() < 0.4 else self.single(f, depth)
            items = self.single(f, depth)
            if rng.random() < 0.15 and f.nillable:
                items = []
            return tuple(items) if cont == "tuple" else items
        if cont == "opt":
            if rng.random() < 0.35 or (deep and is_class):
                return None
            return self.single(f, depth)
        if cont in ("list", "tuple"):
            n = 0 if (deep and is_class) else rng.randrange(0, 4)
            items = [self.single(f, depth) for _ in range(n)]
            if f.nillable and not is_class and items and rng.random() < 0.3:
                items[rng.randrange(len(items))] = None  # a None item of a nillable list is an xsi:nil element
            return items if cont == "list" else tuple(items)
        if cont == "default":
            if f.nillable and rng.random() < 0.25:
                return None  # nil, not the default
            if rng.random() < 0.4:
                return dec_value(f.default, self.L.ns)
            v = self.single(f, depth)
            if isinstance(v, (str, bytes)) and len(v) == 0:
                # XSD: an empty element takes the declared default, so '' is not representable here
                return dec_value(f.default, self.L.ns)
            return v
        return self.single(f, depth)  # "one"

    def wildcard_value(self, f, depth, class_ns):
        rng = self.rng
        allowed = wildcard_ns_for(self.m, f, class_ns)
        models = self.wildcard_model_classes(f, class_ns) if depth < self.max_depth else []
        if f.container == "opt":
            if rng.random() < 0.3:
                return None
            if models and rng.random() < 0.45:
                self.wildcard_model_count += 1
                return self.obj(rng.choice(models), depth + 1)
            return self.any_element(depth, root_ns=allowed)
        items = []
        if f.mixed and rng.random() < 0.5:
            items.append(rng.choice(["mixed text", "m", "ä b"]))  # leading text; later text lives in AnyElement.tail
            if self.adjacent_text and rng.random() < 0.3:
                items.append(rng.choice(["more", " and more", "x"]))  # two text items in a row are one run of character data
        for _ in range(rng.randrange(0, 4)):
            if models and not f.mixed and rng.random() < 0.4:
                self.wildcard_model_count += 1
                items.append(self.obj(rng.choice(models), depth + 1))
                continue
            el = self.any_element(depth, root_ns=allowed)
            if f.mixed and rng.random() < 0.4:
                el.tail = rng.choice(["tail text", "t"])
            items.append(el)
        return items

    wildcard_models = True
    wildcard_model_count = 0
    holder = None
    adjacent_text = False  # adjacent text items in mixed content cannot be told apart after a round trip: only for output checks

    def wildcard_model_classes(self, f, class_ns):
        """Model classes whose instances may sit in wildcard field f: a known global element inside a
        wildcard is bound to its class (found by its qualified name) and written under that name again.
        Only classes whose qualified name does not depend on where they are used (Meta.namespace given) and equals the name they are indexed under."""
        if not self.wildcard_models or self.json_mode:
            return []
        out = []
        for c in self.m.classes:
            if not (c.has_meta and c.has_namespace) or self.ref.class_qname(c) != self.ref.class_target_qname(c):
                continue  # the type index is keyed by target namespace (module __NAMESPACE__ when set)
            if (c.nillable if c.has_meta else False) or c.name == self.m.root:
                continue
            q = self.ref.class_qname(c)
            if self.holder is not None and any(g.meta_name == self.ref.class_local(c) for _, g in chain_fields(self.m, self.holder)):
                continue  # an element field of the holder has that very name: the element would be bound to the field
            ns = q[1:].split("}")[0] if q.startswith("{") else None
            w = f.namespace
            ok = {None: ns == class_ns, "##any": True, "##other": ns is not None and ns != class_ns, "##local": ns is None, "##targetNamespace": ns == class_ns}.get(w, ns == (w or None))
            if ok:
                out.append(c.name)
        return out

    def compound_value(self, f, depth):
        rng = self.rng

        def one():
            ch = rng.choice(f.choices)
            t = ch.types[0]
            if t.kind == "class":
                return self.obj(t.name, depth + 1)
            return gen_leaf(rng, self.m, t, self.L, self.ns_pool, union_safe=True)

        if depth >= self.max_depth:
            prim = [ch for ch in f.choices if ch.types[0].kind != "class"]
            if not prim:
                return None if f.container == "opt" else ([] if f.container == "list" else ())
        if f.container == "opt":
            return None if rng.random() < 0.3 else one()
        items = [one() for _ in range(rng.randrange(0, 4))]
        return items if f.container == "list" else tuple(items)


def wildcard_ns_for(m, f, class_ns):
    """Namespaces (None = no namespace) an element may have to be captured by wildcard field f of a class
    whose namespace is class_ns, per the documented ##any/##other/##local/##targetNamespace rules; a wildcard
    that gives no namespace takes the namespace of its class."""
    w, w2 = f"urn:vf:{m.salt}:w", f"urn:vf:{m.salt}:w2"
    ns = f.namespace
    if ns is None:
        return [class_ns]
    if ns == "##any":
        return [None, w, w2, class_ns]
    if ns == "##other":
        return [x for x in (w, w2) if x != class_ns]
    if ns == "##local":
        return [None]
    if ns == "##targetNamespace":
        return [class_ns]
    return [ns or None]


# --------------------------------------------------------------------------------------- reference semantics
def namegen(key, name):
    """The name generator is a callable supplied by the user in Meta (here one of xsdata.utils.text's
    case functions): whatever it returns *is* the name the metadata prescribes."""
    if key is None:
        return name
    from xsdata.utils import text

    return getattr(text, NAME_GENS[key].split(".")[1])(name)


def clark(ns, local):
    return f"{{{ns}}}{local}" if ns else local


@dataclass
class XLeaf:
    types: list  # [T]
    value: Any
    fmt: str | None = None
    tokens: bool = False
    any_type: bool = False  # xs:anyType element: xsi:type decides the lexical space


@dataclass
class XEl:
    qname: str
    attrs: dict = field(default_factory=dict)  # clark -> XLeaf | str (raw)
    content: list = field(default_factory=list)  # XEl | XLeaf | str(raw text)
    nil: bool = False
    xsi_type: str | None = None  # clark name of a model class target
    any_prim: bool = False  # xsi:type must name an XSD builtin consistent with the value
    cls: str | None = None  # name of the binding class this element is bound to (None: leaf / generic / wrapper)
    wrapper: bool = False  # the wrapper element of a list field (metadata 'wrapper')

    def to_json(self):
        def c(x):
            if isinstance(x, XEl):
                return x.to_json()
            if isinstance(x, XLeaf):
                return {"leaf": repr(x.value)}
            return {"text": x}

        return {"qname": self.qname, "attrs": {k: (repr(v.value) if isinstance(v, XLeaf) else v) for k, v in self.attrs.items()}, "nil": self.nil, "xsi_type": self.xsi_type, "content": [c(x) for x in self.content]}


class Unsupported(Exception):
    """The reference model does not cover this shape (counted, never a verdict)."""


def _is_arr(v):
    return isinstance(v, list) or (isinstance(v, tuple) and not hasattr(v, "_fields"))


class Ref:
    """Expected infoset of XmlSerializer.render(obj) from the documented metadata rules."""

    def __init__(self, loaded: Loaded, ignore_default_attributes=False):
        self.L = loaded
        self.m = loaded.model
        self.ida = ignore_default_attributes
        self.eff = effective_namespaces(self.m)

    # ---- names
    def class_local(self, c: Cls):
        if c.has_meta and c.meta_name is not None:
            return c.meta_name
        return namegen(c.name_gen if c.has_meta else None, c.name)

    def class_qname(self, c: Cls):
        return clark(self.eff[c.name], self.class_local(c))

    def class_target_qname(self, c: Cls):
        # the xsi:type name: target namespace = module __NAMESPACE__ if set, else Meta.namespace
        ns = self.m.module_namespace if self.m.module_namespace is not None else ((c.namespace or None) if c.has_namespace else None)
        return clark(ns or None, self.class_local(c))

    def field_local(self, owner: Cls, f: Field, meta_name=None):
        mn = f.meta_name if meta_name is None else meta_name
        if mn is not None:
            return mn
        return namegen(owner.name_gen if owner.has_meta else None, f.name)

    def field_ns(self, owner: Cls, decl: Cls, f_namespace, xml):
        if f_namespace is not None:
            return f_namespace or None
        if xml in ("Attribute",):
            return None
        return field_parent_ns(self.m, owner, decl, self.eff[owner.name])

    # ---- root
    def root(self, obj) -> XEl:
        c = self.m.cls(type(obj).__name__)
        return self.dataclass(obj, self.class_qname(c))

    def dataclass(self, obj, qname, xsi_type=None, field_nillable=False) -> XEl:
        c = self.m.cls(type(obj).__name__)
        el = XEl(qname=qname, xsi_type=xsi_type, cls=c.name)
        items = []  # (decl, field, value) for element-ish fields
        for decl, f in chain_fields(self.m, c):
            if f.xml == "Ignore":
                continue
            v = getattr(obj, f.name)
            if f.xml == "Attribute":
                self.attribute(el, c, decl, f, v)
            elif f.xml == "Attributes":
                for k, val in (v or {}).items():
                    el.attrs[k] = val
            else:
                items.append((decl, f, v))
        el.content = self.content(c, items)
        if (c.nillable if c.has_meta else False) or field_nillable:
            if not el.content:
                el.nil = True
        return el

    def attribute(self, el, c, decl, f, v):
        if v is None:
            return
        if _is_arr(v) and not v:
            return
        if self.ida and not f.required and f.container in ("opt", "default", "tlist", "list", "tuple"):
            default = None if f.container == "opt" else (dec_value(f.default, self.L.ns) if f.container == "default" else None)
            # "equals the default" is Python equality: a NaN value never equals a NaN default and is written
            if f.container == "default" and same_value(default, v) and not (isinstance(v, float) and v != v):
                return
        q = clark(self.field_ns(c, decl, f.namespace, "Attribute"), self.field_local(c, f))
        el.attrs[q] = XLeaf(f.types, v, f.format, tokens=f.tokens)

    def content(self, c, items):
        out = []
        i = 0
        while i < len(items):
            decl, f, v = items[i]
            if f.sequence is None or f.xml != "Element":
                if v is not None or f.nillable:
                    out += self.field_value(c, decl, f, v)
                i += 1
                continue
            j = i
            while j + 1 < len(items) and items[j + 1][1].sequence == f.sequence and items[j + 1][1].xml == "Element":
                j += 1
            group = items[i : j + 1]
            i = j + 1
            if any(g.wrapper for _, g, _ in group):
                raise Unsupported("wrapper field inside a sequence group (not specified by the documentation)")
            rnd = 0
            while True:
                progressed = False
                for decl, g, v in group:
                    if _is_arr(v) and not g.tokens or (g.tokens and g.container == "list"):
                        if rnd < len(v):
                            progressed = True
                            if v[rnd] is not None or g.nillable:
                                out += self.one_value(c, decl, g, v[rnd])
                    elif rnd == 0:
                        progressed = True
                        if v is not None or g.nillable:
                            out += self.field_value(c, decl, g, v)
                if not progressed:
                    break
                rnd += 1
        return out

    def field_value(self, c, decl, f, v):
        """Everything one non-sequential field contributes, in order."""
        if f.xml == "Text":
            if v is None:
                return []
            if f.tokens and not v:
                return []
            leaf = XLeaf(f.types, v, f.format, tokens=f.tokens)
            return [leaf]
        if f.xml == "Wildcard":
            return self.wildcard(c, f, v)
        if f.xml == "Elements":
            vals = list(v) if _is_arr(v) else [v]
            out = []
            for x in vals:
                out += self.choice_value(c, decl, f, x)
            return out
        # Element
        if f.tokens:
            if f.container == "list":
                out = []
                for toks in v:
                    out += self.one_value(c, decl, f, toks)
                return out
            if not v and not f.nillable:
                return []
            return self.one_value(c, decl, f, v)
        if f.container in ("list", "tuple"):
            out = []
            for x in v:
                out += self.one_value(c, decl, f, x)
            if f.wrapper:
                if not out and False:
                    return []
                w = XEl(clark(self.field_ns(c, decl, f.namespace, "Element"), f.wrapper), content=out, wrapper=True)
                return [w]
            return out
        return self.one_value(c, decl, f, v)

    def one_value(self, c, decl, f, v, meta_name=None, namespace="__field__", types=None, tokens=None, nillable=None):
        ns_meta = f.namespace if namespace == "__field__" else namespace
        q = clark(self.field_ns(c, decl, ns_meta, "Element"), self.field_local(c, f, meta_name))
        types = types or f.types
        tokens = f.tokens if tokens is None else tokens
        nillable = f.nillable if nillable is None else nillable
        if dataclasses.is_dataclass(v) and type(v).__name__ in ("AnyElement", "DerivedElement"):
            if type(v).__name__ == "AnyElement":
                return [self.any_element(v, top_qname=None)]
            raise Unsupported("DerivedElement in element field")
        if dataclasses.is_dataclass(v):
            declared = [t.name for t in types if t.kind == "class"]
            vc = self.m.cls(type(v).__name__)
            xt = None
            if type(v).__name__ not in declared:
                xt = self.class_target_qname(vc)
                if xt == q and not declared:
                    xt = None  # (anyType field: the class is found by the element name; a declared class is bound as declared)
            return [self.dataclass(v, q, xsi_type=xt, field_nillable=nillable)]
        el = XEl(q)
        if v is None or (tokens and not v):
            el.nil = bool(nillable)
            return [el]
        if types[0].kind == "object":
            el.any_prim = not isinstance(v, str)
            el.content = [XLeaf(types, v, None, any_type=True)] if v != "" else []
            return [el]
        if not (isinstance(v, str) and v == ""):
            el.content = [XLeaf(types, v, f.format, tokens=tokens)]
        return [el]

    def choice_value(self, c, decl, f, x):
        for ch in f.choices:
            t = ch.types[0]
            if dataclasses.is_dataclass(x):
                if t.kind == "class" and type(x).__name__ == t.name:
                    return self.one_value(c, decl, f, x, meta_name=ch.name, namespace=ch.namespace, types=ch.types, tokens=False, nillable=ch.nillable)
            elif t.kind == "prim" and prim_type_name(x) == t.name:
                return self.one_value(c, decl, f, x, meta_name=ch.name, namespace=ch.namespace, types=ch.types, tokens=ch.tokens, nillable=ch.nillable)
        raise Unsupported("compound value without exact choice")

    def wildcard(self, c, f, v):
        vals = list(v) if _is_arr(v) else [v]
        out = []
        for x in vals:
            if isinstance(x, str):
                out.append(x)
            elif type(x).__name__ == "AnyElement":
                out.append(self.any_element(x))
                if x.tail:
                    out.append(x.tail)
            elif hasattr(x, "__dataclass_fields__") and any(k.name == type(x).__name__ for k in self.m.classes):
                # a model instance in a wildcard is written as the global element of its class
                out.append(self.dataclass(x, self.class_qname(self.m.cls(type(x).__name__))))
            else:
                raise Unsupported("wildcard value kind")
        return out

    def any_element(self, x, top_qname=None) -> XEl:
        if not x.qname:
            raise Unsupported("AnyElement without qname")
        el = XEl(x.qname)
        for k, val in x.attributes.items():
            el.attrs[k] = val
        if x.text:
            el.content.append(x.text)
        for ch in x.children:
            if isinstance(ch, str):
                el.content.append(ch)
            elif type(ch).__name__ == "AnyElement":
                el.content.append(self.any_element(ch))
                if ch.tail:
                    el.content.append(ch.tail)
            else:
                raise Unsupported("AnyElement child kind")
        return el


def prim_type_name(v):
    if isinstance(v, bool):
        return "bool"
    if isinstance(v, enum.Enum):
        return type(v).__name__
    return {"int": "int", "float": "float", "str": "str", "Decimal": "Decimal", "QName": "QName", "bytes": "bytes"}.get(type(v).__name__, type(v).__name__)


def same_value(a, b):
    from vf.xmlkit import deep_eq

    return deep_eq(a, b) is None


# --------------------------------------------------------------------------------------- leaf judgement
XSD_INT_RANGES = {"byte": (-128, 127), "short": (-(2**15), 2**15 - 1), "int": (-(2**31), 2**31 - 1), "long": (-(2**63), 2**63 - 1), "integer": (None, None),
                  "unsignedByte": (0, 255), "unsignedShort": (0, 2**16 - 1), "unsignedInt": (0, 2**32 - 1), "unsignedLong": (0, 2**64 - 1),
                  "nonNegativeInteger": (0, None), "positiveInteger": (1, None), "nonPositiveInteger": (None, 0), "negativeInteger": (None, -1)}


def leaf_text_ok(v, text, fmt, nsmap):
    """Does `text` (as read by an independent XML parser) denote python value v? (ok, why)"""
    if isinstance(v, enum.Enum):
        v = v.value
    tn = type(v).__name__
    if isinstance(v, bool):
        return lx.bool_value(text) is v, "xs:boolean"
    if isinstance(v, int):
        return lx.int_value(text) == v, "xs:integer"
    if isinstance(v, float):
        r = lx.float_value(text)
        if r is None:
            return False, "xs:double lexical space"
        if math.isnan(v):
            return math.isnan(r), "NaN"
        return r == v and math.copysign(1, r) == math.copysign(1, v), "xs:double value"
    if isinstance(v, Decimal):
        r = lx.decimal_value(text)
        return (r is not None and r == v), "xs:decimal"
    if isinstance(v, bytes):
        if fmt is None:
            fmt = "base16" if tn == "XmlHexBinary" else "base64"
        r = lx.hex_value(text) if fmt == "base16" else lx.b64_value(text)
        return (r is not None and r == bytes(v)), f"binary/{fmt}"
    if isinstance(v, QName):
        c = lx.collapse(text)
        if not lx.RE_QNAME.match(c):
            return False, "QName production"
        prefix, _, local = c.rpartition(":")
        uri, loc = (v.text[1:].split("}", 1) if v.text.startswith("{") else (None, v.text))
        if loc != local:
            return False, "QName local part"
        bound = nsmap.get(prefix or None)
        return (bound or None) == uri, f"QName prefix {prefix!r} resolves to {bound!r}, expected {uri!r}"
    if tn in ("XmlDate", "XmlTime", "XmlDateTime"):
        kind = {"XmlDate": "date", "XmlTime": "time", "XmlDateTime": "dateTime"}[tn]
        c = lx.parse_calendar(kind, text)
        if c is None:
            return False, f"xs:{kind} lexical space"
        want = {k: getattr(v, {"frac_ns": "fractional_second"}.get(k, k)) for k in c if k != "frac_digits"}
        return {k: x for k, x in c.items() if k != "frac_digits"} == want, f"xs:{kind} components"
    if tn == "XmlDuration":
        a, b = lx.parse_duration(text), lx.parse_duration(str(v))
        return (a is not None and a == b), "xs:duration"
    if tn == "XmlPeriod":
        c = lx.collapse(text)
        for kind in ("gYear", "gYearMonth", "gMonth", "gMonthDay", "gDay"):
            a, b = lx.parse_shape(kind, c), lx.parse_shape(kind, str(v))
            if a is not None or b is not None:
                return (a is not None and a == b and lx.components_valid(kind, a)), f"xs:{kind}"
        return False, "g* lexical space"
    if isinstance(v, str):
        return text == v, "xs:string identity"
    return False, f"no oracle for {tn}"


def leaf_ok(leaf: XLeaf, text, nsmap):
    v = leaf.value
    if leaf.tokens:
        parts = text.split(" ") if text else []
        vals = list(v)
        if len(parts) != len(vals):
            return False, f"token count {len(parts)} != {len(vals)}"
        for p, x in zip(parts, vals):
            ok, why = leaf_text_ok(x, p, leaf.fmt, nsmap)
            if not ok:
                return ok, why
        return True, ""
    return leaf_text_ok(v, text, leaf.fmt, nsmap)


def builtin_ok(local, v, text):
    """xsi:type names an XSD builtin whose lexical space contains text and whose value is v."""
    if isinstance(v, bool):
        return local == "boolean"
    if isinstance(v, int):
        r = XSD_INT_RANGES.get(local)
        return r is not None and (r[0] is None or v >= r[0]) and (r[1] is None or v <= r[1])
    if isinstance(v, float):
        return local in ("float", "double")
    if isinstance(v, Decimal):
        return local == "decimal"
    tn = type(v).__name__
    table = {"XmlDate": ["date"], "XmlTime": ["time"], "XmlDateTime": ["dateTime", "dateTimeStamp"], "XmlDuration": ["duration", "dayTimeDuration", "yearMonthDuration"],
             "XmlPeriod": ["gYear", "gYearMonth", "gMonth", "gMonthDay", "gDay"], "QName": ["QName"], "XmlHexBinary": ["hexBinary"], "XmlBase64Binary": ["base64Binary"], "str": ["string"]}
    if tn == "XmlPeriod":
        for kind in table[tn]:
            if lx.parse_calendar(kind, text) is not None:
                return local == kind
        return False
    return local in table.get(tn, [])


# --------------------------------------------------------------------------------------- comparison
def compare(exp: XEl, act, cfg_indent=False, path="/") -> list:
    """Expected XEl vs actual vf.xmlkit.Node. Returns list of problems (strings)."""
    probs = []
    p = f"{path}{exp.qname}"
    if act.tag != exp.qname:
        return [f"{path}: element {act.tag!r}, metadata prescribes {exp.qname!r}"]
    attrs = dict(act.attrs)
    # xsi:nil
    nil = attrs.pop(XSI_NIL, None)
    if exp.nil and nil != "true":
        probs.append(f"{p}: xsi:nil=\"true\" expected, got {nil!r}")
    if not exp.nil and nil is not None:
        probs.append(f"{p}: unexpected xsi:nil={nil!r}")
    xt = attrs.pop(XSI_TYPE, None)
    xt_clark = None
    if xt is not None:
        pfx, _, loc = xt.strip().rpartition(":")
        uri = act.nsmap.get(pfx or None)
        if pfx and uri is None:
            probs.append(f"{p}: xsi:type {xt!r} uses a prefix that is not in scope")
        xt_clark = clark(uri, loc)
    if exp.any_prim:
        leaf = exp.content[0] if exp.content and isinstance(exp.content[0], XLeaf) else None
        if xt is None:
            probs.append(f"{p}: anyType value {leaf.value!r} serialized without xsi:type")
        elif not xt_clark.startswith(f"{{{XS}}}") or not builtin_ok(xt_clark[len(XS) + 2 :], leaf.value, act.text or ""):
            probs.append(f"{p}: xsi:type {xt_clark!r} does not describe the value {leaf.value!r}")
    elif exp.xsi_type != xt_clark:
        if not (exp.xsi_type is None and xt_clark is None):
            probs.append(f"{p}: xsi:type {xt_clark!r}, expected {exp.xsi_type!r}")
    # attributes
    for k, want in exp.attrs.items():
        if k not in attrs:
            probs.append(f"{p}: missing attribute {k!r}")
            continue
        got = attrs.pop(k)
        if isinstance(want, XLeaf):
            ok, why = leaf_ok(want, got, act.nsmap)
            if not ok:
                probs.append(f"{p}/@{k}: {got!r} does not denote {want.value!r} ({why})")
        else:
            if not raw_attr_equal(want, got, act.nsmap):
                probs.append(f"{p}/@{k}: {got!r} != {want!r}")
    for k in attrs:
        probs.append(f"{p}: attribute {k!r}={attrs[k]!r} is not prescribed by the metadata")
    # content
    exp_children = [x for x in exp.content if isinstance(x, XEl)]
    exp_text_items = [x for x in exp.content if not isinstance(x, XEl)]
    if len(act.children) != len(exp_children):
        probs.append(f"{p}: children {[c.tag for c in act.children]} but metadata prescribes {[c.qname for c in exp_children]}")
        return probs
    # text segments: [text, tail0, tail1, ...] aligned with expected content sequence
    act_segments = [act.text or ""] + [c.tail or "" for c in act.children]
    exp_segments = [[]]
    for x in exp.content:
        if isinstance(x, XEl):
            exp_segments.append([])
        else:
            exp_segments[-1].append(x)
    for i, (a, e) in enumerate(zip(act_segments, exp_segments)):
        if not e:
            if a.strip(" \t\r\n") != "" or (a != "" and not exp_children):
                probs.append(f"{p}: unexpected character data {a!r} at segment {i}")
            elif a != "" and not cfg_indent:
                probs.append(f"{p}: whitespace {a!r} at segment {i} although no indentation was requested")
            continue
        if len(e) == 1 and isinstance(e[0], XLeaf):
            ok, why = leaf_ok(e[0], a, act.nsmap)
            if not ok:
                probs.append(f"{p}: text {a!r} does not denote {e[0].value!r} ({why})")
        else:
            want = "".join(x if isinstance(x, str) else "\0" for x in e)
            if a != want:
                probs.append(f"{p}: character data {a!r} at segment {i}, expected {want!r}")
    for ca, ce in zip(act.children, exp_children):
        probs += compare(ce, ca, cfg_indent, p + "/")
    return probs


def raw_attr_equal(want, got, nsmap):
    """Wildcard attribute values: xsdata re-prefixes values that look like {uri}local."""
    if want == got:
        return True
    if want.startswith("{") and "}" in want:
        uri, loc = want[1:].split("}", 1)
        pfx, _, l2 = got.rpartition(":")
        return l2 == loc and nsmap.get(pfx or None) == uri
    return False
