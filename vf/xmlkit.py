"""XML kit: independent infoset extraction (libxml2 strict + expat), namespace-scope
checker (expat, non-namespace mode, own scope stack), NaN-aware type-exact deep equality.

Nothing here consults xsdata metadata.
"""

from __future__ import annotations

import dataclasses
import math
import xml.parsers.expat as expat
from decimal import Decimal
from enum import Enum
from xml.etree.ElementTree import QName

from lxml import etree

from vf import lexical as lx

XSI = "http://www.w3.org/2001/XMLSchema-instance"
XS = "http://www.w3.org/2001/XMLSchema"
XMLNS = "http://www.w3.org/XML/1998/namespace"
XSI_TYPE = f"{{{XSI}}}type"
XSI_NIL = f"{{{XSI}}}nil"


# ----------------------------------------------------------------------------- infoset
class Node:
    __slots__ = ("tag", "attrs", "text", "tail", "children", "nsmap", "comments_pis")

    def __init__(self, tag, attrs, text, tail, children, nsmap):
        self.tag = tag
        self.attrs = attrs
        self.text = text
        self.tail = tail
        self.children = children
        self.nsmap = nsmap

    def canon(self, ws="exact", keep_ns=False):
        """Canonical nested tuple. ws='exact' keeps text/tails verbatim; ws='drop-ws-only'
        turns whitespace-only text/tail adjacent to child elements into ''."""

        def t(x, adjacent):
            x = x or ""
            if ws == "drop-ws-only" and adjacent and not x.strip(" \t\r\n"):
                return ""
            return x

        has_kids = bool(self.children)
        return (
            self.tag,
            tuple(sorted(self.attrs.items())),
            t(self.text, has_kids),
            tuple((c.canon(ws), t(c.tail, True)) for c in self.children),
        )

    def to_json(self):
        return {"tag": self.tag, "attrs": dict(self.attrs), "text": self.text, "tail": self.tail, "children": [c.to_json() for c in self.children]}


def strict_parser():
    return etree.XMLParser(recover=False, resolve_entities=False, no_network=True, remove_comments=False, remove_pis=False, remove_blank_text=False, huge_tree=False)


def parse_strict(data):
    """bytes|str -> lxml root via strict libxml2 (raises etree.XMLSyntaxError)."""
    if isinstance(data, str):
        data = data.encode("utf-8")
    return etree.fromstring(data, strict_parser())


def infoset(el) -> Node:
    """lxml element -> Node tree; comments/PIs are skipped but the text around them is
    merged the way the XML infoset's character children merge."""
    text = el.text or ""
    children = []
    for ch in el:
        if isinstance(ch.tag, str):
            children.append(infoset(ch))
            children[-1].tail = ch.tail or ""
        else:  # comment / PI: its tail belongs to the previous sibling's tail or to text
            if children:
                children[-1].tail += ch.tail or ""
            else:
                text += ch.tail or ""
    return Node(el.tag, dict(el.attrib), text, "", children, dict(el.nsmap))


def infoset_of(data) -> Node:
    return infoset(parse_strict(data))


def expat_wellformed(data):
    """Second, independent well-formedness judge. Returns None or the error string."""
    if isinstance(data, str):
        data = data.encode("utf-8")
    p = expat.ParserCreate()
    try:
        p.Parse(data, True)
    except expat.ExpatError as e:
        return str(e)
    return None


# ----------------------------------------------------------------------------- namespace scope checker
class ScopeError(Exception):
    pass


def check_namespace_scopes(data, qname_leaf=None):
    """Namespace well-formedness with an own scope stack on raw (non-namespace) expat events.

    Checks: every prefix used by an element or attribute name (and xsi:type values) is
    declared in scope; `xml` only bound to the XML namespace, `xmlns` never declared;
    no `xmlns:p=""` (XML Namespaces 1.0); no two attributes with one expanded name; prefixes
    and local parts are NCNames. Returns the list of problems (empty = ok)."""
    if isinstance(data, str):
        data = data.encode("utf-8")
    problems = []
    stack = [{"xml": XMLNS}]

    def split(name):
        if name.count(":") > 1:
            problems.append(f"name with more than one colon: {name!r}")
        p, _, l = name.rpartition(":")
        return p, l

    def start(name, attrs):
        scope = dict(stack[-1])
        plain = []
        for i in range(0, len(attrs), 2):
            k, v = attrs[i], attrs[i + 1]
            if k == "xmlns":
                scope[""] = v
            elif k.startswith("xmlns:"):
                pfx = k[6:]
                if not lx.is_ncname(pfx):
                    problems.append(f"declared prefix is not an NCName: {pfx!r}")
                if pfx == "xmlns":
                    problems.append("prefix xmlns must not be declared")
                if pfx == "xml" and v != XMLNS:
                    problems.append(f"prefix xml bound to {v!r}")
                if pfx != "xml" and v == XMLNS:
                    problems.append(f"XML namespace bound to prefix {pfx!r}")
                if v == "":
                    problems.append(f'xmlns:{pfx}="" is not allowed in Namespaces 1.0')
                scope[pfx] = v
            else:
                plain.append((k, v))
        stack.append(scope)
        p, l = split(name)
        if not lx.is_ncname(l):
            problems.append(f"element local name is not an NCName: {l!r}")
        if p and p not in scope:
            problems.append(f"element <{name}> uses undeclared prefix {p!r}")
        seen = set()
        for k, v in plain:
            p, l = split(k)
            if not lx.is_ncname(l):
                problems.append(f"attribute local name is not an NCName: {l!r}")
            if p and p not in scope:
                problems.append(f"attribute {k!r} on <{name}> uses undeclared prefix {p!r}")
            exp = (scope.get(p) if p else None, l)
            if exp in seen:
                problems.append(f"two attributes with expanded name {exp!r} on <{name}>")
            seen.add(exp)
            if exp == (XSI, "type"):
                tp, tl = split(v.strip())
                if tp and tp not in scope:
                    problems.append(f"xsi:type value {v!r} on <{name}> uses undeclared prefix {tp!r}")
                if not tp and not scope.get("") and False:
                    pass

    def end(name):
        stack.pop()

    p = expat.ParserCreate()
    p.ordered_attributes = True
    p.StartElementHandler = start
    p.EndElementHandler = end
    try:
        p.Parse(data, True)
    except expat.ExpatError as e:
        problems.append(f"expat: not well-formed: {e}")
    return problems


# ----------------------------------------------------------------------------- deep equality
def deep_eq(a, b, path="$"):
    """NaN-aware, type-exact (list != tuple, bool != int) deep equality of binding objects.
    Returns None when equal, else a short description of the first difference."""
    if type(a) is not type(b):
        # XmlHexBinary/XmlBase64Binary are bytes wrappers used for xsi:type'd values: keep exact
        return f"{path}: type {type(a).__name__} != {type(b).__name__} ({a!r} vs {b!r})"[:400]
    if dataclasses.is_dataclass(a) and not isinstance(a, type):
        for f in dataclasses.fields(a):
            d = deep_eq(getattr(a, f.name), getattr(b, f.name), f"{path}.{f.name}")
            if d:
                return d
        return None
    if isinstance(a, float):
        if math.isnan(a) or math.isnan(b):
            return None if math.isnan(a) and math.isnan(b) else f"{path}: {a!r} != {b!r}"
        if a == b:  # python equality: -0.0 == 0.0 (the property demands "an object equal to the original")
            return None
        return f"{path}: {a!r} != {b!r}"
    if isinstance(a, Decimal):
        if a.is_nan() or b.is_nan():
            return None if a.is_nan() and b.is_nan() else f"{path}: {a!r} != {b!r}"
        return None if a == b else f"{path}: {a!r} != {b!r}"
    if isinstance(a, (list, tuple)) and not hasattr(a, "_fields"):
        if len(a) != len(b):
            return f"{path}: length {len(a)} != {len(b)} ({a!r} vs {b!r})"[:400]
        for i, (x, y) in enumerate(zip(a, b)):
            d = deep_eq(x, y, f"{path}[{i}]")
            if d:
                return d
        return None
    if isinstance(a, dict):
        if list(a.keys()) != list(b.keys()) and set(a.keys()) != set(b.keys()):
            return f"{path}: keys {sorted(map(repr, a))} != {sorted(map(repr, b))}"[:400]
        for k in a:
            d = deep_eq(a[k], b[k], f"{path}[{k!r}]")
            if d:
                return d
        return None
    if isinstance(a, QName):
        return None if a.text == b.text else f"{path}: {a!r} != {b!r}"
    if hasattr(a, "_fields"):  # NamedTuple (XmlDate, XmlTime, XmlDateTime): component equality
        # the property demands an *equal* object: XmlTime/XmlDateTime define == on the timeline
        return None if (tuple(a) == tuple(b) or a == b) else f"{path}: {a!r} != {b!r}"
    if isinstance(a, Enum):
        return None if a is b else f"{path}: {a!r} != {b!r}"
    try:
        return None if a == b else f"{path}: {a!r} != {b!r}"[:400]
    except Exception as e:  # noqa: BLE001
        return f"{path}: comparison raised {type(e).__name__}"


def deep_diffs(a, b, path="$", out=None, limit=20):
    """All differing leaf paths between two binding objects: [(path, a_value, b_value)]."""
    out = [] if out is None else out
    if len(out) >= limit:
        return out
    if dataclasses.is_dataclass(a) and not isinstance(a, type) and type(a) is type(b):
        for f in dataclasses.fields(a):
            deep_diffs(getattr(a, f.name), getattr(b, f.name), f"{path}.{f.name}", out, limit)
        return out
    if isinstance(a, (list, tuple)) and not hasattr(a, "_fields") and type(a) is type(b) and len(a) == len(b):
        for i, (x, y) in enumerate(zip(a, b)):
            deep_diffs(x, y, f"{path}[{i}]", out, limit)
        return out
    if isinstance(a, dict) and isinstance(b, dict) and set(a) == set(b):
        for k in a:
            deep_diffs(a[k], b[k], f"{path}[{k!r}]", out, limit)
        return out
    if deep_eq(a, b) is not None:
        out.append((path, a, b))
    return out
