"""Independent lexical/value oracles for XML Schema Part 2 datatypes.

Nothing here imports xsdata.  Grammars are transcribed from XSD 1.1 Part 2 (the
regular expressions given in the Recommendation for each primitive type); value
functions are built on int / decimal / fractions / float and an own proleptic
Gregorian day count that works for every year (negative, 0, > 9999).
"""

from __future__ import annotations

import base64
import binascii
import re
from decimal import Decimal
from fractions import Fraction

XSD_WS = " \t\n\r"


def collapse(s: str) -> str:
    """whiteSpace=collapse of XSD: only #x20 #x9 #xA #xD are white space."""
    s = s.replace("\t", " ").replace("\n", " ").replace("\r", " ")
    s = re.sub(" +", " ", s)
    return s.strip(" ")


# ------------------------------------------------------------------ numbers / bool
RE_BOOL = re.compile(r"^(true|false|1|0)$")
RE_INTEGER = re.compile(r"^[+-]?[0-9]+$")
RE_DECIMAL = re.compile(r"^[+-]?([0-9]+(\.[0-9]*)?|\.[0-9]+)$")
# XSD 1.0 lexical space (no "+INF"), which is a subset of XSD 1.1's.
RE_FLOAT = re.compile(r"^([+-]?([0-9]+(\.[0-9]*)?|\.[0-9]+)([Ee][+-]?[0-9]+)?|-?INF|NaN)$")
RE_HEX = re.compile(r"^([0-9a-fA-F]{2})*$")
B64 = "A-Za-z0-9+/"
RE_B64 = re.compile(
    rf"^(([{B64}] ?){{4}})*(([{B64}] ?){{3}}[{B64}]|([{B64}] ?){{2}}[AEIMQUYcgkosw048] ?=|[{B64}] ?[AQgw] ?= ?=)?$"
)


def bool_value(s):
    c = collapse(s)
    if not RE_BOOL.match(c):
        return None
    return c in ("true", "1")


def int_value(s):
    c = collapse(s)
    if not RE_INTEGER.match(c):
        return None
    return int(c)


def decimal_value(s):
    c = collapse(s)
    if not RE_DECIMAL.match(c):
        return None
    return Decimal(c)


def float_value(s):
    """Returns a float (nan for NaN) or None when not in the lexical space."""
    c = collapse(s)
    if not RE_FLOAT.match(c):
        return None
    if c == "INF":
        return float("inf")
    if c == "-INF":
        return float("-inf")
    if c == "NaN":
        return float("nan")
    return float(c)  # correctly rounded decimal->binary64 (CPython guarantees this)


def hex_value(s):
    c = collapse(s)
    if not RE_HEX.match(c):
        return None
    return bytes.fromhex(c)


def b64_value(s):
    c = collapse(s)
    if not RE_B64.match(c):
        return None
    return base64.b64decode(c.replace(" ", ""), validate=True)


# ------------------------------------------------------------------ names
# NameStartChar / NameChar of XML 1.0 5th edition without ':' (NCName)
_NSC = (
    "A-Z_a-z\u00c0-\u00d6\u00d8-\u00f6\u00f8-\u02ff\u0370-\u037d\u037f-\u1fff\u200c-\u200d"
    "\u2070-\u218f\u2c00-\u2fef\u3001-\ud7ff\uf900-\ufdcf\ufdf0-\ufffd\U00010000-\U000effff"
)
_NC = _NSC + "\\-.0-9\u00b7\u0300-\u036f\u203f-\u2040"
RE_NCNAME = re.compile(f"^[{_NSC}][{_NC}]*$")
RE_QNAME = re.compile(f"^([{_NSC}][{_NC}]*:)?[{_NSC}][{_NC}]*$")


def is_ncname(s):
    return bool(RE_NCNAME.match(s))


def is_xml_char(ch):
    o = ord(ch)
    return o in (0x9, 0xA, 0xD) or 0x20 <= o <= 0xD7FF or 0xE000 <= o <= 0xFFFD or 0x10000 <= o <= 0x10FFFF


def is_xml_text(s):
    return all(is_xml_char(c) for c in s)


# ------------------------------------------------------------------ calendar
def is_leap(y):
    return y % 4 == 0 and (y % 100 != 0 or y % 400 == 0)


def days_in_month(y, m):
    if m == 2:
        return 29 if is_leap(y) else 28
    return 30 if m in (4, 6, 9, 11) else 31


def days_from_civil(y, m, d):
    """Days since 1970-01-01 in the proleptic Gregorian calendar, astronomical year
    numbering (year 0 exists = 1 BCE, as in XSD 1.1). Pure integer arithmetic."""
    y -= m <= 2
    era = y // 400
    yoe = y - era * 400
    mp = (m + 9) % 12
    doy = (153 * mp + 2) // 5 + d - 1
    doe = yoe * 365 + yoe // 4 - yoe // 100 + doy
    return era * 146097 + doe - 719468


NS = 10**9


def datetime_timeline(y, mo, d, h, mi, s, frac_ns, offset_min):
    """Exact position on the timeline in integer nanoseconds (offset None = local, taken as 0)."""
    secs = days_from_civil(y, mo, d) * 86400 + h * 3600 + mi * 60 + s
    return (secs - (offset_min or 0) * 60) * NS + frac_ns


def time_timeline(h, mi, s, frac_ns, offset_min):
    return ((h * 3600 + mi * 60 + s) - (offset_min or 0) * 60) * NS + frac_ns


_YEAR = r"(?P<year>-?(?:[1-9][0-9]{3,}|0[0-9]{3}))"
_MONTH = r"(?P<month>[0-9]{2})"
_DAY = r"(?P<day>[0-9]{2})"
_TIME = r"(?P<hour>[0-9]{2}):(?P<minute>[0-9]{2}):(?P<second>[0-9]{2})(?:\.(?P<frac>[0-9]+))?"
_TZ = r"(?P<tz>Z|[+-][0-9]{2}:[0-9]{2})?"
RE_DATETIME = re.compile(f"^{_YEAR}-{_MONTH}-{_DAY}T{_TIME}{_TZ}$")
RE_DATE = re.compile(f"^{_YEAR}-{_MONTH}-{_DAY}{_TZ}$")
RE_TIME = re.compile(f"^{_TIME}{_TZ}$")
RE_GYEAR = re.compile(f"^{_YEAR}{_TZ}$")
RE_GYEARMONTH = re.compile(f"^{_YEAR}-{_MONTH}{_TZ}$")
RE_GMONTH = re.compile(f"^--{_MONTH}{_TZ}$")
RE_GMONTHDAY = re.compile(f"^--{_MONTH}-{_DAY}{_TZ}$")
RE_GDAY = re.compile(f"^---{_DAY}{_TZ}$")


def tz_minutes(tz):
    """None for absent; minutes otherwise; 'invalid' when outside XSD's range."""
    if tz is None:
        return None
    if tz == "Z":
        return 0
    hh, mm = int(tz[1:3]), int(tz[4:6])
    if mm > 59 or hh > 14 or (hh == 14 and mm != 0):
        return "invalid"
    v = hh * 60 + mm
    return -v if tz[0] == "-" else v


def _frac_ns(frac):
    """Fraction digits -> integer nanoseconds; None if more than 9 significant digits."""
    if frac is None:
        return 0
    if len(frac.rstrip("0")) > 9:
        return None
    return int((frac + "000000000")[:9])


def parse_shape(kind, s):
    """Shape-level parse: returns dict of integer components (as written) or None when the
    string is not even of the right shape. No range validation here."""
    rx = {
        "dateTime": RE_DATETIME,
        "date": RE_DATE,
        "time": RE_TIME,
        "gYear": RE_GYEAR,
        "gYearMonth": RE_GYEARMONTH,
        "gMonth": RE_GMONTH,
        "gMonthDay": RE_GMONTHDAY,
        "gDay": RE_GDAY,
    }[kind]
    m = rx.match(s)
    if not m:
        return None
    g = m.groupdict()
    out = {}
    for k in ("year", "month", "day", "hour", "minute", "second"):
        if g.get(k) is not None:
            out[k] = int(g[k])
    if "second" in out:
        out["frac_ns"] = _frac_ns(g.get("frac"))
        out["frac_digits"] = len(g["frac"]) if g.get("frac") else 0
    out["offset"] = tz_minutes(g.get("tz"))
    return out


def components_valid(kind, c):
    """Range validation of a shape-level parse per XSD 1.1 (year 0 allowed)."""
    if c is None or c.get("offset") == "invalid":
        return False
    if "month" in c and not 1 <= c["month"] <= 12:
        return False
    if "day" in c:
        if kind == "gDay":
            if not 1 <= c["day"] <= 31:
                return False
        elif kind == "gMonthDay":
            if not 1 <= c["day"] <= days_in_month(2000, c["month"]):  # 29 Feb allowed
                return False
        else:
            if not 1 <= c["day"] <= days_in_month(c["year"], c["month"]):
                return False
    if "hour" in c:
        if c["frac_ns"] is None:
            return False
        if c["hour"] == 24:
            if c["minute"] or c["second"] or c["frac_ns"]:
                return False
        elif c["hour"] > 23:
            return False
        if c["minute"] > 59 or c["second"] > 59:
            return False
    return True


def parse_calendar(kind, s):
    """Collapsed string -> components dict if XSD-valid, else None."""
    c = parse_shape(kind, collapse(s))
    return c if components_valid(kind, c) else None


# ------------------------------------------------------------------ duration
RE_DURATION = re.compile(
    r"^(?P<neg>-)?P(?:(?P<Y>[0-9]+)Y)?(?:(?P<Mo>[0-9]+)M)?(?:(?P<D>[0-9]+)D)?"
    r"(?P<T>T(?:(?P<H>[0-9]+)H)?(?:(?P<Mi>[0-9]+)M)?(?:(?P<S>[0-9]+(?:\.[0-9]+)?)S)?)?$"
)


def parse_duration(s):
    c = collapse(s)
    m = RE_DURATION.match(c)
    if not m:
        return None
    g = m.groupdict()
    date_part = any(g[k] is not None for k in ("Y", "Mo", "D"))
    time_part = any(g[k] is not None for k in ("H", "Mi", "S"))
    if not date_part and not time_part:
        return None
    if g["T"] is not None and not time_part:
        return None
    return {
        "negative": g["neg"] is not None,
        "years": int(g["Y"]) if g["Y"] is not None else None,
        "months": int(g["Mo"]) if g["Mo"] is not None else None,
        "days": int(g["D"]) if g["D"] is not None else None,
        "hours": int(g["H"]) if g["H"] is not None else None,
        "minutes": int(g["Mi"]) if g["Mi"] is not None else None,
        "seconds": Fraction(g["S"]) if g["S"] is not None else None,
    }


# ------------------------------------------------------------------ canonical-ish writers (harness side)
def fmt_tz(offset):
    if offset is None:
        return ""
    if offset == 0:
        return "Z"
    sign = "-" if offset < 0 else "+"
    o = abs(offset)
    return f"{sign}{o // 60:02d}:{o % 60:02d}"


def fmt_year(y):
    return f"-{-y:04d}" if y < 0 else f"{y:04d}"


def fmt_frac(frac_ns, digits=None):
    if digits == 0 or (digits is None and not frac_ns):
        return ""
    full = f"{frac_ns:09d}"
    if digits is None:
        return "." + full.rstrip("0")
    return "." + full[:digits]
