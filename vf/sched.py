"""Deterministic thread scheduler on sys.monitoring LINE events (CPython 3.12+).

Worker threads are real threading.Threads, but exactly one holds the run token at any time. LINE
events are enabled (set_local_events) only on the code objects of the anchored xsdata modules; a
line is a *yield point* when its source text touches one of the shared attributes (recomputed from
the working tree, so new code touching them is covered automatically). At a yield point the running
thread asks the controller whether to pre-empt; a pre-empted thread hands the token to the chosen
thread and blocks on its own semaphore (blocking inside a monitoring callback is allowed). A schedule
is the list of pre-emption decisions indexed by yield-point number, so it is recorded, hashable and
replayable from that list alone.
"""

from __future__ import annotations

import inspect
import re
import sys
import threading
import types

TOOL = sys.monitoring.DEBUGGER_ID
E = sys.monitoring.events

SHARED_ATTRS = {
    "xsi": ("xsi_cache", "sys_modules"),
    "cache": (".cache",),
    "memo": ("namespace_matches",),
    "nsmap": ("ns_map",),
    "config": ("config",),  # the ParserConfig of a shared parser/decoder instance (only in CONFIG_MODULES)
}

WRAPPED_ORIGINALS = []
_state = {"installed": False, "active": None, "lines": {}, "codes": []}


def anchored_modules():
    from xsdata.formats.dataclass import context
    from xsdata.formats.dataclass.models import builders, elements
    from xsdata.formats.dataclass.parsers import bases, mixins

    return [context, elements, bases, mixins, builders] + config_modules()


def config_modules():
    from xsdata.formats.dataclass.parsers import dict as dict_decoder
    from xsdata.formats.dataclass.parsers import utils
    from xsdata.formats.dataclass.parsers.nodes import element, primitive, standard, union

    return [dict_decoder, utils, element, union, primitive, standard]


def code_objects(mod):
    seen = set()

    def walk_code(co):
        if co in seen:
            return
        seen.add(co)
        yield co
        for c in co.co_consts:
            if isinstance(c, types.CodeType):
                yield from walk_code(c)

    for obj in vars(mod).values():
        if isinstance(obj, types.FunctionType) and obj.__module__ == mod.__name__:
            yield from walk_code(obj.__code__)
        elif isinstance(obj, type) and obj.__module__ == mod.__name__:
            for v in vars(obj).values():
                f = v.__func__ if isinstance(v, (classmethod, staticmethod)) else v
                if isinstance(f, property):
                    f = f.fget
                if isinstance(f, types.FunctionType):
                    yield from walk_code(f.__code__)


def yield_lines():
    """{filename: {lineno: group}} from the *current* sources."""
    out = {}
    cfg_mods = config_modules()
    for mod in anchored_modules():
        try:
            src = inspect.getsource(mod).splitlines()
        except OSError:
            continue
        fn = mod.__file__
        lines = {}
        for i, text in enumerate(src, 1):
            code = text.split("#", 1)[0]
            if not code.strip() or code.strip().startswith(('"""', "def ", "class ")):
                continue
            for group, names in SHARED_ATTRS.items():
                if (group == "config") != (mod in cfg_mods):
                    continue
                if any(re.search(re.escape(n) + r"\b", code) for n in names):
                    lines[i] = group
                    break
        if mod.__name__.endswith((".context", ".models.elements")):
            for ln in state_function_lines("\n".join(src)):
                lines.setdefault(ln, "state")
        out[fn] = lines
    return out


MUTATORS = {"append", "extend", "insert", "sort", "update", "add", "setdefault", "pop", "popitem", "clear", "remove", "discard", "reverse"}


def state_function_lines(source):
    """Statement lines of every function (of the modules whose objects are shared between threads:
    XmlContext, XmlMeta, XmlVar) that stores into an attribute/subscript or calls a mutating method:
    lazily filled state that is not one of the named attributes (a new memo, a renamed cache) still
    gets yield points. Constructors are excluded (the object is not shared yet)."""
    import ast

    out = set()
    try:
        tree = ast.parse(source)
    except SyntaxError:
        return out
    for fn in ast.walk(tree):
        if not isinstance(fn, (ast.FunctionDef, ast.AsyncFunctionDef)) or fn.name in ("__init__", "__post_init__", "__repr__", "__eq__"):
            continue
        touches = False
        for node in ast.walk(fn):
            if isinstance(node, (ast.Assign, ast.AugAssign, ast.AnnAssign)):
                targets = node.targets if isinstance(node, ast.Assign) else [node.target]
                if any(isinstance(t, (ast.Attribute, ast.Subscript)) for t in targets):
                    touches = True
            elif isinstance(node, ast.Call) and isinstance(node.func, ast.Attribute) and node.func.attr in MUTATORS:
                touches = True
            elif isinstance(node, ast.Delete):
                touches = True
        if touches:
            for node in ast.walk(fn):
                if isinstance(node, ast.stmt) and node is not fn:
                    out.add(node.lineno)
    return out


def install():
    if _state["installed"]:
        return
    _state["installed"] = True
    try:
        sys.monitoring.use_tool_id(TOOL, "xsdata-verif-sched")
    except ValueError:
        pass
    _state["lines"] = yield_lines()
    sys.monitoring.register_callback(TOOL, E.LINE, _on_line)
    codes = [co for mod in anchored_modules() for co in code_objects(mod)]
    # functions replaced by harness wrappers (vf/props/c14.py hooks) are no longer reachable through
    # their class: the wrappers register the original code objects here
    codes += [f.__code__ for f in WRAPPED_ORIGINALS]
    for co in codes:
        if co.co_filename in _state["lines"] and co not in _state["codes"]:
            sys.monitoring.set_local_events(TOOL, co, E.LINE)
            _state["codes"].append(co)


def _on_line(code, line):
    run = _state["active"]
    if run is None:
        return None
    tid = run.tids.get(threading.get_ident())
    if tid is None:
        return None
    group = _state["lines"].get(code.co_filename, {}).get(line)
    if group is None:
        return None
    run.yield_point(tid, group, code.co_name, line)
    return None


class Run:
    """One controlled execution of n operations on n threads."""

    def __init__(self, fns, decisions, groups=None, saturation=3, timeout=20.0):
        self.fns = fns
        self.n = len(fns)
        self.decisions = dict(decisions)  # yield index -> target thread
        self.groups = set(groups) if groups else None
        self.saturation = saturation
        self.timeout = timeout
        self.sems = [threading.Semaphore(0) for _ in fns]
        self.done = [False] * self.n
        self.results = [None] * self.n
        self.tids = {}
        self.trace = []  # (tid, group, func, line)
        self.hits = {}
        self.forced = 0
        self.lock = threading.Lock()

    def yield_point(self, tid, group, func, line):
        if self.groups is not None and group not in self.groups:
            return
        key = (tid, func, line)
        h = self.hits.get(key, 0) + 1
        self.hits[key] = h
        if h > self.saturation:  # loop lines saturate
            return
        idx = len(self.trace)
        self.trace.append((tid, group, func, line))
        target = self.decisions.get(idx)
        if target is None or target == tid or self.done[target]:
            return
        self.sems[target].release()
        self.sems[tid].acquire()

    def _main(self, tid):
        self.tids[threading.get_ident()] = tid
        self.sems[tid].acquire()
        try:
            self.results[tid] = ("ok", self.fns[tid]())
        except BaseException as e:  # noqa: BLE001
            self.results[tid] = ("exc", e)
        finally:
            self.done[tid] = True
            for t in range(self.n):
                if not self.done[t]:
                    self.sems[t].release()
                    break

    def execute(self):
        install()
        threads = [threading.Thread(target=self._main, args=(i,), daemon=True) for i in range(self.n)]
        _state["active"] = self
        try:
            for t in threads:
                t.start()
            self.sems[0].release()
            for t in threads:
                t.join(self.timeout)
            stuck = [t for t in threads if t.is_alive()]
        finally:
            _state["active"] = None
        if stuck:
            # release everybody so daemon threads can end
            for s in self.sems:
                s.release()
            return False
        return True

    def signature(self):
        """Interleaving signature: the order in which threads passed yield points."""
        return tuple(t[0] for t in self.trace)


def enumerate_schedules(make_fns, bound, groups, on_run, max_runs=None):
    """Iterative context bounding, breadth first by number of pre-emptions: all schedules with 0, then
    1, ... then `bound` pre-emptions. make_fns() -> fresh list of callables (cold shared state per
    run). on_run(run, decisions, ok). Returns (runs, complete_depth): every schedule with <=
    complete_depth pre-emptions was executed."""
    level = [()]
    seen = set()
    runs = 0
    complete_depth = -1
    for depth in range(bound + 1):
        nxt = []
        cut = False
        for decisions in level:
            if decisions in seen:
                continue
            seen.add(decisions)
            if max_runs and runs >= max_runs:
                cut = True
                break
            run = Run(make_fns(), decisions, groups)
            ok = run.execute()
            runs += 1
            on_run(run, decisions, ok)
            if not ok or depth >= bound:
                continue
            last = decisions[-1][0] if decisions else -1
            for idx in range(last + 1, len(run.trace)):
                tid = run.trace[idx][0]
                for target in range(run.n):
                    if target != tid:
                        nxt.append(decisions + ((idx, target),))
        if cut:
            break
        complete_depth = depth
        level = nxt
        if not level:
            complete_depth = bound
            break
    return runs, complete_depth
