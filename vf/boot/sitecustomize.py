"""Start-up hook for the `python -m xsdata generate ...` subprocesses of vf.gen
(routes "cli" and "config"). This directory is put on PYTHONPATH only for those
subprocesses; without XSDATA_VERIF_GEN_JOB in the environment it does nothing."""

import os

if os.environ.get("XSDATA_VERIF_GEN_JOB"):
    from vf import gen_child

    gen_child.boot()
