"""Hand-written models for the directed JSON faults of C15: generic and derived elements are spelled as
objects with the keys qname/text/children/attributes resp. qname/value/type, which a faulted document
can fill with values of any JSON type."""

from dataclasses import dataclass, field
from typing import List, Optional


@dataclass
class Leaf:
    x: Optional[int] = field(default=None, metadata={"type": "Element"})


@dataclass
class Twig(Leaf):
    y: Optional[str] = field(default=None, metadata={"type": "Element"})


@dataclass
class Holder:
    any: List[object] = field(default_factory=list, metadata={"type": "Wildcard"})
    choice: List[object] = field(default_factory=list, metadata={"type": "Elements", "choices": ({"name": "a", "type": int}, {"name": "b", "type": Leaf})})
    leaf: Optional[Leaf] = field(default=None, metadata={"type": "Element"})
    one: Optional[object] = field(default=None, metadata={"type": "Wildcard"})


@dataclass
class R:  # target of the directed XInclude faults
    inc: List[int] = field(default_factory=list, metadata={"type": "Element"})


DOCS = [
    {"any": [{"qname": "c", "type": "Leaf", "value": {"x": 1}}]},
    {"any": [{"qname": "c", "text": "t", "tail": None, "children": [{"qname": "d", "text": "", "children": [], "attributes": {}}], "attributes": {"k": "v"}}]},
    {"choice": [{"qname": "a", "value": 1}, {"qname": "b", "value": {"x": 2}, "type": None}]},
    {"leaf": {"x": 1, "y": "s"}, "one": {"qname": "w", "value": 2.5, "type": "{http://www.w3.org/2001/XMLSchema}double"}},
    {"qname": "a", "value": 1},
    {"qname": "a", "value": {"x": 1}, "type": "Leaf"},
]
