"""C01 — XML round-trip: parsing what was serialized gives back the same object.

Monitor shape: the real XmlSerializer.render / XmlParser.from_string|from_bytes are called at the
public boundary for generated binding models x instances x {lxml,native} writer x {lxml,native}
handler x serializer configurations; the oracle is NaN-aware, type-exact deep equality written in
the harness. The parser runs under the strictest configuration with ConverterWarning as error.
Invariant hooks: parser end state (queue empty, one object), zero "Unassigned parsed object".
"""

from __future__ import annotations

import logging

import random

from vf import bindcase as bc
from vf import ir
from vf.xmlkit import deep_eq

ID = "C01"
LEVEL = "exploration"
RULE = (
    "case = (generated binding model, instance, serializer configuration, writer backend, handler backend); models are "
    "drawn by a seeded feature-directed generator over the documented metadata (Element/Attribute/Text/Elements/Wildcard/"
    "Attributes, tokens, nillable, sequence, wrapper, format, unions, enums, inheritance+xsi:type, class/field namespaces, name "
    "generators, frozen/tuple, slots), instances from edge-case pools. Every instance goes through all 4 writer x handler pairs. "
    "Non-trivial = model has >= 2 fields or a nested class and render+parse were both executed; distinct = distinct "
    "(model structure with salt removed, instance, configuration, backends)."
)
ASSUMPTIONS = [
    "admissible instances only (DESIGN §4.1): XML 1.0 chars without CR, union values unambiguous under the documented priority, no '' for fields with a non-empty default, None list items only when nillable, non-empty whitespace-free tokens, no unqualified QName values under a default namespace",
    "classes without Meta.namespace only where every use site makes them inherit one namespace (the cache-by-class finding is C14's)",
    "mixed content/wildcards only with indent=None (documented exception)",
    "encoding fixed to UTF-8; user converters, class_factory, globalns, plugins not covered",
]
MIN_DISTINCT = {"quick": 20000, "thorough": 300000}
TIME = {"quick": 45, "thorough": 600}
REQUIRED_HOOKS = ("NodeParser.parse:end-state",)

_ctx = None
_hooked = False
_unassigned = []


class _LogTrap(logging.Handler):
    def emit(self, record):
        if "Unassigned parsed object" in record.getMessage():
            _unassigned.append(record.getMessage())


def install_hooks(ctx):
    global _ctx, _hooked
    _ctx = ctx
    if _hooked:
        return
    _hooked = True
    from xsdata.formats.dataclass.parsers import bases
    from xsdata.logger import logger

    logger.addHandler(_LogTrap())
    logger.setLevel(logging.WARNING)
    orig = bases.NodeParser.parse

    def parse(self, source, clazz=None, ns_map=None):
        created = []
        H = self.handler

        def factory(*a, **kw):
            h = H(*a, **kw)
            created.append(h)
            return h

        self_handler = self.handler
        try:
            object.__setattr__(self, "handler", factory)
            result = orig(self, source, clazz, ns_map)
        finally:
            object.__setattr__(self, "handler", self_handler)
        if type(self).__name__ == "XmlParser" and created:
            h = created[-1]
            _ctx.hook("NodeParser.parse:end-state")
            if h.queue or len(h.objects) != 1:
                _ctx.violation("hook/parser-end-state", f"after a successful parse: queue depth {len(h.queue)}, {len(h.objects)} pending objects", {"fn": "noop", "args": []})
        return result

    bases.NodeParser.parse = parse


def check_roundtrip(ctx, model, style, loaded, obj, cfg, writer, handler, share_context=False):
    from xsdata.formats.dataclass.context import XmlContext

    w = bc.witness(model, style, obj, cfg, writer=writer, handler=handler, fn="roundtrip")
    context = XmlContext() if share_context else None
    try:
        xml = bc.render(loaded, obj, cfg, writer, context)
    except Exception as e:  # noqa: BLE001
        ctx.violation(f"serialize-raises/{writer}/{bc.short_exc(e)}", f"render raised {type(e).__name__}: {e}", w)
        return None
    del _unassigned[:]
    try:
        back = bc.parse_strict(xml, type(obj), handler, context, as_bytes=ctx.rng.random() < 0.5)
    except Exception as e:  # noqa: BLE001
        w["xml"] = xml
        ctx.violation(f"parse-raises/{handler}/{bc.short_exc(e)}", f"strict parse of own output raised {type(e).__name__}: {e}\n{xml[:1500]}", w)
        return xml
    d = deep_eq(obj, back)
    if d:
        w["xml"] = xml
        ctx.violation(f"roundtrip-mismatch/{bc.diff_key(model, obj, d)}", f"{d}\nwriter={writer} handler={handler} cfg={cfg}\n{xml[:1500]}", w)
    elif _unassigned:
        w["xml"] = xml
        ctx.violation("hook/unassigned-parsed-object", f"{_unassigned[:3]}", w)
    return xml


def run_case(ctx, case, cfgs_per_obj=1):
    model = case.model
    feats = bc.model_features(model)
    ctx.feature(*feats)
    nontrivial = sum(len(c.fields) for c in model.classes) >= 2
    sfp = bc.structure_fp(model)
    for obj in case.objs:
        ofp = bc.obj_fp(model, obj)
        for _ in range(cfgs_per_obj):
            cfg = bc.gen_config(ctx, model, case.loaded, obj, allow_default_ns=case.default_ns, indent_mixed=True)
            ctx.feature(f"cfg:indent={cfg['indent']!r}", f"cfg:decl={cfg['xml_declaration']}", f"cfg:ida={cfg['ignore_default_attributes']}", f"cfg:ns_map={'none' if cfg['ns_map'] is None else ('default' if cfg['ns_map'] and cfg['ns_map'][0][0] == '' else 'prefixes')}")
            for writer in bc.WRITERS:
                for handler in bc.HANDLERS:
                    ctx.case(sfp, ofp, repr(cfg), writer, handler, nontrivial=nontrivial)
                    xml = check_roundtrip(ctx, model, case.style, case.loaded, obj, cfg, writer, handler, share_context=ctx.rng.random() < 0.3)
            if len(ctx.samples) < 3 and nontrivial and xml:
                ctx.sample({"model_source": case.loaded.source[-1500:], "instance": repr(obj)[:600], "config": cfg, "xml": xml[:800]})


def replay(witness, ctx):
    if witness.get("fn") == "union-models":
        check_union_models(ctx)
        return
    install_hooks(ctx)
    if witness.get("fn") == "noop":
        return
    model, loaded, obj = bc.from_witness(witness)
    try:
        check_roundtrip(ctx, model, witness["style"], loaded, obj, witness["cfg"], witness["writer"], witness["handler"])
    finally:
        loaded.unload()


def run_probes(ctx, prefix):
    """Open known findings: reproduce each on its fixed witness (shard 0 only)."""
    from vf.props import c01_probes

    for key, fn in c01_probes.PROBES.items():
        if not key.startswith(prefix):
            continue
        ctx.evals()
        try:
            if fn():
                ctx.known_finding(key)
        except Exception as e:  # noqa: BLE001
            ctx.inconc(f"probe {key} failed to run: {type(e).__name__}: {e}")


def check_union_models(ctx):
    """Hand-written models with unions of classes (vf/props/union_models.py): render with both writers, parse strictly with
    both handlers, compare."""
    from xsdata.formats.dataclass.context import XmlContext
    from xsdata.formats.dataclass.parsers import XmlParser
    from xsdata.formats.dataclass.parsers.config import ParserConfig
    from xsdata.formats.dataclass.serializers import XmlSerializer
    from xsdata.formats.dataclass.serializers.config import SerializerConfig

    from vf.props import union_models as U

    rng = random.Random(ctx.seed)
    for i, obj in enumerate(U.instances(rng) + U.shape_instances()):
        for writer in bc.WRITERS:
            for handler in bc.HANDLERS:
                ctx.case("union-models", repr(obj), writer, handler, nontrivial=True)
                ctx.evals()
                ctx.feature("hand:union-of-classes")
                w = {"fn": "union-models", "index": i, "writer": writer, "handler": handler}
                try:
                    xml = XmlSerializer(context=XmlContext(), writer=bc.writer_cls(writer), config=SerializerConfig(indent=rng.choice([None, "  "]))).render(obj, ns_map=rng.choice([None, {None: U.NS}, {"h": U.NS}]) if isinstance(obj, U.Holder) else None)
                    pc = ParserConfig(fail_on_unknown_properties=True, fail_on_unknown_attributes=True, fail_on_converter_warnings=True)
                    back = XmlParser(context=XmlContext(), handler=bc.handler_cls(handler), config=pc).from_string(xml, type(obj))
                except Exception as e:  # noqa: BLE001
                    ctx.violation(f"union-models/raises/{writer}/{handler}/{bc.short_exc(e)}", f"{type(e).__name__}: {e}\n{obj!r}\n{locals().get('xml', '')[:1200]}", w)
                    continue
                d = deep_eq(obj, back)
                if d:
                    ctx.violation(f"union-models/roundtrip-mismatch/{writer}/{handler}", f"{d}\n{obj!r}\n{xml[:1200]}", w)


def run_shard(ctx):
    install_hooks(ctx)
    if ctx.shard == 0:
        run_probes(ctx, "C01/")
        check_union_models(ctx)
    n_models = ctx.per_shard(ctx.pick(7000, 160000))
    min_d = MIN_DISTINCT[ctx.tier] // ctx.nshards + 1
    k = 0
    while k < n_models and (ctx.time_left() > 0 or len(ctx.fingerprints) < min_d):
        k += 1
        big = ctx.rng.random() < (0.2 if ctx.quick() else 0.4)
        try:
            case = bc.make_case(ctx, max_classes=6 if big else 4, max_fields=7 if big else 5, n_objs=3, max_depth=4 if big else 3)
        except Exception as e:  # noqa: BLE001
            ctx.violation(f"model-rejected/{bc.short_exc(e)}", f"a model allowed by the documented constraints was rejected or the harness failed to build it: {type(e).__name__}: {e}", {"fn": "noop", "args": []})
            continue
        try:
            run_case(ctx, case)
        finally:
            case.close()
