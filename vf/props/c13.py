"""C13 — models generated from sample documents accept those documents.

Monitor shape: independent reference per generated program. A hidden regular model (vf/samplegen.py:
repeated and interleaved children, optional parts, attributes, 1-3 namespaces, mixed content, nil, one leaf of
every inferable type spelled canonically by the harness's own writers) emits 1-4 sample documents; the real
generator builds classes from the samples only; every sample is then parsed in a fresh interpreter under the
strictest settings (unknown properties / attributes fail, ConverterWarning is an error) and serialized
again. XML: the output must have the same elements, attributes and values (modulo prefixes and
insignificant whitespace; leaves compared in the value space of the hidden type); JSON: json.loads equality
modulo key order and explicit nulls.
"""

from __future__ import annotations

import json
import random

from lxml import etree

from vf import gen, samplegen
from vf import lexical as lx
from vf.props.c02 import norm

ID = "C13"
LEVEL = "exploration"
RULE = (
    "case = (hidden model, sample set, sample). XML sets: 1-4 documents of one hidden regular model, the first shows every optional "
    "part; JSON sets: 1-3 documents (nested objects, arrays of scalars/objects, nulls, empty arrays) with the same root name. "
    "Non-trivial = the sample has at least 3 elements/attributes/keys; distinct = distinct (sample set bytes, sample index)."
)
ASSUMPTIONS = [
    "regular structure: every element name is used with one kind (leaf or container) and one child set up to optionality; values spelled canonically by vf.samplegen/vf.lexical",
    "XML comparison modulo prefixes and whitespace-only text in element content; typed leaves compared in the value space of the hidden type",
    "JSON comparison modulo key order and explicit nulls (the property's own exception)",
    "codegen stand-ins of /verif/shims",
]
MIN_DISTINCT = {"quick": 250, "thorough": 8000}
TIME = {"quick": 45, "thorough": 1200}
SHARDS = {"quick": 14, "thorough": 14}
REQUIRED_FEATURES = ["kind:xml", "kind:json", "samples:1", "samples:many"]

POST_SCRIPT = r'''
import importlib, json, warnings
from xsdata.exceptions import ConverterWarning
from xsdata.formats.dataclass.context import XmlContext
from xsdata.formats.dataclass.parsers import JsonParser, XmlParser
from xsdata.formats.dataclass.parsers.config import ParserConfig
from xsdata.formats.dataclass.parsers.handlers import LxmlEventHandler, XmlEventHandler
from xsdata.formats.dataclass.serializers import JsonSerializer, XmlSerializer

mods = [importlib.import_module(m) for m in ARGS["modules"]]
ctx = XmlContext()
cfg = ParserConfig(fail_on_unknown_properties=True, fail_on_unknown_attributes=True, fail_on_converter_warnings=True)
out = []
for i, d in enumerate(ARGS["docs"]):
    data = d.encode("latin-1")
    rec = {}
    try:
        with warnings.catch_warnings():
            warnings.simplefilter("error", ConverterWarning)
            if ARGS["kind"] == "xml":
                handler = LxmlEventHandler if i % 2 == 0 else XmlEventHandler
                obj = XmlParser(context=ctx, config=cfg, handler=handler).from_bytes(data)
            else:
                clazz = None
                for m in mods:
                    clazz = clazz or getattr(m, ARGS["root_class"], None)
                obj = JsonParser(context=ctx, config=cfg).from_bytes(data, clazz)
        rec["cls"] = type(obj).__qualname__ if not isinstance(obj, list) else "list"
    except Exception as e:
        import traceback
        rec["parse_error"] = type(e).__name__ + ": " + str(e)[:600]
        rec["traceback"] = "".join(traceback.format_exception(type(e), e, e.__traceback__))[-1500:]
        out.append(rec)
        continue
    try:
        rec["out"] = XmlSerializer(context=ctx).render(obj) if ARGS["kind"] == "xml" else JsonSerializer(context=ctx).render(obj)
    except Exception as e:
        rec["render_error"] = type(e).__name__ + ": " + str(e)[:600]
    out.append(rec)
RESULT = out
'''


# ----------------------------------------------------------------------------- XML comparison
def leaf_types(model):
    """{clark element name: hidden leaf type} and {(clark element, clark attr): type}"""
    el, at = {}, {}

    def q(ns, name):
        return f"{{{ns}}}{name}" if ns else name

    def walk(n):
        if n.kind == "leaf":
            el[q(n.ns, n.name)] = n.leaf_type
        for nm, ans, t, _ in n.attrs:
            at[(q(n.ns, n.name), q(ans, nm))] = t
        for ch, _, _ in n.children:
            walk(ch)

    walk(model.root)
    return el, at


def value(t, text):
    """Value-space reading of a canonically spelled leaf (None = not comparable, fall back to the string)."""
    try:
        if t == "int":
            return ("int", int(text))
        if t == "float":
            return ("float", float(text))
        if t == "bool":
            return ("bool", {"true": True, "false": False, "1": True, "0": False}[text.strip()])
    except Exception:  # noqa: BLE001
        return ("str", text)
    return ("str", text)


XSI = "http://www.w3.org/2001/XMLSchema-instance"


def canon(el, model_types, mixed_names):
    els, ats = model_types
    attrs = []
    for k, v in el.attrib.items():
        if k == f"{{{XSI}}}nil":
            attrs.append((k, ("bool", lx.bool_value(v))))
        elif k.startswith(f"{{{XSI}}}"):
            continue
        else:
            attrs.append((k, value(ats.get((el.tag, k), "str"), v)))
    kids = [canon(c, model_types, mixed_names) for c in el if isinstance(c.tag, str)]
    texts = [el.text or ""] + [c.tail or "" for c in el if isinstance(c.tag, str)]
    if kids:
        val = ("mixed", tuple(t.strip() for t in texts if t.strip())) if el.tag in mixed_names else ("children",)
        if el.tag not in mixed_names and any(t.strip() for t in texts):
            val = ("stray-text", tuple(t.strip() for t in texts if t.strip()))
    else:
        val = value(els.get(el.tag, "str"), "".join(texts)) if el.tag in els else ("str", "".join(texts).strip() if el.tag not in els else "".join(texts))
    return (el.tag, tuple(sorted(attrs)), val, tuple(kids))


def mixed_tags(model):
    out = set()

    def walk(n):
        if n.mixed:
            out.add(f"{{{n.ns}}}{n.name}" if n.ns else n.name)
        for ch, _, _ in n.children:
            walk(ch)

    walk(model.root)
    return out


def first_diff(a, b, path="/"):
    if a == b:
        return None
    p = f"{path}{a[0].rsplit('}', 1)[-1]}"
    if a[0] != b[0]:
        return f"{path}: element {a[0]} vs {b[0]}"
    if a[1] != b[1]:
        da, db = dict(a[1]), dict(b[1])
        for k in sorted(set(da) | set(db)):
            if da.get(k) != db.get(k):
                return f"{p}/@{k.rsplit('}', 1)[-1]}: attribute {da.get(k)!r} vs {db.get(k)!r}"
    if a[2] != b[2]:
        return f"{p}: value {a[2]!r} vs {b[2]!r}"
    if len(a[3]) != len(b[3]) or [k[0] for k in a[3]] != [k[0] for k in b[3]]:
        return f"{p}: children {[k[0].rsplit('}', 1)[-1] for k in a[3]]} vs {[k[0].rsplit('}', 1)[-1] for k in b[3]]}"
    for x, y in zip(a[3], b[3]):
        d = first_diff(x, y, p + "/")
        if d:
            return d
    return f"{p}: ?"


# ----------------------------------------------------------------------------- JSON comparison
def strip_nulls(x):
    if isinstance(x, dict):
        return {k: strip_nulls(v) for k, v in x.items() if v is not None}
    if isinstance(x, list):
        return [strip_nulls(v) for v in x]
    return x


def json_diff(a, b, path="$"):
    if isinstance(a, dict) and isinstance(b, dict):
        for k in sorted(set(a) | set(b)):
            if k not in a or k not in b:
                return f"{path}.{k}: {'missing in output' if k in a else 'invented in output'} ({(a.get(k, b.get(k)))!r})"
            d = json_diff(a[k], b[k], f"{path}.{k}")
            if d:
                return d
        return None
    if isinstance(a, list) and isinstance(b, list):
        if len(a) != len(b):
            return f"{path}: list of {len(a)} vs {len(b)}"
        for i, (x, y) in enumerate(zip(a, b)):
            d = json_diff(x, y, f"{path}[{i}]")
            if d:
                return d
        return None
    if type(a) is bool or type(b) is bool:
        return None if a is b else f"{path}: {a!r} vs {b!r}"
    return None if a == b else f"{path}: {a!r} vs {b!r}"


def check(ctx, seed, kind):
    rng = random.Random(seed)
    salt = f"c13x{seed % 100000}"
    try:
        if kind == "xml":
            model, docs = samplegen.regular_xml(rng, salt)
            sources = dict(docs)
            root_class = None
        else:
            model, docs0 = samplegen.regular_json(rng, salt)
            docs = {f"s{i}/doc.json": v for i, (_, v) in enumerate(sorted(docs0.items()))}
            sources = dict(docs)
            root_class = "Doc"
    except Exception as e:  # noqa: BLE001
        ctx.inconc(f"sample generator failed ({kind}): {type(e).__name__}: {e}")
        return
    names = sorted(docs)
    w = {"fn": "check", "seed": seed, "kind": kind}
    ctx.feature(f"kind:{kind}", "samples:1" if len(names) == 1 else "samples:many", f"samples:{len(names)}")
    res = gen.generate(sources, entry=names, config={}, route="api", hashseed=0, timeout=240, hooks=False)
    if res.status in ("timeout", "crash"):
        ctx.inconc(f"generation {res.status} (seed {seed})")
        return
    first = docs[names[0]].decode("utf-8", "replace")
    if res.status != "ok":
        ctx.violation(f"generation-fails/{kind}/{res.exc_type}/{norm(res.message)}", f"{res.exc_type}: {res.message}\n{(res.traceback or '')[-1200:]}\n{first[:1500]}", w)
        return
    run = gen.run_in_package(res.files, POST_SCRIPT, args={"modules": gen.package_modules(res.files), "docs": [docs[n].decode("latin-1") for n in names], "kind": kind, "root_class": root_class}, timeout=240)
    if run.status == "timeout":
        ctx.inconc(f"post-check watchdog fired (seed {seed})")
        return
    if run.status != "ok":
        ctx.violation(f"import-fails/{kind}/{run.exc_type}/{norm(run.message)}", f"{run.exc_type}: {run.message}\n{run.stderr[-1200:]}\n{first[:1500]}", w)
        return
    key_src = json.dumps({n: docs[n].decode("latin-1") for n in names}, sort_keys=True)
    types = leaf_types(model) if kind == "xml" else None
    mixed = mixed_tags(model) if kind == "xml" else None
    for i, n in enumerate(names):
        r = run.result[i]
        data = docs[n]
        size = data.count(b"<") if kind == "xml" else data.count(b":")
        ctx.case(key_src, i, nontrivial=size >= 3)
        ctx.evals()
        shown = f"--- sample {n} of {len(names)}\n{data.decode('utf-8', 'replace')[:1500]}" + ("" if i == 0 else f"\n--- sample {names[0]}\n{first[:1200]}")
        if "parse_error" in r:
            ctx.violation(f"sample-rejected/{kind}/{norm(r['parse_error'])}", f"{r['parse_error']}\n{r.get('traceback', '')[-700:]}\n{shown}", {**w, "doc": i})
            continue
        if "render_error" in r:
            ctx.violation(f"serialize-fails/{kind}/{norm(r['render_error'])}", f"{r['render_error']}\n{shown}", {**w, "doc": i})
            continue
        if kind == "xml":
            try:
                a = canon(etree.fromstring(data), types, mixed)
                b = canon(etree.fromstring(r["out"].encode("utf-8")), types, mixed)
            except Exception as e:  # noqa: BLE001
                ctx.violation(f"output-not-interpretable/{type(e).__name__}", f"{e}\n--- output\n{r['out'][:1200]}\n{shown}", {**w, "doc": i})
                continue
            if a != b:
                d = first_diff(a, b)
                ctx.violation(f"not-reproduced/xml/{d.split(':')[1].strip().split(' ')[0]}/{norm(d)}", f"{d}\n--- output\n{r['out'][:1500]}\n{shown}", {**w, "doc": i})
        else:
            try:
                a, b = strip_nulls(json.loads(data)), strip_nulls(json.loads(r["out"]))
            except Exception as e:  # noqa: BLE001
                ctx.violation(f"output-not-interpretable/{type(e).__name__}", f"{e}\n--- output\n{r['out'][:1200]}\n{shown}", {**w, "doc": i})
                continue
            d = json_diff(a, b)
            if d:
                ctx.violation(f"not-reproduced/json/{norm(d)}", f"{d}\n--- output\n{r['out'][:1500]}\n{shown}", {**w, "doc": i})
    if len(ctx.samples) < 2:
        ctx.sample({"kind": kind, "samples": len(names), "first_sample": first[:500], "output": run.result[0].get("out", "")[:500]})


def sample_roundtrip(docs):
    """docs: {name: xml text} -> list of per-sample records, or None if generation did not work."""
    res = gen.generate({k: v.encode() for k, v in docs.items()}, entry=sorted(docs), config={}, route="api", hooks=False, timeout=120)
    if res.status != "ok":
        return None
    run = gen.run_in_package(res.files, POST_SCRIPT, args={"modules": gen.package_modules(res.files), "docs": [docs[n] for n in sorted(docs)], "kind": "xml", "root_class": None}, timeout=120)
    return run.result if run.status == "ok" else None


PROBES = {
    # a container that sometimes has neither attributes nor children is read as an empty primitive there and as a class elsewhere
    "C13/element-sometimes-bare-becomes-union": (
        {"a.xml": '<r><c id="P1Y"><a>x</a></c></r>', "b.xml": "<r><c/></r>"},
        {"a.xml": '<r><c id="P1Y"><a>x</a></c></r>', "b.xml": '<r><c id="P1D"><a>y</a></c></r>'},
    ),
    # optional children scattered over occurrences, none of which is complete
    "C13/merged-field-order-contradicts-an-occurrence": (
        {"a.xml": "<note>" + "".join("<node>" + "".join(f"<{n}>1</{n}>" for n in names) + "</node>" for names in (["entry", "data", "tail", "delta"], ["entry", "data", "delta", "e0"], ["entry", "tail", "kind", "delta", "e0"])) + "</note>"},
        {"a.xml": "<note>" + "".join("<node>" + "".join(f"<{n}>1</{n}>" for n in names) + "</node>" for names in (["entry", "data", "tail", "delta"], ["entry", "data", "delta", "e0"], ["entry", "tail", "kind", "delta", "e0"], ["entry", "data", "tail", "kind", "delta", "e0"])) + "</note>"},
    ),
    # interleaved repetition shown only by a later / smaller occurrence
    "C13/interleaving-lost-when-first-occurrence-has-one-repetition": (
        {"a.xml": "<r><row>1</row><entry>x</entry></r>", "b.xml": "<r><row>1</row><entry>x</entry><row>2</row><entry>y</entry></r>"},
        {"a.xml": "<r><row>1</row><entry>x</entry><row>2</row><entry>y</entry></r>"},
    ),
    # the same split for a leaf whose attribute is optional, inside mixed content: the attributed occurrence loses its
    # attribute and value and swallows the following text
    "C13/leaf-with-optional-attribute-in-mixed-content": (
        {"a.xml": '<r>lead <c k="1">1.5</c> t <c>2.5</c>tail</r>'},
        {"a.xml": '<r>lead <c k="1">1.5</c> t <c k="2">2.5</c>tail</r>'},
    ),
}


def json_roundtrip(doc):
    """One JSON sample -> serialized output text of the generated model, or None when generation / parsing fails."""
    docs = {"s0/doc.json": json.dumps(doc).encode()}
    res = gen.generate(docs, entry=sorted(docs), config={}, route="api", hooks=False, timeout=120)
    if res.status != "ok":
        return None
    run = gen.run_in_package(res.files, POST_SCRIPT, args={"modules": gen.package_modules(res.files), "docs": [docs[n].decode() for n in sorted(docs)], "kind": "json", "root_class": "Doc"}, timeout=120)
    if run.status != "ok" or "out" not in run.result[0]:
        return None
    return json.loads(run.result[0]["out"])


def probe_json_string_that_looks_like_a_number():
    """Known finding: a JSON *string* whose text is the canonical spelling of a number or boolean is inferred as that type
    and written back as a JSON number / boolean. Counterfactual: a string that does not look like one round-trips."""
    bad = json_roundtrip({"id": "7", "flag": "false", "ratio": "1.5"})
    good = json_roundtrip({"id": "x7", "flag": "no", "ratio": "1.5x"})
    return good == {"id": "x7", "flag": "no", "ratio": "1.5x"} and bad is not None and bad != {"id": "7", "flag": "false", "ratio": "1.5"}


def run_probes(ctx):
    ctx.evals()
    try:
        if probe_json_string_that_looks_like_a_number():
            ctx.known_finding("C13/json-string-that-looks-like-a-number-becomes-a-number")
    except Exception as e:  # noqa: BLE001
        ctx.inconc(f"probe failed to run: {type(e).__name__}: {e}")
    for key, (bad, good) in PROBES.items():
        ctx.evals()
        rb, rg = sample_roundtrip(bad), sample_roundtrip(good)
        if rg is None or any("out" not in r for r in rg):
            ctx.inconc(f"probe {key} could not run")
            continue
        failed = rb is None or any("parse_error" in r or "render_error" in r for r in rb)
        if not failed:
            for name, r in zip(sorted(bad), rb):
                a = canon(etree.fromstring(bad[name].encode()), ({}, {}), set())
                b = canon(etree.fromstring(r["out"].encode()), ({}, {}), set())
                failed = failed or a != b
        if failed:
            ctx.known_finding(key)


def directed_merge(ctx, seed):
    """Sample sets without a complete sample whose merged order is nevertheless unambiguous: a second (shorter) sample
    contributes a run of 1-3 new children anchored between two adjacent known children (or at an end)."""
    rng = random.Random(seed)
    names = [f"c{i}" for i in range(10)]
    rng.shuffle(names)
    a = names[: rng.randrange(2, 6)]
    new = names[6 : 6 + rng.randrange(1, 4)]
    p = rng.randrange(0, len(a) + 1)
    b = a[max(p - 1, 0) : p] + new + a[p : p + 1]

    def doc(children):
        return "<r>" + "".join(f"<{n}>{rng.choice(['x', 'two words', 'A7'])}</{n}>" for n in children) + "</r>"

    docs = {"a.xml": doc(a), "b.xml": doc(b)}
    ctx.feature("directed:new-children-run-from-shorter-sample")
    rs = sample_roundtrip(docs)
    if rs is None:
        ctx.inconc("directed merge case could not run")
        return
    for name, r in zip(sorted(docs), rs):
        ctx.case("directed", docs["a.xml"], docs["b.xml"], name, nontrivial=True)
        ctx.evals()
        w = {"fn": "directed", "seed": seed}
        if "out" not in r:
            ctx.violation(f"sample-rejected/directed/{norm(r.get('parse_error') or r.get('render_error'))}", f"{r}\n{docs}", w)
            continue
        x, y = canon(etree.fromstring(docs[name].encode()), ({}, {}), set()), canon(etree.fromstring(r["out"].encode()), ({}, {}), set())
        if x != y:
            ctx.violation("not-reproduced/directed-merge-order", f"{first_diff(x, y)}\nsamples: {docs}\noutput for {name}: {r['out']}", w)


def run_shard(ctx):
    rng = ctx.rng
    if ctx.shard == 0:
        run_probes(ctx)
    for _ in range(ctx.pick(2, 30)):
        directed_merge(ctx, rng.getrandbits(40))
    n = ctx.per_shard(ctx.pick(420, 10000))
    k = 0
    while k < n and (ctx.time_left() > 0 or len(ctx.fingerprints) < MIN_DISTINCT[ctx.tier] // ctx.nshards + 1):
        check(ctx, rng.getrandbits(40), "xml" if (k + ctx.shard) % 3 else "json")
        k += 1


def replay(witness, ctx):
    if witness.get("fn") == "directed":
        directed_merge(ctx, witness["seed"])
    else:
        check(ctx, witness["seed"], witness["kind"])
