"""C12 — code generation is reproducible.

Monitor shape: differential oracle over whole executions. One source set + one option set is
generated through the real pipeline several times, each time in a fresh interpreter: with hash
seeds 0/1/2/3/12345/random (route API), twice inside one process (repeat), through the real
`python -m xsdata generate` with CLI flags, and through `python -m xsdata generate --config file`
where the file is written by GeneratorConfig.write. Every run's file tree (relative path -> bytes)
and outcome class must be identical to the reference run. On a difference the step-digest logs of
the two runs (hooks around the ClassContainer pipeline) are aligned and the first diverging
step/class is reported. `xsdata init-config` must be idempotent.
"""

from __future__ import annotations

import difflib
import json
import random
import subprocess
import tempfile
from pathlib import Path

from vf import dtdgen, gen, samplegen, wsdlgen, xsdgen

ID = "C12"
LEVEL = "exploration"
RULE = (
    "case = (source set, option set). Source sets: generated XSD sets (1-3 files, imports, recursion, unions of native types, nested "
    "choices/sequences, substitution of many mutually referring types) with plain and hostile names, generated DTDs, WSDLs, regular and "
    "irregular XML/JSON sample sets found by directory scan; option sets over the 5 structure styles x compound x wrapper x unnest x "
    "dataclass flags x docstring styles x conventions (include_header excluded: it embeds a timestamp). Per case one reference run plus "
    "runs = 5 other hash seeds, an in-process repeat, the CLI-flags route (options expressible as flags) and the config-file route. "
    "Non-trivial = the reference run wrote at least one module with a class; distinct = distinct (source bytes, option set)."
)
ASSUMPTIONS = [
    "codegen stand-ins of /verif/shims (toposort re-implementation peels and sorts like upstream; jinja2 interpreter; ruff no-op so formatting is not observed)",
    "byte comparison of the file trees; error outcomes are compared by exception class only (messages may carry temp paths)",
    "include_header (timestamp) is never enabled",
]
MIN_DISTINCT = {"quick": 40, "thorough": 1200}
TIME = {"quick": 70, "thorough": 1500}
SHARDS = {"quick": 14, "thorough": 14}
REQUIRED_FEATURES = ["route:cli", "route:config", "route:repeat", "hashseed:random", "source:xsd", "source:dtd", "source:wsdl", "source:xml-samples", "source:json-samples"]

KINDS = ["xsd", "xsd-big", "xsd-hostile", "dtd", "wsdl", "xml-samples", "json-samples", "xsd-big", "xml-regular", "json-regular"]
SEEDS = [1, 2, 3, 12345, "random"]
NAME_CASES = list(gen.ENUMS["NameCase"])


def gen_sources(rng, salt, kind):
    if kind == "xsd":
        ss = xsdgen.XsdGen(rng, salt, hostile=False, max_types=5, nest_p=0.25, cycle_p=0.4).schema_set()
        return xsdgen.Renderer(ss).render(), ["main.xsd"], sorted(ss.features)
    if kind == "xsd-big":
        ss = xsdgen.XsdGen(rng, salt, hostile=False, max_types=10, depth=3, nest_p=0.3, cycle_p=0.6).schema_set()
        return xsdgen.Renderer(ss).render(), ["main.xsd"], sorted(ss.features)
    if kind == "xsd-hostile":
        ss = xsdgen.XsdGen(rng, salt, hostile=True, max_types=5).schema_set()
        return xsdgen.Renderer(ss).render(), ["main.xsd"], sorted(ss.features)
    if kind == "dtd":
        return dtdgen.hostile_dtd(rng, salt)
    if kind == "wsdl":
        return wsdlgen.hostile_wsdl(rng, salt)
    if kind == "xml-regular":
        _, docs = samplegen.regular_xml(rng, salt)
        return docs, sorted(docs), ["regular-xml"]
    if kind == "json-regular":
        _, docs = samplegen.regular_json(rng, salt)
        return docs, sorted(docs), ["regular-json"]
    return samplegen.irregular_samples(rng, salt, kind)


def gen_options(rng, cli_only=False):
    cfg = {}
    if rng.random() < 0.85:
        cfg["output.structure_style"] = rng.choice(["filenames", "namespaces", "clusters", "single-package", "namespace-clusters"])
    for k, p in (("output.compound_fields.enabled", 0.5), ("output.wrapper_fields", 0.3), ("output.unnest_classes", 0.3), ("output.relative_imports", 0.3),
                 ("output.generic_collections", 0.3), ("output.ignore_patterns", 0.2), ("output.format.slots", 0.25), ("output.format.frozen", 0.25), ("output.format.unsafe_hash", 0.15)):
        if rng.random() < p:
            cfg[k] = True
    if rng.random() < 0.15:
        cfg["output.format.eq"] = False
    elif rng.random() < 0.2:
        cfg["output.format.order"] = True
    if rng.random() < 0.2:
        cfg["output.format.repr"] = False
    if rng.random() < 0.5:
        cfg["output.docstring_style"] = rng.choice(["reStructuredText", "NumPy", "Google", "Accessible", "Blank"])
    if rng.random() < 0.4:
        cfg["output.max_line_length"] = rng.choice([50, 79, 120])
    if cli_only:
        return cfg
    if cfg.get("output.compound_fields.enabled") and rng.random() < 0.3:
        cfg["output.compound_fields.force_default_name"] = True
    if cfg.get("output.compound_fields.enabled") and rng.random() < 0.2:
        cfg["output.compound_fields.max_name_parts"] = rng.choice([1, 2, 4])
    for kind in ("class_name", "field_name", "constant_name", "module_name", "package_name"):
        if rng.random() < 0.25:
            cfg[f"conventions.{kind}.case"] = rng.choice(NAME_CASES)
        if rng.random() < 0.08:
            cfg[f"conventions.{kind}.safe_prefix"] = rng.choice(["safe", "zz", "value"])
    if rng.random() < 0.15:
        cfg["substitutions.substitution"] = [{"type": rng.choice(["class", "field", "module", "package"]), "search": rng.choice(["a", "e", "Type", "(.*)_x$"]), "replace": rng.choice(["q", "zz", "\\1"])}]
    return cfg


def outcome(res):
    if res.status == "ok":
        return "ok"
    return f"{res.status}:{res.exc_type}"


def tree_diff(a: dict, b: dict, strip_a="", strip_b=""):
    """-> None when equal, else a short description of the first difference."""
    fa = {k[len(strip_a):]: v for k, v in a.items() if k.startswith(strip_a)}
    fb = {k[len(strip_b):]: v for k, v in b.items() if k.startswith(strip_b)}
    if fa == fb:
        return None
    only_a, only_b = sorted(set(fa) - set(fb)), sorted(set(fb) - set(fa))
    if only_a or only_b:
        return f"file sets differ: only in reference {only_a[:5]}, only in variant {only_b[:5]}"
    for k in sorted(fa):
        if fa[k] != fb[k]:
            la = fa[k].decode("utf-8", "replace").splitlines()
            lb = fb[k].decode("utf-8", "replace").splitlines()
            d = list(difflib.unified_diff(la, lb, "reference/" + k, "variant/" + k, lineterm="", n=2))
            return "\n".join(d[:40])
    return "?"


def divergence(ref, var):
    try:
        d = gen.first_divergence(ref.steps, var.steps)
    except Exception as e:  # noqa: BLE001
        return f"(step logs not comparable: {e})"
    return f"first diverging pipeline step: {json.dumps(d)[:600]}" if d else "step digests identical (difference arises in rendering/writing)"


def check(ctx, seed, kind):
    rng = random.Random(seed)
    salt = f"c12x{seed % 100000}"
    try:
        sources, entry, feats = gen_sources(rng, salt, kind)
    except Exception as e:  # noqa: BLE001
        ctx.inconc(f"source generator failed ({kind}): {type(e).__name__}: {e}")
        return
    cfg = gen_options(rng)
    cfg_cli = gen_options(rng, cli_only=True)
    if any(f.startswith("type-cycle") for f in feats) and rng.random() < 0.6:
        # reference cycles matter for the cluster structure styles (strongly connected classes share a module)
        cfg["output.structure_style"] = rng.choice(["clusters", "namespace-clusters"])
        cfg_cli["output.structure_style"] = rng.choice(["clusters", "namespace-clusters"])
    w = {"fn": "check", "seed": seed, "kind": kind}
    base_kind = kind.split("-")[0] if kind.startswith("xsd") else {"xml-regular": "xml-samples", "json-regular": "json-samples"}.get(kind, kind)
    ctx.feature(f"source:{base_kind}", *[f"feat:{f}" for f in feats], *[f"opt:{k}={v}" for k, v in cfg.items() if k.startswith("output.") and not isinstance(v, list)])
    ref = gen.generate(sources, entry=entry, config=cfg, route="api", hashseed=0, timeout=240, hooks=True)
    if ref.status in ("timeout", "crash"):
        ctx.inconc(f"reference generation {ref.status} (seed {seed}, {kind})")
        return
    key_src = json.dumps({k: (v if isinstance(v, str) else v.decode("latin-1")) for k, v in sources.items()}, sort_keys=True)
    classes = sum(v.count(b"\nclass ") + v.startswith(b"class ") for k, v in ref.files.items() if k.endswith(".py"))
    ctx.case(key_src, json.dumps(cfg, sort_keys=True), nontrivial=ref.status == "ok" and classes > 0)
    ctx.extra["generated_files"] = ctx.extra.get("generated_files", 0) + len(ref.files)
    ctx.extra["generated_classes"] = ctx.extra.get("generated_classes", 0) + classes
    runs = 0

    def compare(label, var, ref_=ref, strip_b="", strip_a=""):
        nonlocal runs
        if var.status in ("timeout", "crash"):
            ctx.inconc(f"variant {label} {var.status} (seed {seed}, {kind})")
            return
        runs += 1
        ctx.evals()
        if outcome(var) != outcome(ref_):
            ctx.violation(f"outcome-differs/{label.split('=')[0]}/{base_kind}", f"{label}: reference {outcome(ref_)} {ref_.message[:200]!r} vs variant {outcome(var)} {var.message[:200]!r}\noptions={cfg}", {**w, "label": label})
            return
        if ref_.status != "ok":
            return
        d = tree_diff(ref_.files, var.files, strip_a, strip_b)
        if d:
            ctx.violation(f"bytes-differ/{label.split('=')[0]}/{base_kind}", f"{label}: generated files differ (seed {seed}, {kind})\n{d}\n{divergence(ref_, var)}\noptions={cfg}", {**w, "label": label})

    # hash seeds (fresh processes: different heap addresses as well)
    seeds = SEEDS if not ctx.quick else [rng.choice([1, 2, 3]), 12345, "random"]
    for hs in seeds:
        ctx.feature(f"hashseed:{hs}")
        compare(f"hashseed={hs}", gen.generate(sources, entry=entry, config=cfg, route="api", hashseed=hs, timeout=240, hooks=True))
    # repeated runs inside one process
    rep = gen.generate(sources, entry=entry, config=cfg, route="api", hashseed=rng.choice([0, 7]), timeout=400, hooks=False, repeat=2)
    if rep.status in ("timeout", "crash"):
        ctx.inconc(f"repeat run {rep.status} (seed {seed})")
    else:
        ctx.feature("route:repeat")
        runs += 1
        ctx.evals()
        if outcome(rep) != outcome(ref):
            ctx.violation(f"outcome-differs/repeat/{base_kind}", f"repeat: reference {outcome(ref)} vs {outcome(rep)} {rep.message[:300]!r}\noptions={cfg}", {**w, "label": "repeat"})
        elif ref.status == "ok":
            for i in (0, 1):
                d = tree_diff(ref.files, rep.files, "", f"out{i}/")
                if d:
                    ctx.violation(f"bytes-differ/repeat/{base_kind}", f"run {i} of an in-process repeat differs from the reference (seed {seed}, {kind})\n{d}\noptions={cfg}", {**w, "label": "repeat"})
                    break
    # config-file route
    try:
        var = gen.generate(sources, entry=entry, config=cfg, route="config", hashseed=rng.choice([0, 5]), timeout=240, hooks=True)
        ctx.feature("route:config")
        compare("route=config", var)
    except ValueError as e:
        if "not expressible" not in str(e):
            raise
    # CLI-flags route (options expressible as flags only)
    try:
        ref2 = gen.generate(sources, entry=entry, config=cfg_cli, route="api", hashseed=0, timeout=240, hooks=True)
        var = gen.generate(sources, entry=entry, config=cfg_cli, route="cli", hashseed=rng.choice([0, 9]), timeout=240, hooks=True)
        if ref2.status in ("timeout", "crash"):
            ctx.inconc(f"cli reference {ref2.status}")
        else:
            ctx.feature("route:cli")
            compare("route=cli", var, ref_=ref2)
    except ValueError as e:
        if "not expressible" not in str(e):
            raise
        ctx.feature("route:cli-not-expressible")
    ctx.extra["variant_runs"] = ctx.extra.get("variant_runs", 0) + runs
    if len(ctx.samples) < 2 and ref.status == "ok" and classes:
        ctx.sample({"kind": kind, "options": cfg, "files": {k: len(v) for k, v in ref.files.items()}, "variant_runs_compared": runs, "pipeline_steps_logged": len(ref.steps)})


def init_config_idempotent(ctx):
    """`xsdata init-config` twice: the second run must leave the file unchanged; and the file written
    from a default GeneratorConfig must read back equal."""
    d = Path(tempfile.mkdtemp(prefix="xsdata-verif-c12-"))
    try:
        env = gen.child_env(0, shims=True)
        outs = []
        for hs in (0, 3):
            env["PYTHONHASHSEED"] = str(hs)
            p = subprocess.run([gen.PY, "-m", "xsdata", "init-config", "cfg.xml"], cwd=d, env=env, capture_output=True, timeout=120)
            if p.returncode != 0:
                ctx.inconc(f"init-config failed: {p.stderr.decode()[-300:]}")
                return
            outs.append((d / "cfg.xml").read_bytes())
        ctx.evals()
        ctx.feature("init-config")
        if outs[0] != outs[1]:
            diff = "\n".join(list(difflib.unified_diff(outs[0].decode().splitlines(), outs[1].decode().splitlines(), lineterm=""))[:30])
            ctx.violation("init-config-not-idempotent", f"second `xsdata init-config` changed the file:\n{diff}", {"fn": "init_config"})
    except subprocess.TimeoutExpired:
        ctx.inconc("init-config watchdog fired")
    finally:
        import shutil

        shutil.rmtree(d, ignore_errors=True)


def run_shard(ctx):
    rng = ctx.rng
    if ctx.shard == 0:
        init_config_idempotent(ctx)
    n = ctx.per_shard(ctx.pick(84, 1400))
    k = 0
    while k < n and (ctx.time_left() > 0 or len(ctx.fingerprints) < MIN_DISTINCT[ctx.tier] // ctx.nshards + 1):
        kind = KINDS[(k + ctx.shard) % len(KINDS)]
        check(ctx, rng.getrandbits(40), kind)
        k += 1


def replay(witness, ctx):
    if witness.get("fn") == "init_config":
        init_config_idempotent(ctx)
    else:
        check(ctx, witness["seed"], witness["kind"])
