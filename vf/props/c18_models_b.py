"""A second module of hand-written models for C18 whose class names collide with those of c18_models.py (two generated
namespaces that both define Color / Outer) and with an imported value type (a model called Decimal)."""

from dataclasses import dataclass, field
from decimal import Decimal as _Decimal
from enum import Enum
from typing import List, Optional


class Color(Enum):
    RED = "#f00"
    BLUE = "#00f"


@dataclass
class Outer:
    title: Optional[str] = None
    shade: Optional[Color] = None


@dataclass
class Decimal:  # a model named like the value type of one of its own fields
    value: Optional[_Decimal] = None
    places: Optional[int] = None


@dataclass
class Both:
    here: Optional[Outer] = None
    there: Optional[object] = None  # holds c18_models.Outer
    colors: List[object] = field(default_factory=list)  # members of both Color enumerations
    amount: Optional[Decimal] = None
