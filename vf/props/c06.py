"""C06 — XML Schema date, time, duration and period types are exact.

Monitor shape: reference model at the API boundary (vf.lexical, shares no code with xsdata)
+ invariant hooks on the real DateTimeParser / validate_* functions. Bounded-exhaustive
tables for (year, month, day), time-of-day edges, offsets and fraction lengths; random and
adversarial pairs for equality/ordering; stdlib conversions inside datetime's range.
"""

from __future__ import annotations

import datetime as dt

from vf import lexical as lx

ID = "C06"
LEVEL = "exploration"
RULE = (
    "cases = (entry point, lexical string or constructor arguments or value pair); enumerated tables "
    "(18 years x months 0..13 x days 0..32 x 8 calendar types; hour/minute/second edges x fraction "
    "lengths x offsets; 2^6 duration component subsets) plus seeded random/adversarial pairs. A case "
    "is non-trivial when it reached the real xsdata entry point and the independent oracle produced "
    "a definite expectation (valid with components / must-reject / timeline order); distinct = "
    "distinct (entry point, input) fingerprints."
)
ASSUMPTIONS = [
    "oracle: own transcription of XSD 1.1 Part 2 lexical grammars and an integer proleptic-Gregorian timeline (vf/lexical.py)",
    "over-acceptance is only judged for well-shaped strings whose components denote no calendar date / time of day",
    "pairs where exactly one operand has a timezone are not compared (XSD: indeterminate)",
    "XmlTime 24:00:00 vs 00:00:00 is not compared; offsets beyond +-14:00 are not judged",
    "stdlib conversions only inside datetime's range (years 1..9999, microsecond precision, hour < 24)",
]
MIN_DISTINCT = {"quick": 100000, "thorough": 1000000}
TIME = {"quick": 30, "thorough": 420}
REQUIRED_HOOKS = ("DateTimeParser.parse", "validate_date", "validate_time")

YEARS = [-123456, -10000, -400, -101, -100, -4, -1, 0, 1, 4, 100, 1900, 1999, 2000, 2023, 2024, 9999, 10000, 123456]
TZS = [None, 0, 60, -60, 330, -570, 840, -840, 14 * 60 - 15, -(14 * 60 - 15), 1, -1]
ALL_OFFSETS = [None, *range(-840, 841, 15)]


# ----------------------------------------------------------------------------- hooks
_hooked = False
_ctx = None


def install_hooks(ctx):
    """Invariant hooks on the real functions (harness side, no source edits)."""
    global _hooked, _ctx
    _ctx = ctx
    if _hooked:
        return
    _hooked = True
    from xsdata.models import datatype
    from xsdata.utils import dates

    orig_parse = dates.DateTimeParser.parse

    def parse(self):
        yield from orig_parse(self)
        _ctx.hook("DateTimeParser.parse")
        if self.vidx != self.vlen:
            _ctx.violation(
                "hook/parser-did-not-consume-input",
                f"DateTimeParser.parse returned normally with vidx={self.vidx} != len={self.vlen} for {self.value!r}",
                {"fn": "parse", "args": ["XmlDateTime", self.value]},
            )

    dates.DateTimeParser.parse = parse

    for name in ("validate_date", "validate_time"):
        orig = getattr(dates, name)

        def wrapper(*a, __orig=orig, __name=name):
            _ctx.hook(__name)
            return __orig(*a)

        setattr(dates, name, wrapper)
        if getattr(datatype, name, None) is orig:  # module-level alias (from ... import)
            setattr(datatype, name, wrapper)


def types():
    from xsdata.models.datatype import XmlDate, XmlDateTime, XmlDuration, XmlPeriod, XmlTime

    return {"XmlDate": XmlDate, "XmlDateTime": XmlDateTime, "XmlTime": XmlTime, "XmlDuration": XmlDuration, "XmlPeriod": XmlPeriod}


KIND = {"XmlDate": "date", "XmlDateTime": "dateTime", "XmlTime": "time"}


def comps_of(tname, v):
    if tname == "XmlDate":
        return {"year": v.year, "month": v.month, "day": v.day, "offset": v.offset}
    if tname == "XmlDateTime":
        return {"year": v.year, "month": v.month, "day": v.day, "hour": v.hour, "minute": v.minute, "second": v.second, "frac_ns": v.fractional_second, "offset": v.offset}
    if tname == "XmlTime":
        return {"hour": v.hour, "minute": v.minute, "second": v.second, "frac_ns": v.fractional_second, "offset": v.offset}
    raise KeyError(tname)


def want(c):
    return {k: v for k, v in c.items() if k != "frac_digits"}


# ----------------------------------------------------------------------------- checks
def check_parse(ctx, tname, s, via="from_string"):
    """One lexical string through one entry point, judged by the oracle."""
    T = types()[tname]
    kind = KIND[tname]
    shape = lx.parse_shape(kind, lx.collapse(s))
    if shape is None:
        # not in the lexical space at all (signs, blanks or non-ASCII digits inside, missing digits, trailing dot ...)
        check_malformed(ctx, tname, s, via)
        return
    valid = lx.components_valid(kind, shape)
    if shape.get("frac_digits", 0) > 9:
        ctx.drop("more than 9 fraction digits (not judged)")
        return
    ctx.case(tname, s, via)
    ctx.feature(f"parse/{tname}/{'valid' if valid else ('invalid-offset' if shape.get('offset') == 'invalid' else 'invalid')}")
    try:
        if via == "from_string":
            got = T.from_string(s)
        else:
            from xsdata.formats.converter import converter

            got = converter.deserialize(s, [T])
        err = None
    except Exception as e:  # noqa: BLE001
        got, err = None, e
    w = {"fn": "parse", "args": [tname, s, via]}
    if valid:
        if err is not None:
            ctx.violation(f"valid-rejected/{tname}", f"{tname}.{via}({s!r}) raised {type(err).__name__}: {err}", w)
            return
        if comps_of(tname, got) != want(shape):
            ctx.violation(f"wrong-components/{tname}", f"{tname}.{via}({s!r}) -> {tuple(got)!r}, XSD assigns {want(shape)}", w)
            return
        check_str(ctx, tname, list(tuple(got)))
    else:
        if err is None:
            ctx.violation(
                f"invalid-accepted/{tname}",
                f"{tname}.{via}({s!r}) accepted a string denoting no real calendar date/time of day -> {tuple(got)!r}",
                w,
            )
        elif via == "converter":
            from xsdata.exceptions import ConverterError

            if not isinstance(err, ConverterError):
                ctx.violation(f"reject-wrong-exception/{tname}", f"converter.deserialize({s!r}, [{tname}]) raised {type(err).__name__}", w)


def check_malformed(ctx, tname, s, via):
    T = types()[tname]
    ctx.case("malformed", tname, s, via)
    ctx.feature(f"parse/{tname}/malformed")
    try:
        if via == "from_string":
            got = T.from_string(s)
        else:
            from xsdata.formats.converter import converter

            got = converter.deserialize(s, [T])
    except Exception:  # noqa: BLE001
        return
    ctx.violation(f"malformed-accepted/{tname}", f"{tname}.{via}({s!r}) accepted a string outside the lexical space of xs:{KIND[tname]} -> {tuple(got)!r} (written back as {str(got)!r})",
                  {"fn": "parse", "args": [tname, s, via]})


def check_hash(ctx, tname, a, b):
    """Values that compare equal hash equal (sets and dictionaries of time values)."""
    T = types()[tname]
    x, y = T(*a), T(*b)
    ctx.case("hash", tname, tuple(a), tuple(b))
    try:
        if x == y and hash(x) != hash(y):
            ctx.violation(f"hash/{tname}/equal-values-hash-differently", f"{x!r} == {y!r} but their hashes differ: {x!r} in {{{y!r}}} is {x in {y}}", {"fn": "hash", "args": [tname, list(a), list(b)]})
        ctx.feature(f"hash/{tname}/{'eq' if x == y else 'ne'}")
    except TypeError:
        ctx.feature(f"hash/{tname}/unhashable")


def check_now(ctx):
    """now(tz) / utcnow() carry the requested timezone (they are conversions from the standard library clock)."""
    ctx.case("now", ctx.shard)
    for tname, T in types().items():
        if tname not in ("XmlTime", "XmlDateTime"):
            continue
        for minutes in (0, 300, -570):
            tz = dt.timezone(dt.timedelta(minutes=minutes))
            v = T.now(tz)
            ctx.feature(f"now/{tname}")
            if v.offset != minutes:
                ctx.violation(f"now/{tname}/timezone-dropped", f"{tname}.now({tz!r}).offset = {v.offset!r}, expected {minutes}", {"fn": "now", "args": []})
        if T.utcnow().offset != 0:
            ctx.violation(f"now/{tname}/utcnow-without-offset", f"{tname}.utcnow().offset = {T.utcnow().offset!r}, expected 0", {"fn": "now", "args": []})


def check_str(ctx, tname, args):
    """str(value) is XSD-valid and parses back to an equal value."""
    T = types()[tname]
    v = T(*args)
    ctx.case("str", tname, tuple(args))
    ctx.feature(f"str/{tname}")
    w = {"fn": "str", "args": [tname, list(args)]}
    try:
        s = str(v)
    except Exception as e:  # noqa: BLE001
        ctx.violation(f"str-raises/{tname}", f"str({tname}{tuple(args)}) raised {type(e).__name__}: {e}", w)
        return
    c = lx.parse_calendar(KIND[tname], s)
    if c is None or s != lx.collapse(s):
        ctx.violation(f"str-invalid/{tname}", f"str({tname}{tuple(args)}) = {s!r} is not a valid xs:{KIND[tname]}", w)
        return
    if want(c) != comps_of(tname, v):
        ctx.violation(f"str-wrong-value/{tname}", f"str({tname}{tuple(args)}) = {s!r} denotes {want(c)}", w)
        return
    try:
        back = T.from_string(s)
    except Exception as e:  # noqa: BLE001
        ctx.violation(f"str-not-parsed-back/{tname}", f"{tname}.from_string(str(v)={s!r}) raised {type(e).__name__}: {e}", w)
        return
    if tuple(back) != tuple(v) or not (back == v) or (back != v):
        ctx.violation(f"str-roundtrip/{tname}", f"{tname}{tuple(args)} -> {s!r} -> {tuple(back)!r}", w)


def timeline(tname, a):
    if tname == "XmlDateTime":
        return lx.datetime_timeline(*a[:7], a[7])
    return lx.time_timeline(*a[:4], a[4])


def check_order(ctx, tname, a, b):
    """==, !=, <, <=, >, >= agree with the integer timeline."""
    T = types()[tname]
    oa, ob = a[-1], b[-1]
    if (oa is None) != (ob is None):
        ctx.drop("one operand without timezone (indeterminate)")
        return
    ctx.case("order", tname, tuple(a), tuple(b))
    ta, tb = timeline(tname, a), timeline(tname, b)
    if tname == "XmlTime":
        # xs:time has no day to carry into: 24:00:00 is the value 00:00:00
        ta, tb = (timeline(tname, [0] + list(a[1:])) if a[0] == 24 else ta), (timeline(tname, [0] + list(b[1:])) if b[0] == 24 else tb)
    x, y = T(*a), T(*b)
    ctx.feature(f"order/{tname}/{'eq' if ta == tb else 'ne'}")
    exp = {"==": ta == tb, "!=": ta != tb, "<": ta < tb, "<=": ta <= tb, ">": ta > tb, ">=": ta >= tb}
    got = {"==": x == y, "!=": x != y, "<": x < y, "<=": x <= y, ">": x > y, ">=": x >= y}
    if exp != got:
        bad = [k for k in exp if exp[k] != got[k]]
        if ta == tb:
            key = "equal-instants-compare-unequal"
        elif "==" in bad:
            key = "distinct-instants-compare-equal"
        else:
            key = "order-disagrees-with-timeline"
        ctx.violation(
            f"cmp/{tname}/{key}",
            f"{x!r} vs {y!r}: timeline says {'equal' if ta == tb else ('less' if ta < tb else 'greater')} (delta {tb - ta} ns) but operators {bad} gave {[got[k] for k in bad]}",
            {"fn": "order", "args": [tname, list(a), list(b)]},
        )


def check_stdlib(ctx, tname, args):
    """to_*/from_* with stdlib objects preserve the instant (inside datetime's range)."""
    T = types()[tname]
    ctx.case("stdlib", tname, tuple(args))
    ctx.feature(f"stdlib/{tname}")
    w = {"fn": "stdlib", "args": [tname, list(args)]}
    v = T(*args)
    try:
        if tname == "XmlDateTime" and args[3] == 24:
            # 24:00:00 is the first instant of the next day
            d = v.to_datetime()
            exp = dt.datetime(*args[:3], tzinfo=None if args[7] is None else dt.timezone(dt.timedelta(minutes=args[7]))) + dt.timedelta(days=1)
            back = T.from_datetime(d)
            ok = d == exp and d.utcoffset() == exp.utcoffset() and back == v
        elif tname == "XmlTime" and args[0] == 24:
            d = v.to_time()
            exp = dt.time(0, 0, 0, tzinfo=None if args[4] is None else dt.timezone(dt.timedelta(minutes=args[4])))
            back = T.from_time(d)
            ok = d == exp and d.utcoffset() == exp.utcoffset() and back == v
        elif tname == "XmlDateTime":
            d = v.to_datetime()
            exp = dt.datetime(*args[:6], args[6] // 1000, tzinfo=None if args[7] is None else dt.timezone(dt.timedelta(minutes=args[7])))
            back = T.from_datetime(d)
            ok = d == exp and d.utcoffset() == exp.utcoffset() and tuple(back) == tuple(v._replace(fractional_second=args[6] // 1000 * 1000))
            if args[7] is not None and args[6] % 1000 == 0:
                epoch = dt.datetime(1970, 1, 1, tzinfo=dt.timezone.utc)
                delta = d - epoch
                ns = (delta.days * 86400 + delta.seconds) * lx.NS + delta.microseconds * 1000
                ok = ok and ns == lx.datetime_timeline(*args[:7], args[7])
        elif tname == "XmlTime":
            d = v.to_time()
            exp = dt.time(*args[:3], args[3] // 1000, tzinfo=None if args[4] is None else dt.timezone(dt.timedelta(minutes=args[4])))
            back = T.from_time(d)
            ok = d == exp and d.utcoffset() == exp.utcoffset() and tuple(back) == tuple(v._replace(fractional_second=args[3] // 1000 * 1000))
        else:
            d = v.to_date()
            exp = dt.date(*args[:3])
            ok = d == exp and tuple(T.from_date(d)) == (args[0], args[1], args[2], None)
            d2 = v.to_datetime()
            exp2 = dt.datetime(*args[:3], tzinfo=None if args[3] is None else dt.timezone(dt.timedelta(minutes=args[3])))
            back = T.from_datetime(d2)
            ok = ok and d2 == exp2 and d2.utcoffset() == exp2.utcoffset() and tuple(back) == tuple(v)
    except Exception as e:  # noqa: BLE001
        ctx.violation(f"stdlib-raises/{tname}", f"{tname}{tuple(args)} stdlib conversion raised {type(e).__name__}: {e}", w)
        return
    if not ok:
        ctx.violation(f"stdlib-instant-changed/{tname}", f"{tname}{tuple(args)} -> {d!r} -> {back!r}", w)


def check_duration(ctx, s):
    from xsdata.models.datatype import XmlDuration

    exp = lx.parse_duration(s)
    if exp is None:
        ctx.case("duration-invalid", s)
        ctx.feature("duration/invalid")
        try:
            v = XmlDuration(s)
        except Exception:  # noqa: BLE001
            return
        ctx.violation("malformed-accepted/XmlDuration", f"XmlDuration({s!r}) accepted a string outside the lexical space of xs:duration -> {v.asdict()}", {"fn": "duration", "args": [s]})
        return
    ctx.case("duration", s)
    ctx.feature("duration/valid")
    w = {"fn": "duration", "args": [s]}
    try:
        v = XmlDuration(s)
    except Exception as e:  # noqa: BLE001
        ctx.violation("valid-rejected/XmlDuration", f"XmlDuration({s!r}) raised {type(e).__name__}: {e}", w)
        return
    got = {"negative": v.negative, "years": v.years, "months": v.months, "days": v.days, "hours": v.hours, "minutes": v.minutes}
    want_ = {k: exp[k] for k in got}
    sec_ok = (v.seconds is None) == (exp["seconds"] is None)
    if sec_ok and exp["seconds"] is not None:
        e = float(exp["seconds"])
        sec_ok = v.seconds == e or abs(v.seconds - e) <= abs(e) * 2.3e-16
    if got != want_ or not sec_ok:
        ctx.violation("wrong-components/XmlDuration", f"XmlDuration({s!r}) -> {v.asdict()} but XSD assigns {exp}", w)
        return
    back = str(v)
    if lx.parse_duration(back) != exp or XmlDuration(back) != v:
        ctx.violation("str-roundtrip/XmlDuration", f"XmlDuration({s!r}) -> str {back!r}", w)


PERIOD_KINDS = ["gYear", "gYearMonth", "gMonth", "gMonthDay", "gDay"]


def check_period(ctx, s):
    from xsdata.models.datatype import XmlPeriod

    c = lx.collapse(s)
    shapes = [(k, lx.parse_shape(k, c)) for k in PERIOD_KINDS]
    shapes = [(k, sh) for k, sh in shapes if sh is not None]
    if not shapes:
        ctx.case("period-malformed", s)
        ctx.feature("period/malformed")
        try:
            v = XmlPeriod(s)
        except Exception:  # noqa: BLE001
            return
        ctx.violation("malformed-accepted/XmlPeriod", f"XmlPeriod({s!r}) accepted a string outside the lexical space of the g* types (kept as {str(v)!r})", {"fn": "period", "args": [s]})
        return
    kind, shape = shapes[0]
    valid = lx.components_valid(kind, shape)
    ctx.case("period", s)
    ctx.feature(f"period/{kind}/{'valid' if valid else 'invalid'}")
    w = {"fn": "period", "args": [s]}
    try:
        v = XmlPeriod(s)
        err = None
    except Exception as e:  # noqa: BLE001
        v, err = None, e
    if valid:
        if err is not None:
            ctx.violation(f"valid-rejected/XmlPeriod/{kind}", f"XmlPeriod({s!r}) raised {type(err).__name__}: {err}", w)
            return
        got = {"year": v.year, "month": v.month, "day": v.day, "offset": v.offset}
        exp = {"year": shape.get("year"), "month": shape.get("month"), "day": shape.get("day"), "offset": shape["offset"]}
        if got != exp:
            ctx.violation(f"wrong-components/XmlPeriod/{kind}", f"XmlPeriod({s!r}) -> {got}, XSD assigns {exp}", w)
            return
        back = str(v)
        c2 = lx.parse_calendar(kind, back)
        if c2 is None or want(c2) != want(shape) or not (XmlPeriod(back) == v):
            ctx.violation(f"str-roundtrip/XmlPeriod/{kind}", f"XmlPeriod({s!r}) -> str {back!r}", w)
    elif err is None:
        ctx.violation(f"invalid-accepted/XmlPeriod/{kind}", f"XmlPeriod({s!r}) accepted a string denoting no real {kind}", w)


CHECKS = {"hash": check_hash, "now": lambda ctx: check_now(ctx), "parse": check_parse, "str": check_str, "order": check_order, "stdlib": check_stdlib, "duration": check_duration, "period": check_period}


def replay(witness, ctx):
    install_hooks(ctx)
    CHECKS[witness["fn"]](ctx, *witness["args"])


# ----------------------------------------------------------------------------- workload
def pad(rng, s):
    return rng.choice(["", " ", "\n", "\t ", "  "]) + s + rng.choice(["", " ", "\n", " \t", "\r\n"])


def frac_variants(rng):
    yield 0, 0
    for digits in range(1, 10):
        top = 10**digits
        for v in {0, 1, top - 1, rng.randrange(top)}:
            yield digits, v * 10 ** (9 - digits)


def probe_duration_seconds_float():
    """Known finding: XmlDuration keeps the seconds as a float; with 8+ integer digits the nanoseconds are lost.
    Counterfactual: the same fraction with few integer digits is exact."""
    from xsdata.models.datatype import XmlDuration

    big = XmlDuration("PT100000000.000000001S").seconds
    small = XmlDuration("PT1.000000001S").seconds
    return big == 100000000.0 and small == 1.000000001


def run_shard(ctx):
    install_hooks(ctx)
    rng = ctx.rng
    i = 0
    if ctx.shard == 0:
        ctx.evals()
        try:
            if probe_duration_seconds_float():
                ctx.known_finding("C06/duration-seconds-kept-as-float")
        except Exception as e:  # noqa: BLE001
            ctx.inconc(f"probe failed to run: {type(e).__name__}: {e}")

    # A. (year, month, day) table for date / dateTime / gYearMonth / gMonthDay / gMonth / gDay / gYear
    for y in YEARS:
        for m in range(0, 14):
            for d in range(0, 33):
                i += 1
                if not ctx.mine(i):
                    continue
                tz = lx.fmt_tz(rng.choice(TZS))
                base = f"{lx.fmt_year(y)}-{m:02d}-{d:02d}"
                check_parse(ctx, "XmlDate", base + tz)
                check_parse(ctx, "XmlDateTime", f"{base}T{rng.choice(['00:00:00', '12:30:45', '23:59:59.999999999', '24:00:00'])}{tz}")
                if rng.random() < 0.15:
                    check_parse(ctx, "XmlDate", pad(rng, base + tz), via="converter")
                if y == YEARS[0] or (y == 2024 and rng.random() < 0.3):
                    check_period(ctx, f"--{m:02d}-{d:02d}{tz}")
            i += 1
            if ctx.mine(i):
                tz = lx.fmt_tz(rng.choice(TZS))
                check_period(ctx, f"{lx.fmt_year(y)}-{m:02d}{tz}")
                check_period(ctx, pad(rng, f"--{m:02d}{tz}"))
        check_period(ctx, f"{lx.fmt_year(y)}{lx.fmt_tz(rng.choice(TZS))}")
    for d in range(0, 33):
        for off in TZS:
            check_period(ctx, f"---{d:02d}{lx.fmt_tz(off)}")

    # B. time-of-day table x fraction lengths x every quarter-hour offset
    secs = [0, 1, 30, 59, 60, 61]
    for h in range(0, 26):
        for mi in secs:
            for s in secs:
                i += 1
                if not ctx.mine(i):
                    continue
                for digits, ns in frac_variants(rng):
                    if digits not in (0, 1, 3, 6, 9) and rng.random() < 0.6:
                        continue
                    off = rng.choice(ALL_OFFSETS)
                    t = f"{h:02d}:{mi:02d}:{s:02d}{lx.fmt_frac(ns, digits)}{lx.fmt_tz(off)}"
                    check_parse(ctx, "XmlTime", t)
                    if rng.random() < 0.3:
                        check_parse(ctx, "XmlDateTime", f"2024-02-29T{t}")
                    if rng.random() < 0.1:
                        check_parse(ctx, "XmlTime", pad(rng, t), via="converter")
    for off in ALL_OFFSETS:
        i += 1
        if ctx.mine(i):
            check_parse(ctx, "XmlTime", f"13:20:00{lx.fmt_tz(off)}")
            check_parse(ctx, "XmlDate", f"2002-10-10{lx.fmt_tz(off)}")
            check_parse(ctx, "XmlDateTime", f"2002-10-10T13:20:00{lx.fmt_tz(off)}")
            check_str(ctx, "XmlTime", [13, 20, 0, 0, off])
            check_str(ctx, "XmlDate", [2002, 10, 10, off])

    # B2. strings outside the lexical space, offsets beyond +-14:00, 24:00:00 through the standard library, now()
    if ctx.shard == 0:
        check_now(ctx)
    MALFORMED = ["2021-+1-01", "2021- 1- 1", "+2021-01-01", "\u0662\u0660\u0662\u0661-\u0660\u0661-\u0660\u0661", "2021-01-01T10:-0:+5", "2021-01-01T10:00:00.", "2021-01-01T10:00:00+ 1:-0", "2021-1-01", "2021-01-1",
                 "2021-01-01T1:00:00", "2021-01-01T10:00", "2021-01-01 10:00:00", "21-01-01", "2021-01-01T10:00:00z", "2021-01-01T10:00:00+1:00", "2021-01-01T10:00:00+01", "2021-01-01T10:00:00+0100", "2021-01-01TT10:00:00", "2021-01-01T10:00:00.1.2",
                 "2021-01-01T10:00:00Z+01:00", "2021_01_01", "", "T", "2021-01-01T", "2021-01-01T10:00:00\u0660"]
    for j, m in enumerate(MALFORMED):
        i += 1
        if not ctx.mine(i):
            continue
        for tname in ("XmlDateTime", "XmlDate", "XmlTime"):
            txt = m if tname == "XmlDateTime" else (m.split("T")[0] if tname == "XmlDate" else (m.split("T", 1)[1] if "T" in m else m))
            check_parse(ctx, tname, txt)
            check_parse(ctx, tname, txt, via="converter")
    for hh, mm in ((14, 1), (14, 59), (15, 0), (24, 0), (99, 99), (0, 60), (13, 60), (14, 0), (13, 59), (0, 59)):
        for sign in "+-":
            i += 1
            if ctx.mine(i):
                tzs = f"{sign}{hh:02d}:{mm:02d}"
                check_parse(ctx, "XmlTime", f"13:20:00{tzs}")
                check_parse(ctx, "XmlDate", f"2002-10-10{tzs}")
                check_parse(ctx, "XmlDateTime", f"2002-10-10T13:20:00{tzs}")
                check_period(ctx, f"2002{tzs}")
                check_period(ctx, f"--10-10{tzs}")
    for off in ALL_OFFSETS:
        i += 1
        if ctx.mine(i):
            check_stdlib(ctx, "XmlDateTime", [2021, 12, 31, 24, 0, 0, 0, off])
            check_stdlib(ctx, "XmlDateTime", [2024, 2, 28, 24, 0, 0, 0, off])
            check_stdlib(ctx, "XmlTime", [24, 0, 0, 0, off])
            check_order(ctx, "XmlTime", [24, 0, 0, 0, off], [0, 0, 0, 0, off])
            check_order(ctx, "XmlTime", [24, 0, 0, 0, off], [0, 0, 1, 0, off])
            check_order(ctx, "XmlTime", [24, 0, 0, 0, off], [23, 59, 59, 999999999, off])
            check_hash(ctx, "XmlTime", [24, 0, 0, 0, off], [0, 0, 0, 0, off])
    for bad in ["--+1", "--- 1", "---1", "--1", "2021-", "-- 1-01", "--01--01", "20 21", "\u0662\u0660\u0662\u0661", "--13-", "---01-", "--01-01-", "2021-01-", "+2021"]:
        i += 1
        if ctx.mine(i):
            check_period(ctx, bad)
    for bad in ["PT1_5S", "PT1e5S", "P\u0661Y", "P1Y2", "PT", "P", "P1S", "PT1Y", "P1.5Y", "PT1.S", "PT.5S", "P-1Y", "P1YT", "1Y", "P1Y 2M", "PT1H1H", "P1M1Y", "PT1S1M", "+P1Y", "p1y", "PT1,5S"]:
        i += 1
        if ctx.mine(i):
            check_duration(ctx, bad)

    # F. durations: all 2^6 component subsets x sign x fractional seconds
    names = ["Y", "M", "D", "H", "Mi", "S"]
    for mask in range(0, 64):
        for neg in ("", "-"):
            i += 1
            if not ctx.mine(i):
                continue
            for _ in range(ctx.pick(2, 12)):
                vals = {n: rng.choice([0, 1, 7, 12, 99, 10**6]) for n in names}
                sec = str(vals["S"]) + rng.choice(["", ".5", ".000000001", ".123456789", ".0"])
                date = "".join(f"{vals[n]}{n}" for n in ("Y", "M", "D") if mask & (1 << names.index(n)))
                time = ""
                if mask & 8:
                    time += f"{vals['H']}H"
                if mask & 16:
                    time += f"{vals['Mi']}M"
                if mask & 32:
                    time += f"{sec}S"
                s = f"{neg}P{date}" + (f"T{time}" if time else rng.choice(["", "", "T"]))
                check_duration(ctx, s)
                if rng.random() < 0.3:
                    check_duration(ctx, pad(rng, s))

    # C/D/E. random + adversarial values
    n = ctx.per_shard(ctx.pick(400000, 8000000))
    k = 0
    while k < n and (ctx.time_left() > 0 or len(ctx.fingerprints) < MIN_DISTINCT[ctx.tier] // ctx.nshards + 1):
        k += 1
        y = rng.choice(YEARS) if rng.random() < 0.5 else rng.randrange(-3000, 12000)
        mo = rng.randrange(1, 13)
        d = rng.randrange(1, lx.days_in_month(y, mo) + 1)
        if rng.random() < 0.3:
            d = rng.choice([1, lx.days_in_month(y, mo)])
        h, mi, s = rng.choice([0, 23, rng.randrange(24)]), rng.choice([0, 59, rng.randrange(60)]), rng.choice([0, 59, rng.randrange(60)])
        ns = rng.choice([0, 1, 999999999, 1000, 500000000, rng.randrange(10**9), rng.randrange(1000) * 10**6])
        off = rng.choice(ALL_OFFSETS) if rng.random() < 0.7 else None
        a = [y, mo, d, h, mi, s, ns, off]
        check_str(ctx, "XmlDateTime", a)
        if k % 3 == 0:
            check_str(ctx, "XmlTime", [h, mi, s, ns, off])
            check_str(ctx, "XmlDate", [y, mo, d, off])
        # ordering: neighbours on the timeline (1 ns, 1 s, day/month/year boundary, offset shift)
        mode = rng.randrange(8)
        b = list(a)
        if off is None:
            off2 = None
        else:
            off2 = rng.choice([o for o in ALL_OFFSETS if o is not None])
        if mode == 0:  # same instant written in another offset
            if off is not None:
                tl = lx.datetime_timeline(*a[:7], off)
                b = from_timeline(tl, off2)
        elif mode == 1:  # one nanosecond later, maybe other offset
            tl = lx.datetime_timeline(*a[:7], off) + rng.choice([1, -1, 1000, 10**9, -(10**9)])
            b = from_timeline(tl, off2 if off is not None else None)
        elif mode == 2:  # across a day/month/year boundary by a small amount
            tl = lx.datetime_timeline(y, mo, lx.days_in_month(y, mo), 23, 59, 59, 999999999, off)
            a = from_timeline(tl, off)
            b = from_timeline(tl + rng.choice([1, 10**9, 3600 * 10**9, 37739 * 10**9]), off2 if off is not None else None)
        elif mode == 3:  # the scouted shape: end of month morning vs first of next month
            a = [y, mo, lx.days_in_month(y, mo), rng.randrange(24), rng.randrange(60), rng.randrange(60), 0, off]
            y2, mo2 = (y, mo + 1) if mo < 12 else (y + 1, 1)
            b = [y2, mo2, 1, 0, 0, 0, 0, off]
        elif mode == 4:  # random other value
            b = [rng.choice([y, y, y + 1, y - 1]), rng.randrange(1, 13), rng.randrange(1, 29), rng.randrange(24), rng.randrange(60), rng.randrange(60), rng.choice([0, ns]), off2 if off is not None else None]
        elif mode == 5:  # identical
            pass
        elif mode == 6:  # 24:00:00 == next day 00:00:00
            a = [y, mo, d, 24, 0, 0, 0, off]
            tl = lx.datetime_timeline(*a[:7], off)
            b = from_timeline(tl + rng.choice([0, 0, 1, -1]), off)
        else:  # same fields, offset only differs
            if off is not None:
                b[-1] = off2
        check_order(ctx, "XmlDateTime", a, b)
        if mode in (0, 5, 6):
            check_hash(ctx, "XmlDateTime", a, b)
        if k % 2 == 0:
            ta = [h, mi, s, ns, off]
            tb = [rng.choice([h, rng.randrange(24)]), rng.choice([mi, rng.randrange(60)]), rng.choice([s, rng.randrange(60)]), rng.choice([ns, 0, ns + 1 if ns < 999999999 else ns]), off2 if off is not None else None]
            if rng.random() < 0.25 and off is not None:  # same instant other offset (no wrap)
                tl = lx.time_timeline(*ta[:4], off) + off2 * 60 * lx.NS
                if 0 <= tl < 86400 * lx.NS:
                    sec, fr = divmod(tl, lx.NS)
                    tb = [sec // 3600, sec % 3600 // 60, sec % 60, fr, off2]
            check_order(ctx, "XmlTime", ta, tb)
            if k % 8 == 0:
                check_hash(ctx, "XmlTime", ta, tb)
        # stdlib conversions
        if k % 4 == 0 and 1 <= y <= 9999:
            # stdlib objects carry microseconds: finer fractions are cut off (the documented `microsecond` of the value),
            # never rounded up into the next microsecond / second
            us = rng.choice([ns // 1000 * 1000, ns, ns, 999999500 + rng.randrange(500), rng.randrange(1000) + rng.choice([500, 999])])
            so = off
            check_stdlib(ctx, "XmlDateTime", [y, mo, d, h, mi, s, us, so])
            check_stdlib(ctx, "XmlTime", [h, mi, s, us, so])
            check_stdlib(ctx, "XmlDate", [y, mo, d, so])
        # dateTime lexical forms with random fraction digit counts and padding
        if k % 5 == 0:
            digits = rng.randrange(0, 10)
            txt = f"{lx.fmt_year(y)}-{mo:02d}-{d:02d}T{h:02d}:{mi:02d}:{s:02d}{lx.fmt_frac(ns, digits)}{lx.fmt_tz(off)}"
            check_parse(ctx, "XmlDateTime", pad(rng, txt), via=rng.choice(["from_string", "converter"]))
    ctx.sample({"check": "parse", "type": "XmlDateTime", "input": "2024-02-29T24:00:00+05:30"})
    ctx.sample({"check": "order", "type": "XmlDateTime", "a": [2021, 1, 31, 10, 29, 3, 0, None], "b": [2021, 2, 1, 0, 0, 0, 0, None]})
    ctx.sample({"check": "duration", "input": "-P1Y2M3DT4H5M6.000000001S"})
    ctx.sample({"check": "period", "input": "--02-29-14:00"})


def from_timeline(tl, off):
    """Inverse of datetime_timeline for a chosen offset (components as a list)."""
    secs, ns = divmod(tl, lx.NS)
    secs += (off or 0) * 60
    days, rem = divmod(secs, 86400)
    # civil_from_days
    z = days + 719468
    era = z // 146097
    doe = z - era * 146097
    yoe = (doe - doe // 1460 + doe // 36524 - doe // 146096) // 365
    y = yoe + era * 400
    doy = doe - (365 * yoe + yoe // 4 - yoe // 100)
    mp = (5 * doy + 2) // 153
    d = doy - (153 * mp + 2) // 5 + 1
    m = mp + 3 if mp < 10 else mp - 9
    y += m <= 2
    return [y, m, d, rem // 3600, rem % 3600 // 60, rem % 60, ns, off]
