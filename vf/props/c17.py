"""C17 — WSDL generation yields usable SOAP bindings.

Monitor shape: reference model + recording boundary. A seeded WSDL 1.1 definition (vf/wsdlgen.py IR: 1-4
operations, document or rpc style, parts by element or by type, optional header and fault, inline or imported
schema, one-way operations) goes through the real generator; in a fresh interpreter the generated service
classes are read (style / location / transport / SOAPAction / input / output), a request is built for every
operation from a plain dictionary, sent through the real Client with a recording transport that returns a
response (or a SOAP fault) written by the harness, and the parsed result is serialized again. The harness
judges against its own expectations computed from the IR: service configuration, the posted URL and headers,
the infoset of the posted envelope (header and body parts with the names and namespaces the WSDL prescribes),
and the infoset of the returned object against the response that was fed in.
"""

from __future__ import annotations

import copy
import json
import random

from lxml import etree

from vf import gen, wsdlgen
from vf.props.c02 import norm

ID = "C17"
LEVEL = "exploration"
RULE = (
    "case = (WSDL definition, operation, response kind). Definitions from the IR generator: 1-4 operations, style document|rpc given on "
    "the binding or per operation, parts by element (document: one element part; rpc: element or type parts), optional soap:header, "
    "optional fault, schema inline or imported, soapAction absent/empty/URI, one-way operations. Per operation one request and one "
    "response (normal, and a SOAP fault when the operation declares one). Non-trivial = every case; distinct = distinct (WSDL bytes, "
    "operation, response kind)."
)
ASSUMPTIONS = [
    "expected envelopes are computed from the harness IR by the rules of WSDL 1.1 / SOAP 1.1 literal bindings: document = the part's element as the only body child; rpc = wrapper element named after the operation in the soap:body namespace, parts by type as unqualified children named after the part, parts by element as that element; the rpc response wrapper is named after the output message (what the generated output class declares)",
    "required headers = content-type text/xml plus SOAPAction when the binding gives a non-empty soapAction (an empty soapAction is not judged)",
    "the client runs with the real DefaultTransport over a recording requests.Session look-alike (the `requests` stand-in of /verif/shims supplies Response/HTTPError only); faults are answered with HTTP 500",
    "codegen stand-ins of /verif/shims",
]
MIN_DISTINCT = {"quick": 300, "thorough": 8000}
TIME = {"quick": 45, "thorough": 1200}
SHARDS = {"quick": 14, "thorough": 14}
REQUIRED_FEATURES = ["style:document", "style:rpc", "response:normal", "response:lenient-client", "response:fault", "header", "part-by-type", "part-by-complex-type"]

ENV = wsdlgen.ENV
VALUES = {"string": ("text é", "text é"), "int": (42, "42"), "boolean": (True, "true"), "decimal": ("1.5", "1.5"), "date": ("2020-01-02", "2020-01-02"), "double": (2.5, "2.5")}
VALUES2 = {"string": ("two words", "two words"), "int": (-7, "-7"), "boolean": (False, "false"), "decimal": ("-0.25", "-0.25"), "date": ("1999-12-31", "1999-12-31"), "double": (-0.5, "-0.5")}

POST_SCRIPT = r'''
import importlib, sys, traceback
sys.path.append(ARGS["shims"])  # the `requests` stand-in: xsdata.formats.dataclass.transports imports it
from xsdata.formats.dataclass.client import Client
from xsdata.formats.dataclass.serializers import XmlSerializer
from xsdata.formats.dataclass.transports import Transport
from xsdata.formats.dataclass.context import XmlContext

mods = [importlib.import_module(m) for m in ARGS["modules"]]
services = {}
for m in mods:
    for name, obj in vars(m).items():
        if isinstance(obj, type) and hasattr(obj, "style") and hasattr(obj, "input") and hasattr(obj, "location"):
            services[name] = obj

import requests
from xsdata.formats.dataclass.transports import DefaultTransport

class Recorder:
    """A requests.Session look-alike behind the real DefaultTransport: records every call and answers with a canned
    HTTP response (status 500 for SOAP faults, as SOAP 1.1 over HTTP prescribes)."""
    def __init__(self, status, response):
        self.status, self.response, self.calls = status, response, []
    def _answer(self, url):
        r = requests.Response()
        r.status_code, r.reason, r.url, r._content = self.status, "canned", url, self.response
        return r
    def get(self, url, params=None, headers=None, timeout=None):
        self.calls.append(("get", url, None, dict(headers or {})))
        return self._answer(url)
    def post(self, url, data=None, headers=None, timeout=None):
        self.calls.append(("post", url, data if isinstance(data, str) else data.decode("utf-8"), dict(headers or {})))
        return self._answer(url)

def body_key(svc):
    """(namespace, name) of the first Body child the input envelope declares."""
    ctx = XmlContext()
    try:
        meta = ctx.build(svc.input)
        body = next(v for v in meta.get_element_vars() if v.local_name == "Body")
        bmeta = ctx.build(body.clazz)
        first = bmeta.get_element_vars()[0]
        return first.qname
    except Exception as e:
        return "?" + repr(e)

index = {body_key(s): (n, s) for n, s in services.items()}
out = {"services": sorted(services), "ops": []}
for op in ARGS["ops"]:
    rec = {"op": op["name"]}
    found = index.get(op["body_qname"])
    if not found:
        rec["error"] = "no service class whose input body starts with " + op["body_qname"] + "; have " + repr(sorted(index))
        out["ops"].append(rec)
        continue
    name, svc = found
    rec["service"] = name
    rec["config"] = {k: getattr(svc, k, None) for k in ("style", "location", "transport", "soap_action")}
    rec["has_output"] = getattr(svc, "output", None) is not None
    rec["runs"] = []
    for kind, response in op["responses"]:
        run = {"kind": kind}
        try:
            if kind == "lenient-client":
                from xsdata.formats.dataclass.client import Config
                from xsdata.formats.dataclass.parsers import XmlParser
                from xsdata.formats.dataclass.parsers.config import ParserConfig
                shared = XmlContext()
                client = Client(Config.from_service(svc), parser=XmlParser(config=ParserConfig(fail_on_unknown_properties=False), context=shared), serializer=XmlSerializer(context=shared))
            else:
                client = Client.from_service(svc)
            session = Recorder(500 if kind == "fault" else 200, response.encode("utf-8"))
            client.transport = DefaultTransport(session=session)
            result = client.send(op["payload"], headers={"X-Verif": "1"})
            run["calls"] = session.calls
            run["result_type"] = type(result).__qualname__
            run["result_xml"] = XmlSerializer().render(result)
        except Exception as e:
            run["error"] = type(e).__name__ + ": " + str(e)[:500]
            run["traceback"] = "".join(traceback.format_exception(type(e), e, e.__traceback__))[-1500:]
            run["calls"] = getattr(locals().get("session"), "calls", [])
        rec["runs"].append(run)
    out["ops"].append(rec)
RESULT = out
'''


# ----------------------------------------------------------------------------- expectations from the IR
def q(ns, name):
    return f"{{{ns}}}{name}" if ns else name


def element_values(el: wsdlgen.El, rng, alt=False):
    """-> (dict for the payload, [(field, [lexical...])])"""
    vals = VALUES2 if alt else VALUES
    d, xml = {}, []
    for fn, t, mn, mx in el.fields:
        if mn == 0 and rng.random() < 0.4:
            continue
        n = 2 if mx > 1 else 1
        py = [vals[t][0], VALUES2[t][0] if not alt else VALUES[t][0]][:n]
        lex = [vals[t][1], VALUES2[t][1] if not alt else VALUES[t][1]][:n]
        d[fn] = py if mx > 1 else py[0]
        xml.append((fn, lex))
    return d, xml


def element_xml(ns, el_name, xml_fields):
    e = etree.Element(q(ns, el_name))
    for fn, lexs in xml_fields:
        for lx_ in lexs:
            etree.SubElement(e, q(ns, fn)).text = lx_
    return e


def build_messages(w: wsdlgen.Wsdl, op: wsdlgen.Op, rng):
    """-> payload dict, expected request envelope (lxml), body qname, responses [(kind, xml text)]"""
    env = etree.Element(q(ENV, "Envelope"), nsmap={"soapenv": ENV})
    payload = {}
    if op.header:
        h = w.el(op.header.element)
        d, x = element_values(h, rng)
        payload["Header"] = {h.name: d}
        etree.SubElement(env, q(ENV, "Header")).append(element_xml(w.types_ns, h.name, x))
    body = etree.SubElement(env, q(ENV, "Body"))
    if op.style == "document":
        req = w.el(op.input[0].element)
        d, x = element_values(req, rng)
        payload["Body"] = {req.name: d}
        body.append(element_xml(w.types_ns, req.name, x))
        body_qname = q(w.types_ns, req.name)
    else:
        wrapper = etree.SubElement(body, q(op.body_ns, op.name))
        inner = {}
        for p in op.input:
            if p.element:
                e = w.el(p.element)
                d, x = element_values(e, rng)
                inner[e.name] = d
                wrapper.append(element_xml(w.types_ns, e.name, x))
            elif p.ctype:  # a part given by a named complex type: unqualified accessor named after the part, qualified children
                d, x = element_values(w.ct(p.ctype), rng)
                inner[p.name] = d
                acc = element_xml(w.types_ns, "x", x)
                acc.tag = p.name
                wrapper.append(acc)
            else:
                inner[p.name] = VALUES[p.type][0]
                etree.SubElement(wrapper, p.name).text = VALUES[p.type][1]
        payload["Body"] = {op.name: inner}
        body_qname = q(op.body_ns, op.name)
    responses = []
    if op.output is not None:
        r = etree.Element(q(ENV, "Envelope"), nsmap={"soapenv": ENV})
        if getattr(op, "out_header", False) and rng.random() < 0.6:
            # the declared response header is present in some answers and left out in others (and never in a fault)
            h = w.el(op.header.element)
            _, hx = element_values(h, rng, alt=True)
            etree.SubElement(r, q(ENV, "Header")).append(element_xml(w.types_ns, h.name, hx))
        rb = etree.SubElement(r, q(ENV, "Body"))
        if op.style == "document":
            res = w.el(op.output[0].element)
            _, x = element_values(res, rng, alt=True)
            rb.append(element_xml(w.types_ns, res.name, x))
        else:
            wrap = etree.SubElement(rb, q(op.body_ns, f"{op.name}Out"))
            for p in op.output:
                etree.SubElement(wrap, p.name).text = VALUES2[p.type][1]
        responses.append(("normal", etree.tostring(r, encoding="unicode")))
        # the same answer with an element the model does not declare, for a client that was given its own lenient parser
        r2 = copy.deepcopy(r)
        etree.SubElement(r2[-1], "{urn:vf:undeclared}extra").text = "x"
        responses.append(("lenient-client", etree.tostring(r2, encoding="unicode")))
        if op.fault:
            f = etree.Element(q(ENV, "Envelope"), nsmap={"soapenv": ENV})
            fb = etree.SubElement(etree.SubElement(f, q(ENV, "Body")), q(ENV, "Fault"))
            etree.SubElement(fb, "faultcode").text = "soapenv:Server"
            etree.SubElement(fb, "faultstring").text = "boom: it failed"
            det = etree.SubElement(fb, "detail")
            err = w.el(op.fault.element)
            _, x = element_values(err, rng, alt=True)
            det.append(element_xml(w.types_ns, err.name, x))
            responses.append(("fault", etree.tostring(f, encoding="unicode")))
    else:
        responses.append(("one-way", etree.tostring(etree.Element(q(ENV, "Envelope"), nsmap={"soapenv": ENV}), encoding="unicode")))
    return payload, env, body_qname, responses


def shape(e):
    """Infoset modulo prefixes and whitespace-only text in element content."""
    kids = [shape(c) for c in e if isinstance(c.tag, str)]
    text = (e.text or "") if not kids else ""
    attrs = tuple(sorted((k, v) for k, v in e.attrib.items()))
    return (e.tag, attrs, text.strip() if kids else text, tuple(kids))


def first_diff(a, b, path="/"):
    if a == b:
        return None
    p = f"{path}{a[0].rsplit('}', 1)[-1]}"
    if a[0] != b[0]:
        return f"{path}: element {a[0]} vs {b[0]}"
    if a[1] != b[1]:
        return f"{p}: attributes {a[1]} vs {b[1]}"
    if a[2] != b[2]:
        return f"{p}: text {a[2]!r} vs {b[2]!r}"
    if len(a[3]) != len(b[3]):
        return f"{p}: children {[k[0] for k in a[3]]} vs {[k[0] for k in b[3]]}"
    for x, y in zip(a[3], b[3]):
        d = first_diff(x, y, p + "/")
        if d:
            return d
    return f"{p}: ?"


def check(ctx, seed):
    rng = random.Random(seed)
    salt = f"c17x{seed % 100000}"
    try:
        w = wsdlgen.WsdlGen(rng, salt, hostile=False).wsdl()
        files = wsdlgen.render(w)
        etree.fromstring(files["service.wsdl"].encode())
    except Exception as e:  # noqa: BLE001
        ctx.inconc(f"WSDL generator failed: {type(e).__name__}: {e}")
        return
    wkey = {"fn": "check", "seed": seed}
    ctx.feature(*[f for f in w.features], "schema:imported" if w.imported_schema else "schema:inline", "style-on:binding" if w.style_on_binding else "style-on:operation")
    ops_args, expect = [], {}
    for op in w.ops:
        payload, env, body_qname, responses = build_messages(w, op, rng)
        ops_args.append({"name": op.name, "payload": payload, "body_qname": body_qname, "responses": responses})
        expect[op.name] = (op, env, responses)
    res = gen.generate(files, entry=["service.wsdl"], config={}, route="api", hashseed=0, timeout=240, hooks=False)
    if res.status in ("timeout", "crash"):
        ctx.inconc(f"generation {res.status} (seed {seed})")
        return
    shown_wsdl = files["service.wsdl"][:3000]
    if res.status != "ok":
        ctx.violation(f"generation-fails/{res.exc_type}/{norm(res.message)}", f"{res.exc_type}: {res.message}\n{(res.traceback or '')[-1200:]}\n{shown_wsdl}", wkey)
        return
    run = gen.run_in_package(res.files, POST_SCRIPT, args={"modules": gen.package_modules(res.files), "ops": ops_args, "shims": str(gen.SHIMS)}, timeout=240)
    if run.status == "timeout":
        ctx.inconc(f"post-check watchdog fired (seed {seed})")
        return
    if run.status != "ok":
        ctx.violation(f"import-fails/{run.exc_type}/{norm(run.message)}", f"{run.exc_type}: {run.message}\n{run.stderr[-1200:]}\n{shown_wsdl}", wkey)
        return
    for rec in run.result["ops"]:
        op, env, responses = expect[rec["op"]]
        wk = {**wkey, "op": op.name}
        shown = f"operation {op.name} ({op.style}); services generated: {run.result['services']}\n{shown_wsdl}"
        if "error" in rec:
            ctx.case(files["service.wsdl"], op.name, "lookup", nontrivial=True)
            ctx.evals()
            ctx.violation(f"service-missing/{op.style}", f"{rec['error']}\n{shown}", wk)
            continue
        cfgv = rec["config"]
        want = {"style": op.style, "location": w.location, "transport": wsdlgen.HTTP, "soap_action": op.soap_action or None}
        got = {**cfgv, "soap_action": cfgv.get("soap_action") or None}
        ctx.case(files["service.wsdl"], op.name, "config", nontrivial=True)
        ctx.evals()
        if got != want:
            bad = [k for k in want if want[k] != got.get(k)]
            ctx.violation(f"service-config/{'+'.join(bad)}", f"service {rec['service']}: {got} but the WSDL prescribes {want}\n{shown}", wk)
        if rec["has_output"] != (op.output is not None) and op.output is not None:
            ctx.violation("service-config/output-missing", f"service {rec['service']} has no output class\n{shown}", wk)
        for r in rec["runs"]:
            kind = r["kind"]
            ctx.case(files["service.wsdl"], op.name, kind, nontrivial=True)
            ctx.evals()
            ctx.feature(f"response:{kind}")
            resp_text = dict(responses)["normal" if kind == "lenient-client" else kind]  # (the undeclared element is skipped by the lenient parser)
            if "error" in r and not (kind == "one-way"):
                ctx.violation(f"send-fails/{op.style}/{kind}/{norm(r['error'])}", f"{r['error']}\n{r.get('traceback', '')[-800:]}\nresponse fed in: {resp_text[:600]}\n{shown}", wk)
                continue
            calls = r.get("calls") or []
            if len(calls) != 1 or calls[0][0] != "post":
                if kind == "one-way" and "error" in r and calls:
                    pass
                else:
                    ctx.violation(f"transport-calls/{len(calls)}", f"expected exactly one POST, saw {[(c[0], c[1]) for c in calls]} ({r.get('error', '')})\n{shown}", wk)
                    continue
            _, url, data, headers = calls[0]
            if url != w.location:
                ctx.violation("posted-url", f"posted to {url!r}, the WSDL gives {w.location!r}\n{shown}", wk)
            hl = {k.lower(): v for k, v in headers.items()}
            if not str(hl.get("content-type", "")).startswith("text/xml"):
                ctx.violation("headers/content-type", f"content-type {hl.get('content-type')!r}\n{shown}", wk)
            if op.soap_action and hl.get("soapaction") not in (op.soap_action, f'"{op.soap_action}"'):
                ctx.violation("headers/soapaction", f"SOAPAction {hl.get('soapaction')!r}, the binding gives {op.soap_action!r}\n{shown}", wk)
            if hl.get("x-verif") != "1":
                ctx.violation("headers/user-header-lost", f"headers {headers}\n{shown}", wk)
            try:
                posted = shape(etree.fromstring(data.encode("utf-8")))
            except Exception as e:  # noqa: BLE001
                ctx.violation("posted-payload-not-xml", f"{e}\n{data[:600]}\n{shown}", wk)
                continue
            d = first_diff(shape(env), posted)
            if d:
                ctx.violation(f"request-envelope/{op.style}/{norm(d)}", f"{d}\n--- expected\n{etree.tostring(env, encoding='unicode')[:1200]}\n--- posted\n{data[:1200]}\n{shown}", wk)
            if kind == "one-way" or "error" in r:
                continue
            try:
                back = shape(etree.fromstring(r["result_xml"].encode("utf-8")))
            except Exception as e:  # noqa: BLE001
                ctx.violation("result-not-serializable", f"{e}\n{shown}", wk)
                continue
            d = first_diff(shape(etree.fromstring(resp_text.encode())), back)
            if d:
                ctx.violation(f"response-not-parsed-faithfully/{kind}/{norm(d)}", f"{d}\n--- response fed in\n{resp_text[:1200]}\n--- parsed result, serialized\n{r['result_xml'][:1200]}\n{shown}", wk)
    if len(ctx.samples) < 2:
        ctx.sample({"wsdl": files["service.wsdl"][:800], "services": run.result["services"], "first_request": (run.result["ops"][0].get("runs") or [{}])[0].get("calls", [[None, None, ""]])[0][2][:500] if run.result["ops"] else ""})


def run_shard(ctx):
    rng = ctx.rng
    n = ctx.per_shard(ctx.pick(420, 9000))
    k = 0
    while k < n and (ctx.time_left() > 0 or len(ctx.fingerprints) < MIN_DISTINCT[ctx.tier] // ctx.nshards + 1):
        check(ctx, rng.getrandbits(40))
        k += 1


def replay(witness, ctx):
    check(ctx, witness["seed"])
