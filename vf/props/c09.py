"""C09 — parsing depends only on the XML infoset.

Monitor shape: two executions compared. parse(doc) vs parse(rewrite(doc)) for both handlers, where
rewrite is a composition of meaning-preserving rewrites produced by the harness-side writer
(vf/rewrite.py). The rewriter proves to itself that the infoset was preserved (libxml2 reading of
both documents, QName-valued leaves resolved); a failed proof drops the case as a harness bug
(counted; > 2 % makes the run inconclusive).
"""

from __future__ import annotations

import os
import tempfile

from vf import bindcase as bc
from vf import ir, rewrite, xmlkit
from vf.xmlkit import deep_eq

ID = "C09"
LEVEL = "exploration"
RULE = (
    "case = (generated model, instance, serializer output, seeded composition of rewrites, encoding, handler). Rewrites: "
    "prefix renaming / default namespace / shadowing / redundant redeclarations, attribute order, whitespace between children "
    "of element-only content, comments and PIs (between children, around the root, inside character data), CDATA and "
    "decimal/hex character references, surrounding whitespace of non-string leaves and attributes, encodings (UTF-8 +-BOM, "
    "UTF-16, ISO-8859-1, US-ASCII), XInclude splitting. Non-trivial = at least one rewrite was actually applied and the "
    "equivalence proof succeeded; distinct = distinct (model structure, instance, rewritten bytes, handler)."
)
ASSUMPTIONS = [
    "libxml2 is the judge of meaning preservation (the rewriter's own equivalence proof); cases where the proof fails are dropped and counted",
    "whitespace is only inserted where an element has child elements and no non-whitespace text, or around leaves the reference model types as non-string",
    "QName-valued leaves are re-spelled only with prefixes bound to the same URI; an unqualified QName is never moved under a default namespace",
    "XInclude only with sources/handlers that support it (path source, process_xinclude=True)",
]
MIN_DISTINCT = {"quick": 20000, "thorough": 300000}
TIME = {"quick": 45, "thorough": 600}
ENCODINGS = ["utf-8", "utf-8", "utf-8", "utf-16", "utf-16-le", "utf-16-be", "iso-8859-1", "us-ascii"]


def parse_doc(data, clazz, handler, context=None, via="bytes", tmpdir=None, xinclude=False):
    from xsdata.exceptions import ConverterWarning
    import warnings

    over = {"process_xinclude": True} if xinclude else {}
    p = bc.strict_parser(handler, context, **over)
    with warnings.catch_warnings():
        warnings.simplefilter("error", ConverterWarning)
        if via == "bytes":
            return p.from_bytes(data, clazz)
        if via == "tree":  # an already parsed tree that kept its comments and processing instructions
            if handler == "lxml":
                from lxml import etree

                return p.parse(etree.fromstring(data, etree.XMLParser(remove_comments=False, remove_pis=False, resolve_entities=False)).getroottree(), clazz)
            import io
            import xml.etree.ElementTree as ET

            return p.parse(ET.parse(io.BytesIO(data)), clazz)
        path = os.path.join(tmpdir, "doc.xml")
        with open(path, "wb") as f:
            f.write(data)
        from pathlib import Path

        return p.from_path(Path(path), clazz)


def check(ctx, model, style, loaded, obj, cfg, writer, seed, encoding, w_extra=None):
    import random

    w = bc.witness(model, style, obj, cfg, writer=writer, seed=seed, encoding=encoding, fn="check")
    xml = bc.render(loaded, obj, cfg, writer)
    original = xml.encode("utf-8")
    try:
        marks = rewrite.load_with_scopes(original)
        exp = ir.Ref(loaded, ignore_default_attributes=cfg.get("ignore_default_attributes", False)).root(obj)
        rewrite.mark_leaves(marks, exp)
    except ir.Unsupported as e:
        ctx.drop(f"reference model does not cover: {e}")
        return
    rng = random.Random(seed)
    o = rewrite.Opts(rng)
    bom = encoding == "utf-8" and rng.random() < 0.3
    enc_name = {"utf-16-le": "utf-16", "utf-16-be": "utf-16"}.get(encoding, encoding)
    try:
        if encoding in ("utf-16-le", "utf-16-be"):
            body = rewrite.emit_doc(marks, o, encoding="utf-16", declaration=True)
            text = body.decode("utf-16")
            data = (b"\xff\xfe" if encoding == "utf-16-le" else b"\xfe\xff") + text.encode(encoding)
        else:
            data = rewrite.emit_doc(marks, o, encoding=enc_name, bom=bom)
    except UnicodeEncodeError:
        ctx.drop("text not encodable in the chosen encoding")
        return
    ok, why = rewrite.same_meaning(original, data, marks)
    if not ok:
        ctx.drop(f"rewriter equivalence proof failed ({why})")
        ctx.extra.setdefault("proof_failures", 0)
        ctx.extra["proof_failures"] += 1
        return
    applied = set(o.applied)
    if encoding != "utf-8" or bom:
        applied.add(f"encoding:{encoding}{'+bom' if bom else ''}")
    for a in applied:
        ctx.feature(f"rewrite:{a}")
    w["rewritten"] = data.decode("latin-1")
    w["applied"] = sorted(applied)
    for handler in bc.HANDLERS:
        ctx.case(bc.structure_fp(model), bc.obj_fp(model, obj), data, handler, nontrivial=bool(applied))
        try:
            a = parse_doc(original, type(obj), handler)
        except Exception as e:  # noqa: BLE001
            ctx.drop(f"original does not parse strictly ({type(e).__name__}) - C01's business")
            continue
        tmp = None
        try:
            via, xinc = "bytes", False
            r = rng.random()
            if r < 0.2:
                via = "path"
                tmp = tempfile.mkdtemp(prefix="xsdata-verif-c09-")
                xinc = handler == "lxml" and rng.random() < 0.5  # XInclude processing switched on for a document without includes
            elif r < 0.4 and (handler == "lxml" or not marks_have_qnames(marks)):
                # an ElementTree tree carries no prefix declarations: documents with QName content are not
                # "the same infoset" once they are in that form (C08 applies the same rule)
                via = "tree"
            ctx.feature(f"source:{via}{'+process_xinclude' if xinc else ''}")
            b = parse_doc(data, type(obj), handler, via=via, tmpdir=tmp, xinclude=xinc)
        except Exception as e:  # noqa: BLE001
            ctx.violation(f"rewritten-rejected/{handler}/{mech(applied)}/{bc.short_exc(e)}", f"parse of the rewritten document raised {type(e).__name__}: {e}\napplied={sorted(applied)}\n{data[:1500]!r}", w)
            continue
        finally:
            if tmp:
                import shutil

                shutil.rmtree(tmp, ignore_errors=True)
        d = deep_eq(a, b)
        if d:
            ctx.violation(f"parse-differs/{handler}/{mech(applied)}/{bc.diff_key(model, a, d)}", f"{d}\napplied={sorted(applied)}\noriginal: {xml[:700]}\nrewritten: {data[:1500]!r}", w)
    if len(ctx.samples) < 3 and len(applied) >= 3:
        ctx.sample({"original": xml[:500], "rewritten": data[:700].decode("latin-1"), "applied": sorted(applied)})


def mech(applied):
    """Coarse mechanism tag: the rarest applied rewrite decides (helps triage; replay narrows it down)."""
    order = ["pi-inside-chardata", "comment-inside-chardata", "cdata", "pad-non-string-leaf", "pad-attribute", "default-namespace", "undeclare-default", "prefix-shadowing",
             "redundant-redeclaration", "charref", "charref-attr", "pi-between-children", "comment-between-children", "whitespace-between-children", "misc-around-root", "attribute-order", "prefix-renamed"]
    enc = [a for a in applied if a.startswith("encoding:")]
    for k in order:
        if k in applied:
            return k + ("+" + enc[0] if enc else "")
    return enc[0] if enc else "none"


def check_xinclude(ctx, model, style, loaded, obj, cfg, writer, seed):
    """Split one subtree into a sibling file referenced with xi:include (path source, process_xinclude)."""
    import random
    import shutil
    from pathlib import Path

    from lxml import etree

    rng = random.Random(seed)
    xml = bc.render(loaded, obj, cfg, writer)
    root = xmlkit.parse_strict(xml)
    cands = [el for el in root.iter() if isinstance(el.tag, str) and el is not root]
    if not cands:
        return
    target = rng.choice(cands)
    tmp = tempfile.mkdtemp(prefix="xsdata-verif-c09-xi-")
    w = bc.witness(model, style, obj, cfg, writer=writer, seed=seed, fn="xinclude")
    try:
        part = etree.tostring(target, encoding="utf-8", with_tail=False)
        (Path(tmp) / "part.xml").write_bytes(part)
        inc = etree.Element(f"{{{rewrite.XI}}}include", nsmap={"xi": rewrite.XI})
        inc.set("href", "part.xml")
        inc.tail = target.tail
        target.getparent().replace(target, inc)
        main = etree.tostring(root, encoding="utf-8")
        (Path(tmp) / "doc.xml").write_bytes(main)
        ctx.feature("rewrite:xinclude")
        has_q = has_qname_content(loaded, obj, cfg, xml)
        for handler in bc.HANDLERS:
            ctx.case(bc.structure_fp(model), bc.obj_fp(model, obj), main, handler, "xinclude")
            try:
                a = parse_doc(xml.encode(), type(obj), handler)
            except Exception:  # noqa: BLE001
                ctx.drop("original does not parse strictly - C01's business")
                continue
            try:
                from xsdata.exceptions import ConverterWarning
                import warnings

                p = bc.strict_parser(handler, None, process_xinclude=True)
                with warnings.catch_warnings():
                    warnings.simplefilter("error", ConverterWarning)
                    b = p.from_path(Path(tmp) / "doc.xml", type(obj))
            except Exception as e:  # noqa: BLE001
                ctx.violation(f"rewritten-rejected/{handler}/xinclude/{bc.short_exc(e)}", f"{type(e).__name__}: {e}\n{main[:800]!r}\n{part[:500]!r}", w, known_key=classify_xinclude(handler, has_q, e))
                continue
            d = deep_eq(a, b)
            if d:
                ctx.violation(f"parse-differs/{handler}/xinclude/{bc.diff_key(model, a, d)}", f"{d}\n{main[:800]!r}\n{part[:500]!r}", w, known_key=classify_xinclude(handler, has_q, None))
    finally:
        shutil.rmtree(tmp, ignore_errors=True)


def marks_have_qnames(e):
    return bool(e.qname_text or e.qname_attrs) or any(marks_have_qnames(x) for x in e.items if isinstance(x, rewrite.E))


def has_qname_content(loaded, obj, cfg, xml):
    """Structural fact from the reference model: the document carries QName-valued leaves/attributes or xsi:type."""
    try:
        marks = rewrite.load_with_scopes(xml.encode("utf-8"))
        exp = ir.Ref(loaded, ignore_default_attributes=cfg.get("ignore_default_attributes", False)).root(obj)
        rewrite.mark_leaves(marks, exp)
    except Exception:  # noqa: BLE001
        m = loaded.model
        qenums = {e.name for e in m.enums if e.base == "QName"}
        typed = any(t.name == "QName" or t.name in qenums or t.kind == "object" for c in m.classes for f in c.fields for t in (f.types + [x for ch in f.choices for x in ch.types]))
        return "xsi:type" in xml or typed

    def walk(e):
        if e.qname_text or e.qname_attrs:
            return True
        return any(walk(x) for x in e.items if isinstance(x, rewrite.E))

    return walk(marks)


def classify_xinclude(handler, has_q, exc):
    """Known mechanism: the native handler's XInclude path goes through xml.etree, which drops namespace
    declarations. Structural facts: native handler + the document carries QName-valued content (a
    QName leaf/attribute, also an unprefixed one under a default namespace, or xsi:type).
    Counterfactual confirmation: the same document parses fine without XInclude (established by the
    caller: `a` was parsed) and the failure is a conversion/lookup failure, nothing else."""
    from xsdata.exceptions import ConverterError, ParserError

    if handler != "native" or not has_q:
        return None
    if exc is not None and not isinstance(exc, (ConverterError, ParserError)):
        return None
    return "C09/xinclude-native-handler-loses-prefixes"


def check_rebound_prefix(ctx, seed):
    """Directed: `xsi:type="t:Figure"` where `t` is bound element by element to another namespace, next to the same infoset spelled
    with one prefix per namespace declared on the root. Both must give the object the reference construction gives (seeded change
    C09-r4-2: a process-wide memo keyed by the raw attribute text). The parser/context pair lives as long as the shard."""
    import random

    from vf.props import c09_models as M

    rng = random.Random(seed)
    kinds = [(M.FigureOne, "urn:vf:c09:one", "r", "a"), (M.FigureTwo, "urn:vf:c09:two", "side", "b"), (M.FigureThree, "urn:vf:c09:three", "edge", "c")]
    picks = [(rng.choice(kinds), rng.randrange(100)) for _ in range(rng.randrange(1, 5))]
    expected = M.Drawing(shape=[k[0](**{k[2]: v}) for k, v in picks])
    pfx = rng.choice(["t", "ns0", "a"])
    xsi = 'xmlns:xsi="http://www.w3.org/2001/XMLSchema-instance"'
    reused = f"<drawing {xsi}>" + "".join(f'<shape xmlns:{pfx}="{k[1]}" xsi:type="{pfx}:Figure" {k[2]}="{v}"/>' for k, v in picks) + "</drawing>"
    decl = " ".join(f'xmlns:{k[3]}="{k[1]}"' for k in kinds)
    distinct = f"<drawing {xsi} {decl}>" + "".join(f'<shape xsi:type="{k[3]}:Figure" {k[2]}="{v}"/>' for k, v in picks) + "</drawing>"
    w = {"fn": "rebound", "seed": seed}
    ctx.feature("directed:xsi-type-prefix-rebound-per-element")
    for handler in bc.HANDLERS:
        for label, doc in (("reused-prefix", reused), ("distinct-prefixes", distinct)):
            ctx.case("rebound", doc, handler)
            try:
                got = shared_parser(handler).from_bytes(doc.encode(), M.Drawing)
            except Exception as e:  # noqa: BLE001
                ctx.violation(f"rewritten-rejected/{handler}/xsi-type-{label}/{bc.short_exc(e)}", f"{type(e).__name__}: {e}\n{doc}", w)
                continue
            d = deep_eq(expected, got)
            if d:
                ctx.violation(f"parse-differs/{handler}/xsi-type-{label}", f"{d}\n{doc}\nexpected {expected!r}\ngot {got!r}", w)


_PARSERS = {}


def shared_parser(handler):
    if handler not in _PARSERS:
        _PARSERS[handler] = bc.strict_parser(handler, None)
    return _PARSERS[handler]


def replay(witness, ctx):
    if witness.get("fn") == "rebound":
        check_rebound_prefix(ctx, witness["seed"])
        return
    model, loaded, obj = bc.from_witness(witness)
    try:
        if witness.get("fn") == "xinclude":
            check_xinclude(ctx, model, witness["style"], loaded, obj, witness["cfg"], witness["writer"], witness["seed"])
        else:
            check(ctx, model, witness["style"], loaded, obj, witness["cfg"], witness["writer"], witness["seed"], witness["encoding"])
    finally:
        loaded.unload()


def coverage_extra(coverage, tier):
    pf = coverage.get("proof_failures", 0)
    ev = max(1, coverage["evaluations"])
    out = {"rewriter_proof_failure_rate": round(pf / ev, 4)}
    if pf / ev > 0.02:
        coverage["inconclusive_reasons"].append(f"rewriter equivalence proof failed for {pf}/{ev} cases (> 2 %)")
    return out


def run_shard(ctx):
    n_models = ctx.per_shard(ctx.pick(8000, 150000))
    min_d = MIN_DISTINCT[ctx.tier] // ctx.nshards + 1
    k = 0
    rng = ctx.rng
    while k < n_models and (ctx.time_left() > 0 or len(ctx.fingerprints) < min_d):
        k += 1
        try:
            case = bc.make_case(ctx, max_classes=4, max_fields=5, n_objs=2)
        except Exception as e:  # noqa: BLE001
            ctx.inconc(f"model generation failed: {e}")
            continue
        try:
            ctx.feature(*bc.model_features(case.model))
            for obj in case.objs:
                cfg = bc.gen_config(ctx, case.model, case.loaded, obj, allow_default_ns=case.default_ns)
                writer = rng.choice(bc.WRITERS)
                for _ in range(2):
                    check(ctx, case.model, case.style, case.loaded, obj, cfg, writer, rng.getrandbits(40), rng.choice(ENCODINGS))
                if rng.random() < 0.1:
                    check_rebound_prefix(ctx, rng.getrandbits(40))
                if rng.random() < 0.15:
                    check_xinclude(ctx, case.model, case.style, case.loaded, obj, cfg, writer, rng.getrandbits(40))
        finally:
            case.close()
