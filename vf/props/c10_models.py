"""Models of the C10 probe (module level, no postponed annotations: xsdata resolves the type hints from the module)."""

import dataclasses as dc
from typing import Optional, Union


@dc.dataclass
class Leaf:
    n: Optional[int] = dc.field(default=None, metadata={"type": "Element"})


@dc.dataclass
class A:
    x: Optional[Leaf] = dc.field(default=None, metadata={"type": "Element"})
    a: Optional[str] = dc.field(default=None, metadata={"type": "Element"})


@dc.dataclass
class B:
    x: Optional[Leaf] = dc.field(default=None, metadata={"type": "Element"})
    b: Optional[str] = dc.field(default=None, metadata={"type": "Element"})


@dc.dataclass
class Root:
    u: Optional[Union[A, B]] = dc.field(default=None, metadata={"type": "Element"})
    p: Optional[A] = dc.field(default=None, metadata={"type": "Element"})
