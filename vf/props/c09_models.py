"""Hand-written models of C09's directed leg: one local type name in several namespaces, selected with xsi:type."""

import dataclasses as dc
from typing import List, Optional


@dc.dataclass
class Shape:
    class Meta:
        namespace = "urn:vf:c09:base"

    name: Optional[str] = dc.field(default=None, metadata={"type": "Attribute"})


@dc.dataclass
class FigureOne(Shape):
    class Meta:
        namespace = "urn:vf:c09:one"
        name = "Figure"

    r: Optional[int] = dc.field(default=None, metadata={"type": "Attribute"})


@dc.dataclass
class FigureTwo(Shape):
    class Meta:
        namespace = "urn:vf:c09:two"
        name = "Figure"

    side: Optional[int] = dc.field(default=None, metadata={"type": "Attribute"})


@dc.dataclass
class FigureThree(Shape):
    class Meta:
        namespace = "urn:vf:c09:three"
        name = "Figure"

    edge: Optional[int] = dc.field(default=None, metadata={"type": "Attribute"})


@dc.dataclass
class Drawing:
    class Meta:
        name = "drawing"

    shape: List[Shape] = dc.field(default_factory=list, metadata={"type": "Element"})
