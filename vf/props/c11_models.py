"""Wildcard placements for C11 (hand-written binding models)."""

from dataclasses import dataclass, field
from typing import Dict, List, Optional

P = "urn:vf:c11:p"
Q = "urn:vf:c11:q"
HOST = "urn:vf:c11:host"


@dataclass
class Single:
    any: Optional[object] = field(default=None, metadata={"type": "Wildcard", "namespace": "##any"})


@dataclass
class Many:
    any: List[object] = field(default_factory=list, metadata={"type": "Wildcard", "namespace": "##any"})


@dataclass
class Mixed:
    content: List[object] = field(default_factory=list, metadata={"type": "Wildcard", "namespace": "##any", "mixed": True})


@dataclass
class Local:
    any: List[object] = field(default_factory=list, metadata={"type": "Wildcard", "namespace": "##local"})


@dataclass
class Other:
    class Meta:
        namespace = HOST

    any: List[object] = field(default_factory=list, metadata={"type": "Wildcard", "namespace": "##other"})


@dataclass
class Target:
    class Meta:
        namespace = P

    any: List[object] = field(default_factory=list, metadata={"type": "Wildcard", "namespace": "##targetNamespace"})


@dataclass
class Typed:
    head: str = field(default="h", metadata={"type": "Element"})
    any: List[object] = field(default_factory=list, metadata={"type": "Wildcard", "namespace": "##any"})
    foot: Optional[int] = field(default=None, metadata={"type": "Element"})
    attrs: Dict[str, str] = field(default_factory=dict, metadata={"type": "Attributes", "namespace": "##any"})


@dataclass
class Deep:
    child: Optional[Typed] = field(default=None, metadata={"type": "Element"})
    children: List[Typed] = field(default_factory=list, metadata={"type": "Element", "name": "kid"})
    any: Optional[object] = field(default=None, metadata={"type": "Wildcard", "namespace": "##any"})


@dataclass
class Item:
    v: Optional[int] = field(default=None, metadata={"type": "Element"})


@dataclass
class WithChoices:
    any: List[object] = field(
        default_factory=list,
        metadata={"type": "Wildcard", "namespace": "##any", "choices": ({"name": "num", "type": int}, {"name": "item", "type": Item})},
    )


@dataclass
class TwoWild:  # two namespace-restricted wildcards: the same local name may reach each of them
    first: List[object] = field(default_factory=list, metadata={"type": "Wildcard", "namespace": P})
    second: List[object] = field(default_factory=list, metadata={"type": "Wildcard", "namespace": "##local"})


PLACEMENTS = {"Single": Single, "Many": Many, "Mixed": Mixed, "Local": Local, "Other": Other, "Target": Target, "Typed": Typed, "Deep": Deep, "WithChoices": WithChoices, "TwoWild": TwoWild}
