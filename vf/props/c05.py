"""C05 — primitive values map to valid XSD lexical forms and back.

Monitor shape: reference model at the converter boundary (vf.lexical) + contract hooks on
ConverterFactory.serialize/deserialize. Value pools (edge cases) + seeded random values,
lexical-variant generators (padding, signs, leading zeros, `1.`/`.5`, E/e, INF/NaN, 1/0
booleans, base64 with line breaks, lower-case hex), candidate-type lists against the
documented priority order.
"""

from __future__ import annotations

import base64
import datetime as dt
import enum
import math
import struct
from decimal import Decimal
from xml.etree.ElementTree import QName

from vf import lexical as lx

ID = "C05"
LEVEL = "exploration"
RULE = (
    "cases = (direction, python type, format, value or lexical string[, candidate type list]); values from "
    "edge-case pools (integer width boundaries, float repr boundaries/subnormals/non-finite, Decimal exponents "
    "and signed zeros, XML text alphabets, byte strings 0..64 long, QNames with mapped/unmapped/default "
    "namespaces, enums over str/int/float/Decimal/QName/token lists, date/time/datetime with strftime formats) "
    "plus seeded random values. Non-trivial = the real converter was invoked and the independent oracle gave "
    "a definite expectation; distinct = distinct fingerprints of the whole case."
)
ASSUMPTIONS = [
    "oracle: vf/lexical.py (own transcription of XSD Part 2 lexical grammars); CPython float()/Decimal()/int() are trusted for the value of a string the grammar already accepted",
    "over-acceptance (strings outside the XSD lexical space that xsdata accepts) is not judged: the property does not forbid it",
    "non-finite Decimals have no xs:decimal form: only their round trip is demanded",
    "date/time/datetime with user formats: round trip only, years >= 1000 (platform strftime pads differently below)",
    "candidate lists are judged against the order printed in docs/models/types.md (transcribed in DOC_ORDER)",
]
MIN_DISTINCT = {"quick": 100000, "thorough": 1000000}
TIME = {"quick": 35, "thorough": 480}
REQUIRED_HOOKS = ("ConverterFactory.serialize", "ConverterFactory.deserialize")

_ctx = None
_hooked = False


def install_hooks(ctx):
    global _ctx, _hooked
    _ctx = ctx
    if _hooked:
        return
    _hooked = True
    from xsdata.formats import converter as cmod

    F = cmod.ConverterFactory
    orig_ser, orig_de = F.serialize, F.deserialize

    def serialize(self, value, **kw):
        out = orig_ser(self, value, **kw)
        _ctx.hook("ConverterFactory.serialize")
        if not (out is None and value is None) and not isinstance(out, str):
            _ctx.violation("hook/serialize-not-str", f"converter.serialize({value!r}) returned {type(out).__name__} {out!r}", {"fn": "noop", "args": []})
        return out

    def deserialize(self, value, types, **kw):
        _ctx.hook("ConverterFactory.deserialize")
        return orig_de(self, value, types, **kw)

    F.serialize = serialize
    F.deserialize = deserialize


def conv():
    from xsdata.formats.converter import converter

    return converter


def same(a, b):
    """NaN-aware, type-exact, signed-zero-aware equality for primitive values."""
    if type(a) is not type(b):
        return False
    if isinstance(a, float):
        if math.isnan(a) or math.isnan(b):
            return math.isnan(a) and math.isnan(b)
        return a == b and math.copysign(1, a) == math.copysign(1, b)
    if isinstance(a, Decimal):
        if a.is_nan() or b.is_nan():
            return a.is_nan() and b.is_nan() and a.is_snan() == b.is_snan()
        return a == b and a.is_signed() == b.is_signed()
    if isinstance(a, QName):
        return a.text == b.text
    if isinstance(a, (list, tuple)):
        return len(a) == len(b) and all(same(x, y) for x, y in zip(a, b))
    return a == b


# ----------------------------------------------------------------------------- enums used as subjects
class StrEnum_(enum.Enum):
    A = "alpha"
    B = "beta gamma"
    C = ""
    D = " padded "
    E = "true"
    F = "1"


class IntEnum_(enum.Enum):
    ONE = 1
    NEG = -7
    BIG = 2**70
    ZERO = 0


class FloatEnum_(enum.Enum):
    H = 0.5
    INF = float("inf")
    NINF = float("-inf")
    E = 1e22
    T = 0.1


class DecEnum_(enum.Enum):
    A = Decimal("1.50")
    B = Decimal("-0.001")
    C = Decimal("1E+3")


class QNameEnum_(enum.Enum):
    A = QName("{urn:e}a")
    B = QName("b")
    C = QName("{http://www.w3.org/2001/XMLSchema}int")


class TokensEnum_(enum.Enum):
    A = (1, 2, 3)
    B = (4,)
    C = (1, 2)


class StrTokensEnum_(enum.Enum):
    A = ("x", "y")
    B = ("x",)


class MixIntEnum_(enum.IntEnum):  # enumerations with a mixin type are enumerations too
    ONE = 1
    NEG = -7


class MixStrEnum_(str, enum.Enum):
    A = "alpha"
    B = "beta gamma"


class MixStrEnum311_(enum.StrEnum):
    A = "alpha"
    T = "true"


ENUMS = {e.__name__: e for e in (StrEnum_, IntEnum_, FloatEnum_, DecEnum_, QNameEnum_, TokensEnum_, StrTokensEnum_, MixIntEnum_, MixStrEnum_, MixStrEnum311_)}

DOC_ORDER = ["int", "bool", "float", "Decimal", "datetime", "date", "time", "XmlTime", "XmlDate", "XmlDateTime", "XmlDuration", "XmlPeriod", "QName", "str"]


def pytypes():
    from xsdata.models.datatype import XmlDate, XmlDateTime, XmlDuration, XmlPeriod, XmlTime

    return {
        "int": int, "bool": bool, "float": float, "Decimal": Decimal, "datetime": dt.datetime, "date": dt.date, "time": dt.time,
        "XmlTime": XmlTime, "XmlDate": XmlDate, "XmlDateTime": XmlDateTime, "XmlDuration": XmlDuration, "XmlPeriod": XmlPeriod,
        "QName": QName, "str": str, "bytes": bytes,
    }


# value <-> JSON-able spec (so witnesses replay exactly)
def enc(v):
    if isinstance(v, enum.Enum):  # (before int/str: members of mixin enumerations are ints/strs too)
        return {"e": [type(v).__name__, v.name]}
    if isinstance(v, bool) or v is None or isinstance(v, (int, str)):
        return v
    if isinstance(v, float):
        return {"f": v.hex()}
    if isinstance(v, Decimal):
        return {"d": str(v)}
    if isinstance(v, bytes):
        return {"b": v.hex()}
    if isinstance(v, QName):
        return {"q": v.text}
    if isinstance(v, enum.Enum):
        return {"e": [type(v).__name__, v.name]}
    if isinstance(v, dt.datetime):
        return {"dt": v.isoformat()}
    if isinstance(v, dt.date):
        return {"date": v.isoformat()}
    if isinstance(v, dt.time):
        return {"time": v.isoformat()}
    raise TypeError(type(v))


def dec(j):
    if not isinstance(j, dict):
        return j
    if "f" in j:
        return float.fromhex(j["f"])
    if "d" in j:
        return Decimal(j["d"])
    if "b" in j:
        return bytes.fromhex(j["b"])
    if "q" in j:
        return QName(j["q"])
    if "e" in j:
        return ENUMS[j["e"][0]][j["e"][1]]
    if "dt" in j:
        return dt.datetime.fromisoformat(j["dt"])
    if "date" in j:
        return dt.date.fromisoformat(j["date"])
    if "time" in j:
        return dt.time.fromisoformat(j["time"])
    raise TypeError(j)


# ----------------------------------------------------------------------------- oracle for serialized forms
def lexical_ok(v, s, fmt, ns_map):
    """Is s a valid XSD lexical form of v's datatype *denoting v*? Returns (ok, why)."""
    if isinstance(v, enum.Enum):
        v = v.value
        if isinstance(v, tuple):
            parts = s.split(" ")
            if len(parts) != len(v):
                return False, "token count"
            for p, x in zip(parts, v):
                ok, why = lexical_ok(x, p, fmt, ns_map)
                if not ok:
                    return ok, why
            return True, ""
    if isinstance(v, bool):
        return (s == ("true" if v else "false")), "xs:boolean canonical literal"
    if isinstance(v, int):
        return (lx.RE_INTEGER.match(s) is not None and int(s) == v), "xs:integer"
    if isinstance(v, float):
        r = lx.float_value(s) if s == lx.collapse(s) else None
        return (r is not None and same(r, v)), "xs:double"
    if isinstance(v, Decimal):
        if not v.is_finite():
            return True, "non-finite Decimal: no xs:decimal form exists (not judged)"
        r = lx.decimal_value(s) if s == lx.collapse(s) else None
        return (r is not None and r == v), "xs:decimal"
    if isinstance(v, bytes):
        r = lx.hex_value(s) if fmt == "base16" else lx.b64_value(s)
        return (r is not None and r == v and s == lx.collapse(s)), f"xs:{'hexBinary' if fmt == 'base16' else 'base64Binary'}"
    if isinstance(v, QName):
        if not lx.RE_QNAME.match(s):
            return False, "QName production"
        prefix, _, local = s.rpartition(":")
        text = v.text
        uri, loc = (text[1:].split("}", 1) if text.startswith("{") else (None, text))
        if loc != local:
            return False, "local part"
        bound = (ns_map or {}).get(prefix or None)
        if uri is None:
            return (not prefix and not bound), "no-namespace QName must be unprefixed with no default namespace in scope"
        return bound == uri, f"prefix {prefix!r} must be bound to {uri!r} (bound to {bound!r})"
    if isinstance(v, str):
        return s == v, "xs:string is the identity"
    return True, "not judged"


# ----------------------------------------------------------------------------- checks
def check_value(ctx, tname, jv, fmt=None, jmap=None):
    """serialize(v) is a valid lexical form denoting v; deserialize(serialize(v)) == v."""
    v = dec(jv)
    T = ENUMS.get(tname) or pytypes()[tname]
    ns_map = None if jmap is None else {(k or None): u for k, u in jmap}
    kw = {}
    if fmt is not None:
        kw["format"] = fmt
    if ns_map is not None:
        kw["ns_map"] = ns_map
    ctx.case("value", tname, jv, fmt, jmap)
    ctx.feature(f"value/{tname}{'/' + fmt if fmt and tname == 'bytes' else ''}")
    w = {"fn": "value", "args": [tname, jv, fmt, jmap]}
    c = conv()
    try:
        if isinstance(v, enum.Enum) and isinstance(v.value, tuple):
            # token-list enumerations reach the converter as a list of member values
            # (EventGenerator.encode_primitive -> EventHandler.encode_data)
            s = c.serialize(list(v.value), **kw)
        else:
            s = c.serialize(v, **kw)
    except Exception as e:  # noqa: BLE001
        ctx.violation(f"serialize-raises/{tname}", f"converter.serialize({v!r}, {kw}) raised {type(e).__name__}: {e}", w)
        return
    if not isinstance(s, str):
        ctx.violation(f"serialize-not-str/{tname}", f"converter.serialize({v!r}) -> {s!r}", w)
        return
    if tname not in ("datetime", "date", "time") and not (isinstance(v, QName) and ns_map is None and v.text.startswith("{")):
        # (without a prefix map a qualified name is written in the documented {uri}local text form, which is no XSD lexical form)
        ok, why = lexical_ok(v, s, fmt, ns_map)
        if not ok:
            ctx.violation(f"serialized-form-invalid/{tname}", f"converter.serialize({v!r}, {kw}) = {s!r} is not a valid lexical form of the value ({why})", w)
            return
    try:
        back = c.deserialize(s, [T], **kw)
    except Exception as e:  # noqa: BLE001
        ctx.violation(f"roundtrip-raises/{tname}", f"deserialize(serialize({v!r})={s!r}, [{tname}], {kw}) raised {type(e).__name__}: {e}", w)
        return
    if not same(back, v):
        ctx.violation(f"roundtrip-changed/{tname}", f"{v!r} -> {s!r} -> {back!r}", w)
        return
    # converter.test (used for default values and samples): the converter's own output must pass even the strict test
    # ("the string output also matches the input"), with or without surrounding XML whitespace
    if not isinstance(v, enum.Enum) and tname not in ("datetime", "date", "time"):
        for text in (s, f" {s}\n"):
            try:
                ok = c.test(text, [T], strict=True, **kw)
            except Exception as e:  # noqa: BLE001
                ctx.violation(f"strict-test-raises/{tname}", f"converter.test({text!r}, [{tname}], strict=True) raised {type(e).__name__}: {e}", w)
                break
            if not ok:
                ctx.violation(f"strict-test-rejects-own-output/{tname}", f"converter.test({text!r}, [{tname}], strict=True, {kw}) is False although serialize({v!r}) = {s!r}", w)
                break


def check_lexical(ctx, tname, s, jexp, fmt=None, jmap=None):
    """A valid XSD lexical form is accepted and yields the value XSD assigns."""
    exp = dec(jexp)
    T = ENUMS.get(tname) or pytypes()[tname]
    ns_map = None if jmap is None else {(k or None): u for k, u in jmap}
    kw = {}
    if fmt is not None:
        kw["format"] = fmt
    if ns_map is not None:
        kw["ns_map"] = ns_map
    ctx.case("lexical", tname, s, fmt, jmap)
    ctx.feature(f"lexical/{tname}{'/' + fmt if fmt and tname == 'bytes' else ''}")
    w = {"fn": "lexical", "args": [tname, s, jexp, fmt, jmap]}
    try:
        got = conv().deserialize(s, [T], **kw)
    except Exception as e:  # noqa: BLE001
        ctx.violation(f"valid-lexical-rejected/{tname}", f"converter.deserialize({s!r}, [{tname}], {kw}) raised {type(e).__name__}: {e}; XSD value is {exp!r}", w)
        return
    if not same(got, exp):
        ctx.violation(f"lexical-wrong-value/{tname}", f"converter.deserialize({s!r}, [{tname}], {kw}) = {got!r}; XSD assigns {exp!r}", w)


def check_candidates(ctx, s, tnames, fmt=None):
    """For a candidate list the documented priority order decides."""
    from xsdata.exceptions import ConverterError

    P = pytypes()
    c = conv()
    kw = {"format": fmt} if fmt else {}
    ctx.case("candidates", s, tuple(tnames), fmt)
    ctx.feature(f"candidates/{len(tnames)}")
    w = {"fn": "candidates", "args": [s, list(tnames), fmt]}
    ordered = sorted(tnames, key=DOC_ORDER.index)
    try:
        got_order = [t.__name__ for t in c.sort_types([P[t] for t in tnames])]
    except Exception as e:  # noqa: BLE001
        ctx.violation("candidates/sort-raises", f"sort_types({tnames}) raised {type(e).__name__}: {e}", w)
        return
    if got_order != ordered:
        ctx.violation("candidates/priority-order", f"sort_types({tnames}) = {got_order}, documented order gives {ordered}", w)
        return
    exp = ("error", None)
    for t in ordered:
        try:
            exp = ("ok", c.deserialize(s, [P[t]], **kw))
            break
        except ConverterError:
            continue
        except Exception as e:  # noqa: BLE001
            ctx.violation("candidates/unexpected-exception", f"deserialize({s!r}, [{t}]) raised {type(e).__name__}: {e}", w)
            return
    try:
        got = ("ok", c.deserialize(s, c.sort_types([P[t] for t in tnames]), **kw))
    except ConverterError:
        got = ("error", None)
    except Exception as e:  # noqa: BLE001
        ctx.violation("candidates/unexpected-exception", f"deserialize({s!r}, {tnames}) raised {type(e).__name__}: {e}", w)
        return
    if got[0] != exp[0] or (got[0] == "ok" and not same(got[1], exp[1])):
        ctx.violation("candidates/result", f"deserialize({s!r}, sorted {tnames}) = {got}; first success in documented order is {exp}", w)
        return
    # independent leg: when the oracle knows the value for the first accepting XSD type
    first = first_by_oracle(s, ordered)
    if first is not None and got[0] == "ok" and not same(got[1], first[1]):
        ctx.violation("candidates/oracle", f"deserialize({s!r}, {ordered}) = {got[1]!r}; oracle: first matching type {first[0]} with value {first[1]!r}", w)


def first_by_oracle(s, ordered):
    """Only defined when every type up to the first oracle-accepting one is oracle-decidable."""
    for t in ordered:
        if t == "int":
            v = lx.int_value(s)
        elif t == "bool":
            v = lx.bool_value(s)
        elif t == "float":
            v = lx.float_value(s)
        elif t == "Decimal":
            v = lx.decimal_value(s)
        elif t == "str":
            v = s
        else:
            return None  # not decided by this leg
        if v is not None:
            return t, v
        if t in ("int", "float", "Decimal") and s.strip() != lx.collapse(s):
            return None
        if t in ("int", "float", "Decimal", "bool"):
            # xsdata may legitimately accept more than XSD (e.g. "1_0", "Infinity", "nan"): undecidable here
            if not sure_rejected(t, s):
                return None
    return None


def sure_rejected(t, s):
    c = s.strip()
    if t == "bool":
        return c not in ("true", "false", "1", "0")
    # only characters that no python numeric parser accepts
    return not c or any(ch not in "0123456789+-.eE" for ch in c) and not any(k in c.lower() for k in ("inf", "nan", "_"))


def check_datatype(ctx, jv):
    """DataType.from_value(v) names a type whose value space contains v (ints: width ranges)."""
    from xsdata.models.enums import DataType

    v = dec(jv)
    ctx.case("datatype", jv)
    ctx.feature("datatype")
    d = DataType.from_value(v)
    w = {"fn": "datatype", "args": [jv]}
    if isinstance(v, bool):
        ok = d.code == "boolean"
    elif isinstance(v, int):
        rng = {"short": (-(2**15), 2**15 - 1), "int": (-(2**31), 2**31 - 1), "long": (-(2**63), 2**63 - 1), "integer": (None, None),
               "byte": (-128, 127), "unsignedByte": (0, 255), "unsignedShort": (0, 2**16 - 1), "unsignedInt": (0, 2**32 - 1), "unsignedLong": (0, 2**64 - 1),
               "nonNegativeInteger": (0, None), "positiveInteger": (1, None), "nonPositiveInteger": (None, 0), "negativeInteger": (None, -1)}.get(d.code)
        ok = rng is not None and (rng[0] is None or v >= rng[0]) and (rng[1] is None or v <= rng[1]) and d.type is int
    elif isinstance(v, float):
        if d.code == "float":
            ok = math.isnan(v) or math.isinf(v) or struct.unpack("f", struct.pack("f", v))[0] == v or abs(v) <= 3.4028234663852886e38
        else:
            ok = d.code == "double"
    else:
        ok = isinstance(v, d.type) or d.type is object
    if not ok:
        ctx.violation("datatype/value-space", f"DataType.from_value({v!r}) = {d.code}, whose value space excludes the value", w)
        return
    # the named type's converter must read the serialized value back
    if not isinstance(v, (bytes,)):
        try:
            s = conv().serialize(v)
            back = conv().deserialize(s, [d.type], format=d.format)
            if not same(back, v):
                ctx.violation("datatype/roundtrip", f"{v!r} as xs:{d.code}: {s!r} -> {back!r}", w)
        except Exception as e:  # noqa: BLE001
            ctx.violation("datatype/roundtrip-raises", f"{v!r} as xs:{d.code}: {type(e).__name__}: {e}", w)


def noop(ctx):
    pass


CHECKS = {"value": check_value, "lexical": check_lexical, "candidates": check_candidates, "datatype": check_datatype, "noop": noop}


def replay(witness, ctx):
    install_hooks(ctx)
    CHECKS[witness["fn"]](ctx, *witness["args"])


# ----------------------------------------------------------------------------- generators
INTS = [0, 1, -1, 7, -7, 127, 128, -128, -129, 255, 256, 2**15 - 1, 2**15, -(2**15), -(2**15) - 1, 2**16, 2**31 - 1, 2**31, -(2**31), -(2**31) - 1,
        2**32, 2**63 - 1, 2**63, -(2**63), -(2**63) - 1, 2**64, 10**30, -(10**30)]
FLOATS = [0.0, -0.0, 1.0, -1.0, 0.1, 0.5, 1e22, 1e21, 1e16, 1e15, 9999999999999998.0, 1e-7, 1e-5, 1e-4, 0.0001, 123456789.123456789, 5e-324, 2.2250738585072014e-308,
          1.7976931348623157e308, -1.7976931348623157e308, float("inf"), float("-inf"), float("nan"), 3.4028234663852886e38, 3.4028235e38, -1.175494351e-38, 1.175494351e-38, 1e100, 1.5e-10, float(2**53), 2**53 + 2.0]
DECIMALS = ["0", "-0", "1", "1.0", "1.50", "-1.5", "0.1", "1E+40", "1E-40", "-1.23E+5", "123456789012345678901234567890.123456789", "0E+3", "0E-7", "1E+3", "100", "0.000", "-0.0",
            "NaN", "sNaN", "Infinity", "-Infinity", "9" * 40, "0." + "0" * 30 + "1"]
TEXT_CHARS = "ab Z09&<>\"'\t\n]]>-_.:/#éЖ中 \u0085\U0001f600́ "
URIS = ["http://my-domain.com/ns", "urn:my-app:v1", "tag:example.com,2005:ns", "urn:a", "urn:b:c", "http://example.com/ns", "http://example.com/ns#frag", "http://www.w3.org/2001/XMLSchema", "http://www.w3.org/2001/XMLSchema-instance", "http://www.w3.org/XML/1998/namespace", "http://www.w3.org/1999/xlink", "x"]
LOCALS = ["a", "local", "_x", "a-b.c", "élément", "A1", "int", "x·y", "a\u0301b", "\u0939\u093f\u0928\u094d\u0926\u0940", "\u0e0a\u0e37\u0e48\u0e2d", "a\u203fb", "lang"]  # NameChar includes combining marks, vowel signs, U+203F
FORMATS = {
    "datetime": ["%Y-%m-%dT%H:%M:%S", "%d/%m/%Y %H:%M:%S", "%Y%m%d%H%M%S", "%Y-%m-%dT%H:%M:%S.%f", "%Y-%m-%dT%H:%M:%S%z"],
    "date": ["%Y-%m-%d", "%d.%m.%Y", "%Y%m%d", "%m/%d/%Y"],
    "time": ["%H:%M:%S", "%H.%M.%S", "%H:%M:%S.%f", "%H%M%S", "%H:%M:%S%z"],
}


def rand_float(rng):
    m = rng.randrange(10)
    if m < 3:
        return rng.choice(FLOATS)
    if m < 6:
        return struct.unpack("d", struct.pack("Q", rng.getrandbits(64)))[0]
    if m < 8:
        return rng.uniform(-1e6, 1e6)
    return float(f"{rng.randrange(1, 10**rng.randrange(1, 18))}e{rng.randrange(-330, 310)}")


def rand_decimal(rng):
    if rng.random() < 0.3:
        return Decimal(rng.choice(DECIMALS))
    sign = rng.choice(["", "-"])
    digits = str(rng.randrange(10 ** rng.randrange(1, 30)))
    exp = rng.randrange(-45, 45)
    return Decimal(f"{sign}{digits}E{exp}")


def rand_text(rng):
    n = rng.choice([0, 1, 2, 5, 12, 40])
    return "".join(rng.choice(TEXT_CHARS) for _ in range(n))


def rand_map(rng, must=None):
    """A prefix map as list of [prefix, uri] (JSON-able); '' = default namespace."""
    m = []
    prefixes = ["", "a", "b", "ns0", "ns1", "xs", "p1", "q"]
    rng.shuffle(prefixes)
    for pfx in prefixes[: rng.randrange(0, 5)]:
        m.append([pfx, rng.choice(URIS)])
    if must and rng.random() < 0.6:
        m.append([rng.choice(["m", "ns9", "zz"]), must])
    return m


def int_variants(rng, v):
    s = str(v)
    out = [s, " " + s, s + "\n", "\t" + s + " "]
    if v >= 0:
        out += ["+" + s, "00" + s, "+000" + s]
    else:
        out += ["-00" + s[1:]]
    if v == 0:
        out += ["-0", "+0", "000"]
    return out


def float_variants(rng, v):
    if math.isnan(v):
        return ["NaN", " NaN "]
    if math.isinf(v):
        return ["INF" if v > 0 else "-INF", " INF " if v > 0 else "\n-INF"]
    r = repr(v)
    out = [r, r.upper(), r.replace("e+", "e").replace("E+", "E"), " " + r + " "]
    if "e" not in r and "E" not in r:
        if r.endswith(".0"):
            out += [r[:-1], r[:-2], r + "00", "+" + r if v >= 0 and not r.startswith("-") else r]
        if r.startswith("0."):
            out += [r[1:], "+" + r[1:]]
        if r.startswith("-0."):
            out += ["-" + r[2:]]
        out += [r + "e0", r + "E+0", r + "E-0", "0" + r if not r.startswith("-") else "-0" + r[1:]]
    else:
        mant, _, ex = r.lower().partition("e")
        out += [f"{mant}E{int(ex)}", f"{mant}e{int(ex):+03d}", f"+{mant}e{ex}" if not mant.startswith("-") else f"{mant}e{ex}"]
    return out


def decimal_variants(rng, v):
    if not v.is_finite():
        return []
    s = f"{v:f}"
    out = [s, " " + s + " ", "\n" + s]
    if not s.startswith("-"):
        out += ["+" + s, "0" + s]
    if "." in s:
        out += [s + "0", s.rstrip("0") if s.rstrip("0")[-1] != "." else s.rstrip("0") + "0"]
        if s.startswith("0."):
            out.append(s[1:])
        if s.startswith("-0."):
            out.append("-" + s[2:])
        if set(s.split(".")[1]) <= {"0"}:
            out += [s.split(".")[0] + ".", s.split(".")[0]]
    else:
        out += [s + ".", s + ".0", s + ".000"]
    return out


def b64_variants(rng, b):
    s = base64.b64encode(b).decode()
    out = [s]
    if len(s) >= 8:
        k = rng.randrange(1, len(s))
        out += [s[:k] + "\n" + s[k:], s[:k] + " " + s[k:], " ".join(s), "\r\n".join(s[i : i + 4] for i in range(0, len(s), 4)), " " + s + "\n"]
    elif s:
        out += [" " + s, s + "\n"]
    return out


def probe_unqualified_qname_under_default_namespace():
    """Known finding: a QName without namespace is written as a bare local name even when the prefix map has a
    default namespace, where that spelling denotes another name. Counterfactual: without the default namespace
    the same value round-trips."""
    c = conv()
    m = {None: "urn:x"}
    s = c.serialize(QName("foo"), ns_map=dict(m))
    back = c.deserialize(s, [QName], ns_map=dict(m))
    s2 = c.serialize(QName("foo"), ns_map={"p": "urn:x"})
    back2 = c.deserialize(s2, [QName], ns_map={"p": "urn:x"})
    return back.text != "foo" and back2.text == "foo"


def run_shard(ctx):
    install_hooks(ctx)
    rng = ctx.rng
    if ctx.shard == 0:
        ctx.evals()
        try:
            if probe_unqualified_qname_under_default_namespace():
                ctx.known_finding("C05/unqualified-qname-under-default-namespace")
        except Exception as e:  # noqa: BLE001
            ctx.inconc(f"probe failed to run: {type(e).__name__}: {e}")
    n = ctx.per_shard(ctx.pick(600000, 12000000))
    min_d = MIN_DISTINCT[ctx.tier] // ctx.nshards + 1
    P = pytypes()
    i = 0
    # fixed pools first (partitioned)
    for k, v in enumerate(INTS):
        if ctx.mine(k):
            check_value(ctx, "int", v)
            check_datatype(ctx, v)
            for s in int_variants(rng, v):
                check_lexical(ctx, "int", s, v)
    for k, v in enumerate(FLOATS):
        if ctx.mine(k):
            check_value(ctx, "float", enc(v))
            check_datatype(ctx, enc(v))
            for s in float_variants(rng, v):
                check_lexical(ctx, "float", s, enc(v))
    for k, d in enumerate(DECIMALS):
        if ctx.mine(k):
            v = Decimal(d)
            check_value(ctx, "Decimal", enc(v))
            for s in decimal_variants(rng, v):
                check_lexical(ctx, "Decimal", s, enc(Decimal(lx.collapse(s))))
    for k, (name, E) in enumerate(sorted(ENUMS.items())):
        if ctx.mine(k):
            for m in E:
                jmap = [["e", "urn:e"], ["xs", "http://www.w3.org/2001/XMLSchema"]] if name == "QNameEnum_" else None
                check_value(ctx, name, enc(m), None, jmap)
    for b in (True, False):
        check_value(ctx, "bool", b)
        for s in (["true", "1", " true", "1\n", "\ttrue "] if b else ["false", "0", " false ", "0 ", "\r\nfalse"]):
            check_lexical(ctx, "bool", s, b)

    while i < n and (ctx.time_left() > 0 or len(ctx.fingerprints) < min_d):
        i += 1
        m = rng.randrange(12)
        if m == 0:
            v = rng.choice(INTS) if rng.random() < 0.2 else rng.randrange(-(10 ** rng.randrange(1, 40)), 10 ** rng.randrange(1, 40))
            check_value(ctx, "int", v)
            check_lexical(ctx, "int", rng.choice(int_variants(rng, v)), v)
            if i % 7 == 0:
                check_datatype(ctx, v)
        elif m in (1, 2):
            v = rand_float(rng)
            check_value(ctx, "float", enc(v))
            s = rng.choice(float_variants(rng, v))
            ev = lx.float_value(s)
            if ev is not None:
                check_lexical(ctx, "float", s, enc(ev))
            if i % 7 == 0:
                check_datatype(ctx, enc(v))
        elif m == 3:
            v = rand_decimal(rng)
            check_value(ctx, "Decimal", enc(v))
            vs = decimal_variants(rng, v)
            if vs:
                s = rng.choice(vs)
                ev = lx.decimal_value(s)
                if ev is not None:
                    check_lexical(ctx, "Decimal", s, enc(ev))
        elif m == 4:
            v = rand_text(rng)
            check_value(ctx, "str", v)
            check_lexical(ctx, "str", v, v)
        elif m in (5, 6):
            b = rng.randbytes(rng.choice([0, 1, 2, 3, 4, 5, 16, 33, 64, rng.randrange(65)]))
            fmt = rng.choice(["base16", "base64"])
            check_value(ctx, "bytes", enc(b), fmt)
            if fmt == "base16":
                h = b.hex()
                for s in {h, h.upper(), " " + h, h + "\n", "".join(rng.choice([c.upper(), c]) for c in h)}:
                    check_lexical(ctx, "bytes", s, enc(b), fmt)
            else:
                for s in b64_variants(rng, b):
                    if lx.b64_value(s) is not None:
                        check_lexical(ctx, "bytes", s, enc(b), fmt)
                    else:
                        ctx.drop("base64 variant outside XSD lexical space")
        elif m in (7, 8):
            uri = rng.choice(URIS + [None])
            local = rng.choice(LOCALS)
            q = QName(f"{{{uri}}}{local}") if uri else QName(local)
            jmap = rand_map(rng, uri)
            if uri is None:
                jmap = [e for e in jmap if e[0] != ""]  # a default namespace would capture an unprefixed QName: not representable
            check_value(ctx, "QName", enc(q), None, jmap)
            if rng.random() < 0.3:
                check_value(ctx, "QName", enc(q), None, None)  # without a prefix map the text form is {uri}local
            if rng.random() < 0.1:
                # the prefix xml is bound by definition, in every document and with every map
                xl = rng.choice(["lang", "space", "base", "id"])
                check_lexical(ctx, "QName", rng.choice([f"xml:{xl}", f" xml:{xl}", f"xml:{xl}\n"]), enc(QName(f"{{http://www.w3.org/XML/1998/namespace}}{xl}")), None, [e for e in rand_map(rng) if e[0] != "xml"])
            # lexical direction: choose a prefix bound to the uri in a map we control
            if uri:
                pfx = rng.choice(["p", "ns0", "xs", "é"])
                jm = [e for e in rand_map(rng) if e[0] != pfx] + [[pfx, uri]]
                s = f"{pfx}:{local}"
                check_lexical(ctx, "QName", rng.choice([s, " " + s, s + "\n"]), enc(q), None, jm)
                jm2 = [e for e in jm if e[0] != ""] + [["", uri]]
                check_lexical(ctx, "QName", local, enc(q), None, jm2)
            else:
                check_lexical(ctx, "QName", local, enc(q), None, [e for e in rand_map(rng) if e[0] != ""])
        elif m == 9:
            name = rng.choice(sorted(ENUMS))
            mem = rng.choice(list(ENUMS[name]))
            jmap = rand_map(rng, "urn:e") if name == "QNameEnum_" else None
            if jmap is not None:
                jmap = [e for e in jmap if e[0] != ""]
            check_value(ctx, name, enc(mem), None, jmap)
            # alternative spellings of enum values
            val = mem.value
            if name == "IntEnum_":
                check_lexical(ctx, name, rng.choice(int_variants(rng, val)), enc(mem))
            elif name == "FloatEnum_":
                check_lexical(ctx, name, rng.choice(float_variants(rng, val)), enc(mem))
            elif name == "DecEnum_":
                check_lexical(ctx, name, rng.choice(decimal_variants(rng, val)), enc(mem))
            elif name == "TokensEnum_":
                sep = rng.choice([" ", "  ", "\n", " \t "])
                check_lexical(ctx, name, rng.choice(["", " "]) + sep.join(rng.choice(int_variants(rng, x)).strip() for x in val) + rng.choice(["", "\n"]), enc(mem))
            elif name == "StrTokensEnum_":
                check_lexical(ctx, name, rng.choice([" ", "\n", "  "]).join(val), enc(mem))
        elif m == 10:
            kind = rng.choice(["datetime", "date", "time"])
            fmt = rng.choice(FORMATS[kind])
            y, mo, d = rng.randrange(1000, 9999), rng.randrange(1, 13), rng.randrange(1, 29)
            h, mi, s_, us = rng.randrange(24), rng.randrange(60), rng.randrange(60), rng.choice([0, rng.randrange(10**6)])
            if "%f" not in fmt:
                us = 0
            if kind == "datetime":
                tz = dt.timezone(dt.timedelta(minutes=rng.choice([0, 60, -330, 840]))) if "%z" in fmt else None
                v = dt.datetime(y, mo, d, h, mi, s_, us, tzinfo=tz)
            elif kind == "date":
                v = dt.date(y, mo, d)
            else:
                v = dt.time(h, mi, s_, us, tzinfo=dt.timezone(dt.timedelta(minutes=rng.choice([0, 60, -330, 840]))) if "%z" in fmt else None)
            check_value(ctx, kind, enc(v), fmt)
            # surrounding whitespace is not part of the value, with or without a format
            check_lexical(ctx, kind, rng.choice([" ", "\n", "\t "]) + v.strftime(fmt) + rng.choice(["", " ", "\r\n"]), enc(v), fmt)
        else:
            pool = rng.sample(DOC_ORDER, rng.randrange(2, 6))
            pool = [t for t in pool if t not in ("datetime", "date", "time")] or ["int", "str"]
            src = rng.randrange(8)
            if src == 0:
                s = rng.choice(int_variants(rng, rng.choice(INTS)))
            elif src == 1:
                s = rng.choice(float_variants(rng, rand_float(rng)))
            elif src == 2:
                s = rng.choice(["true", "false", "1", "0", " true "])
            elif src == 3:
                vs = decimal_variants(rng, rand_decimal(rng))
                s = rng.choice(vs) if vs else "1.0"
            elif src == 4:
                s = rng.choice(["2002-01-01", "2002-01-01T10:00:00Z", "10:00:00", "P1Y", "PT1M", "2002", "--02", "---31", "2002-02", "--02-29", "13:20:00-05:00", "2002-01-01+02:00"])
            elif src == 5:
                s = rng.choice(["a:b", "xs:int", "local", "{urn:a}b", "_x"])
            else:
                s = rand_text(rng)
            check_candidates(ctx, s, pool)
    ctx.sample({"check": "value", "type": "float", "value": "1e+22", "expects": "1E22 (valid xs:double, parses back)"})
    ctx.sample({"check": "lexical", "type": "bytes/base64", "input": "YW Jj\\nZGVm", "expects": "b'abcdef'"})
    ctx.sample({"check": "candidates", "input": "1", "types": ["str", "bool", "int"], "expects": "int 1 (documented order int < bool < str)"})
    ctx.sample({"check": "value", "type": "QName", "value": "{urn:a}local", "ns_map": [["ns0", "urn:b"]], "expects": "prefix bound to urn:a in the map after the call"})
