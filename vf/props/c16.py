"""C16 — generated classes are faithful to the DTD they came from.

Monitor shape: independent validators + reference infoset per generated program. A seeded DTD (vf/dtdgen.py
IR) goes through the real generator in a subprocess; DTD-valid documents written by the harness from the
same IR (minimal / maximal / random walks of the content models; validated by libxml2's DTD validator
before use) are parsed in a fresh interpreter into the generated classes under the strictest settings and
serialized again. The reference is libxml2's own reading of the input *with the DTD loaded* (attribute
defaults and #FIXED values materialised, attribute values normalised by their declared type); the output
must show the same elements, attributes and values, and - where repetition is confined to single elements
and choices of single elements, with compound fields on - the same element order and DTD validity.
"""

from __future__ import annotations

import json
import os
import random
import shutil
import tempfile

from lxml import etree

from vf import dtdgen, gen
from vf.props.c02 import POST_SCRIPT, norm

ID = "C16"
LEVEL = "exploration"
RULE = (
    "case = (DTD, option set, document). DTDs from the IR generator: 2-6 element declarations (EMPTY, ANY, #PCDATA, mixed, sequences and "
    "choices with ? * + nested <= 2), attribute lists (CDATA, ID, IDREF(S), NMTOKEN(S), enumerations; #REQUIRED, #IMPLIED, #FIXED, "
    "defaults; xml:lang), optional default or prefixed namespace declared through #FIXED xmlns attributes. Documents: minimal / maximal / "
    "random walks of the content models, all validated against the DTD by libxml2 before use. Non-trivial = at least 3 elements or "
    "attributes; distinct = distinct (DTD bytes, document bytes, option set)."
)
ASSUMPTIONS = [
    "libxml2's DTD validator decides validity; libxml2 with load_dtd + attribute_defaults gives the reference infoset (defaults/#FIXED materialised, tokenised attribute types normalised)",
    "codegen stand-ins of /verif/shims",
    "parameter entities, conditional sections, notations and unparsed entities are not generated",
]
MIN_DISTINCT = {"quick": 300, "thorough": 8000}
TIME = {"quick": 45, "thorough": 1200}
SHARDS = {"quick": 14, "thorough": 14}
REQUIRED_FEATURES = ["fragment:ordered", "fragment:general", "doc:minimal", "doc:maximal", "doc:random"]


def gen_options(rng, compound):
    cfg = {"output.compound_fields.enabled": compound}
    if rng.random() < 0.5:
        cfg["output.structure_style"] = rng.choice(["filenames", "single-package", "clusters"])
    for k, p in (("output.unnest_classes", 0.3), ("output.format.slots", 0.25), ("output.generic_collections", 0.25)):
        if rng.random() < p:
            cfg[k] = True
    if rng.random() < 0.25 and not cfg.get("output.generic_collections"):
        cfg["output.format.frozen"] = True
    return cfg


class Ref:
    """DTD-aware reading of a document by libxml2 (not by xsdata)."""

    def __init__(self, d: dtdgen.Dtd, dtd_text: str):
        self.d = d
        self.dir = tempfile.mkdtemp(prefix="xsdata-verif-c16-")
        self.path = os.path.join(self.dir, "main.dtd")
        with open(self.path, "w", encoding="utf-8") as f:
            f.write(dtd_text)
        self.dtd = etree.DTD(self.path)
        dg = dtdgen.DocGen(d, random.Random(0))
        self.kinds = {dg.qname(e.name): e.kind for e in d.elements}
        self.root_name = d.elements[0].name

    def close(self):
        shutil.rmtree(self.dir, ignore_errors=True)

    def valid(self, data: bytes):
        try:
            return self.dtd.validate(etree.fromstring(data))
        except Exception:  # noqa: BLE001
            return False

    def with_defaults(self, data: bytes):
        """The document as libxml2 reads it with the DTD attached (defaults applied)."""
        body = data.split(b"?>", 1)[1] if data.startswith(b"<?xml") else data
        doc = f'<!DOCTYPE {self.root_name} SYSTEM "{self.path}">\n'.encode() + body
        parser = etree.XMLParser(load_dtd=True, attribute_defaults=True, dtd_validation=False, no_network=True, resolve_entities=False)
        return etree.fromstring(doc, parser)

    def canon(self, el, ordered):
        kind = self.kinds.get(el.tag, "ANY")
        attrs = tuple(sorted((k, v) for k, v in el.attrib.items()))
        kids = [self.canon(c, ordered) for c in el if isinstance(c.tag, str)]
        texts = [el.text or ""] + [c.tail or "" for c in el if isinstance(c.tag, str)]
        if kind in ("CHILDREN", "EMPTY"):
            value = ()
        elif kind == "PCDATA":
            value = ("text", "".join(texts))
        else:  # MIXED / ANY: the text chunks (ordered only when the children are)
            chunks = [t.strip() for t in texts if t.strip()]
            value = ("mixed", tuple(chunks if ordered else sorted(chunks)))
        if not ordered:
            kids = sorted(kids, key=repr)
        return (el.tag, attrs, value, tuple(kids))


def first_diff(a, b, path="/"):
    if a == b:
        return None
    p = f"{path}{a[0].rsplit('}', 1)[-1]}"
    if a[0] != b[0]:
        return f"{path}: element {a[0]} vs {b[0]}"
    if a[1] != b[1]:
        da, db = dict(a[1]), dict(b[1])
        for k in sorted(set(da) | set(db)):
            if da.get(k) != db.get(k):
                return f"{p}/@{k.rsplit('}', 1)[-1]}: attribute {da.get(k)!r} vs {db.get(k)!r}"
    if a[2] != b[2]:
        return f"{p}: value {a[2]!r} vs {b[2]!r}"
    if len(a[3]) != len(b[3]):
        return f"{p}: children {[k[0].rsplit('}', 1)[-1] for k in a[3]]} vs {[k[0].rsplit('}', 1)[-1] for k in b[3]]}"
    for x, y in zip(a[3], b[3]):
        d = first_diff(x, y, p + "/")
        if d:
            return d
    return f"{p}: ?"


def check(ctx, seed):
    rng = random.Random(seed)
    salt = f"c16x{seed % 100000}"
    try:
        # DTDs that declare a namespace (#FIXED xmlns attribute on the root) are the open known finding
        # C16/namespace-of-dtd-not-applied-to-children (probe below): kept out of the population
        d = dtdgen.DtdGen(rng, salt, hostile=False, namespaces=False).dtd()
        text = dtdgen.render(d)
        ref = Ref(d, text)
    except Exception as e:  # noqa: BLE001
        ctx.drop(f"DTD generator produced a DTD libxml2 does not load: {type(e).__name__}: {e}")
        return
    try:
        _check(ctx, seed, rng, d, text, ref)
    finally:
        ref.close()


def _check(ctx, seed, rng, d, text, ref):
    ordered_fragment = d.order_preserving
    compound = True if ordered_fragment and rng.random() < 0.8 else rng.random() < 0.5
    ordered = ordered_fragment and compound
    cfg = gen_options(rng, compound)
    w = {"fn": "check", "seed": seed}
    ctx.feature("fragment:ordered" if ordered else "fragment:general", *[f"dtd:{f}" for f in d.features], *[f"opt:{k}={v}" for k, v in cfg.items()])
    docs, modes = [], []
    for mode in ("minimal", "maximal", "random", "random", "random"):
        try:
            data = dtdgen.DocGen(d, rng, mode).document()
        except Exception as e:  # noqa: BLE001
            ctx.drop(f"document generator failed: {type(e).__name__}: {e}")
            continue
        if not ref.valid(data):
            ctx.drop("document generator produced an instance libxml2 finds invalid")
            ctx.extra["instances_rejected_by_libxml2"] = ctx.extra.get("instances_rejected_by_libxml2", 0) + 1
            continue
        if data not in docs:
            docs.append(data)
            modes.append(mode)
    if not docs:
        return
    res = gen.generate({"main.dtd": text}, entry=["main.dtd"], config=cfg, route="api", hashseed=0, timeout=240, hooks=False)
    if res.status in ("timeout", "crash"):
        ctx.inconc(f"generation {res.status} (seed {seed})")
        return
    if res.status != "ok":
        ctx.violation(f"generation-fails/{res.exc_type}/{norm(res.message)}", f"{res.exc_type}: {res.message}\n{(res.traceback or '')[-1200:]}\noptions={cfg}\n{text[:1500]}", w)
        return
    run = gen.run_in_package(res.files, POST_SCRIPT, args={"modules": gen.package_modules(res.files), "docs": [x.decode("latin-1") for x in docs]}, timeout=240)
    if run.status == "timeout":
        ctx.inconc(f"post-check watchdog fired (seed {seed})")
        return
    if run.status != "ok":
        ctx.violation(f"import-fails/{run.exc_type}/{norm(run.message)}", f"{run.exc_type}: {run.message}\n{run.stderr[-1200:]}\noptions={cfg}\n{text[:1500]}", w)
        return
    for i, (data, mode) in enumerate(zip(docs, modes)):
        r = run.result[i]
        ctx.feature(f"doc:{mode}")
        n_nodes = sum(1 + len(e.attrib) for e in etree.fromstring(data).iter() if isinstance(e.tag, str))
        ctx.case(text, data, json.dumps(cfg, sort_keys=True), nontrivial=n_nodes >= 3)
        ctx.evals()
        shown = f"options={cfg}\n--- document ({mode})\n{data.decode('utf-8', 'replace')[:1200]}\n--- main.dtd\n{text[:2000]}"
        if "parse_error" in r:
            ctx.violation(f"valid-document-rejected/{norm(r['parse_error'])}", f"{r['handler']}: {r['parse_error']}\n{r.get('traceback', '')[-900:]}\n{shown}", {**w, "doc": i})
            continue
        if "render_error" in r:
            ctx.violation(f"serialize-fails/{norm(r['render_error'])}", f"{r['render_error']}\n{shown}", {**w, "doc": i})
            continue
        out = r["out"].encode("utf-8")
        try:
            want = ref.canon(ref.with_defaults(data), ordered)
            got_tree = etree.fromstring(out)
            got = ref.canon(got_tree, ordered)
        except Exception as e:  # noqa: BLE001
            ctx.violation(f"output-not-interpretable/{type(e).__name__}", f"{type(e).__name__}: {e}\n--- output\n{r['out'][:1200]}\n{shown}", {**w, "doc": i})
            continue
        if want != got:
            dd = first_diff(want, got)
            ctx.violation(f"not-faithful/{dd.split(':')[1].strip().split(' ')[0]}/{norm(dd)}", f"{dd}\n--- output\n{r['out'][:1200]}\n{shown}", {**w, "doc": i})
            continue
        # DTD validity is prefix- and placement-sensitive for namespace declarations (xmlns:* must be declared for the
        # very element that carries it): where the DTD declares attribute namespaces only faithfulness and order are judged
        if ordered and not d.attr_ns and not ref.valid(out):
            ctx.violation(f"output-not-dtd-valid/{norm(ref.dtd.error_log.last_error.message if ref.dtd.error_log else '?')}", f"{ref.dtd.error_log.last_error if ref.dtd.error_log else ''}\n--- output\n{r['out'][:1200]}\n{shown}", {**w, "doc": i})
    ctx.extra["documents"] = ctx.extra.get("documents", 0) + len(docs)
    if len(ctx.samples) < 2:
        ctx.sample({"dtd": text[:700], "document": docs[-1].decode("utf-8", "replace")[:400], "output": run.result[-1].get("out", "")[:400], "options": cfg})


NS_DTD = '<!ELEMENT root (child1)>\n<!ATTLIST root xmlns CDATA #FIXED "http://www.example.com/">\n<!ELEMENT child1 (#PCDATA)>\n'
PLAIN_DTD = "<!ELEMENT root (child1)>\n<!ELEMENT child1 (#PCDATA)>\n"


def dtd_roundtrip(dtd_text, doc):
    res = gen.generate({"main.dtd": dtd_text}, entry=["main.dtd"], config={}, route="api", hooks=False, timeout=120)
    if res.status != "ok":
        return None
    run = gen.run_in_package(res.files, POST_SCRIPT, args={"modules": gen.package_modules(res.files), "docs": [doc]}, timeout=120)
    if run.status != "ok":
        return None
    return run.result[0]


def probe_namespace(ctx):
    """Known finding: the namespace a DTD declares on the root (upstream fixture default_namespace.dtd) only reaches the
    root class (Meta.target_namespace); its children are generated unqualified, so the DTD-valid document
    <root xmlns="..."><child1>x</child1></root> is rejected."""
    key = "C16/namespace-of-dtd-not-applied-to-children"
    ctx.evals()
    bad = dtd_roundtrip(NS_DTD, '<root xmlns="http://www.example.com/"><child1>x</child1></root>')
    good = dtd_roundtrip(PLAIN_DTD, "<root><child1>x</child1></root>")
    if bad is None or good is None:
        ctx.inconc(f"probe {key} could not run")
    elif "parse_error" in bad and "out" in good:
        ctx.known_finding(key)


MIXED_DTD = "<!ELEMENT root (#PCDATA|box)*>\n<!ELEMENT box ANY>\n<!ELEMENT leaf (#PCDATA)>\n"
MIXED_DTD_OK = "<!ELEMENT root (#PCDATA|box)*>\n<!ELEMENT box (leaf*)>\n<!ELEMENT leaf (#PCDATA)>\n"


def probe_tail(ctx):
    """Known finding: text that follows a child with mixed/ANY content inside a mixed parent is stored in the
    child's own content list and written back inside the child."""
    key = "C16/tail-after-mixed-child-moves-into-the-child"
    ctx.evals()
    doc = "<root>a<box><leaf>x</leaf></box>tail</root>"
    bad, good = dtd_roundtrip(MIXED_DTD, doc), dtd_roundtrip(MIXED_DTD_OK, doc)
    if bad is None or good is None or "out" not in good:
        ctx.inconc(f"probe {key} could not run")
        return
    def inner_text(r):
        box = etree.fromstring(r["out"].encode()).find("box")
        return "".join(box.itertext()) if box is not None else None
    if "out" in bad and "tail" in (inner_text(bad) or "") and "tail" not in (inner_text(good) or ""):
        ctx.known_finding(key)


WRAP_DTD = '<!ELEMENT info (row,note,data)>\n<!ELEMENT row (note+)>\n<!ELEMENT data EMPTY>\n<!ELEMENT note EMPTY>\n'


def probe_wrapper(ctx):
    """Known finding (wrapper_fields option, kept out of the option sets): the wrapper field for <row><note/>+</row> and the
    sibling element <note/> of the parent get the same element name; the parser routes the sibling into the wrapper's list."""
    key = "C16/wrapper-field-captures-sibling-of-the-same-name"
    ctx.evals()
    doc = "<info><row><note/></row><note/><data/></info>"

    def rt(cfg):
        res = gen.generate({"main.dtd": WRAP_DTD}, entry=["main.dtd"], config=cfg, route="api", hooks=False, timeout=120)
        if res.status != "ok":
            return None
        run = gen.run_in_package(res.files, POST_SCRIPT, args={"modules": gen.package_modules(res.files), "docs": [doc]}, timeout=120)
        return run.result[0] if run.status == "ok" else None

    bad, good = rt({"output.wrapper_fields": True}), rt({})
    if bad is None or good is None:
        ctx.inconc(f"probe {key} could not run")
    elif "parse_error" in bad and "out" in good:
        ctx.known_finding(key)


SEQ_IN_CHOICE_DTD = "<!ELEMENT unit (alpha|(leaf,head)|tail)>\n<!ELEMENT alpha EMPTY>\n<!ELEMENT leaf EMPTY>\n<!ELEMENT head EMPTY>\n<!ELEMENT tail EMPTY>\n"


def probe_seq_in_choice(ctx):
    """Known finding: a sequence that is one alternative of a choice is flattened into the choice; with compound fields
    the members share one single-valued field and the second one silently replaces the first."""
    key = "C16/sequence-inside-choice-collapses"
    ctx.evals()
    doc = "<unit><leaf/><head/></unit>"

    def rt(cfg):
        res = gen.generate({"main.dtd": SEQ_IN_CHOICE_DTD}, entry=["main.dtd"], config=cfg, route="api", hooks=False, timeout=120)
        if res.status != "ok":
            return None
        run = gen.run_in_package(res.files, POST_SCRIPT, args={"modules": gen.package_modules(res.files), "docs": [doc]}, timeout=120)
        return run.result[0] if run.status == "ok" else None

    bad, good = rt({"output.compound_fields.enabled": True}), rt({})
    if bad is None or good is None or "out" not in good:
        ctx.inconc(f"probe {key} could not run")
        return
    n = lambda r: len(etree.fromstring(r["out"].encode())) if "out" in r else -1  # noqa: E731
    if n(bad) != 2 and n(good) == 2:
        ctx.known_finding(key)


def run_shard(ctx):
    rng = ctx.rng
    if ctx.shard == 0:
        probe_namespace(ctx)
        probe_tail(ctx)
        probe_wrapper(ctx)
        probe_seq_in_choice(ctx)
    n = ctx.per_shard(ctx.pick(280, 8000))
    k = 0
    while k < n and (ctx.time_left() > 0 or len(ctx.fingerprints) < MIN_DISTINCT[ctx.tier] // ctx.nshards + 1):
        check(ctx, rng.getrandbits(40))
        k += 1


def replay(witness, ctx):
    check(ctx, witness["seed"])
