"""Hand-written models for C04: unions of classes that share key names and differ in the types of their fields (the
decoder has to try the candidates strictly; a value only one candidate converts decides)."""

from dataclasses import dataclass, field
from decimal import Decimal
from typing import List, Optional, Union


@dataclass
class Numbered:
    code: int = field(metadata={"type": "Element"})
    note: Optional[str] = field(default=None, metadata={"type": "Element"})


@dataclass
class Named:
    code: str = field(metadata={"type": "Element"})
    note: Optional[str] = field(default=None, metadata={"type": "Element"})


@dataclass
class Priced:
    code: Decimal = field(metadata={"type": "Element"})
    note: Optional[str] = field(default=None, metadata={"type": "Element"})


@dataclass
class Special(Numbered):  # a subclass of one member of the unions below (what xsi:type gives the xml parser)
    extra: Optional[str] = field(default=None, metadata={"type": "Element"})


@dataclass
class UnionHolder:
    item: Optional[Union[Numbered, Named]] = field(default=None, metadata={"type": "Element"})
    items: List[Union[Numbered, Priced, Named]] = field(default_factory=list, metadata={"type": "Element"})


@dataclass
class WildHolder:  # a single-valued wildcard: the parser stores text + children in a generic element without a name
    any_element: Optional[object] = field(default=None, metadata={"type": "Wildcard"})


@dataclass
class TokensHolder:
    # a non-repeating compound field with a tokens choice (what the generator emits for a choice of xs:int | xs:NMTOKENS)
    num_or_toks: Optional[Union[int, List[str]]] = field(
        default=None,
        metadata={"type": "Elements", "choices": ({"name": "num", "type": int}, {"name": "toks", "type": List[str], "default_factory": list, "tokens": True})},
    )
    opt_toks: Optional[List[int]] = field(default=None, metadata={"type": "Element", "tokens": True})


@dataclass
class WildGuest:  # a model that is no field type of WildHolder: inside a wildcard it is found by its (unique) property names
    vf_c04_guest_code: Optional[int] = field(default=None, metadata={"type": "Element"})
    vf_c04_guest_note: Optional[str] = field(default=None, metadata={"type": "Element"})


@dataclass
class WildList:
    items: List[object] = field(default_factory=list, metadata={"type": "Wildcard"})


def instances():
    from xsdata.formats.dataclass.models.generics import AnyElement

    return [
        TokensHolder(num_or_toks=["x", "y"]),
        TokensHolder(num_or_toks=7, opt_toks=[1, 2]),
        TokensHolder(),
        WildHolder(any_element=WildGuest(vf_c04_guest_code=3, vf_c04_guest_note="n")),
        WildList(items=[WildGuest(vf_c04_guest_code=1, vf_c04_guest_note="a"), AnyElement(qname="g", text="t"), WildGuest(vf_c04_guest_code=2, vf_c04_guest_note="b")]),
        WildHolder(any_element=AnyElement(qname=None, text="text", children=[AnyElement(qname="foo", text="")])),
        WildHolder(any_element=AnyElement(qname="named", text="t", tail=None, attributes={"k": "v"})),
        UnionHolder(item=Special(code=5, extra="e")),
        UnionHolder(items=[Special(code=1, extra="x"), Named(code="n")]),
        UnionHolder(item=Named(code="abc")),
        UnionHolder(item=Numbered(code=7)),
        UnionHolder(item=Named(code="x-1", note="n")),
        UnionHolder(items=[Numbered(code=1), Named(code="abc"), Priced(code=Decimal("1.5")), Named(code="1.5.1")]),
        UnionHolder(item=Numbered(code=0), items=[Priced(code=Decimal("-0.25"), note=""), Named(code="é")]),
    ]
