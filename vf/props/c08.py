"""C08 — all backends agree with each other.

Monitor shape: two (or more) executions compared.
 A. writers: XmlEventWriter vs LxmlEventWriter vs TreeSerializer for the same object/configuration
    -> infoset-identical (indentation aside; QName values compared after prefix resolution).
 B. handlers x sources: LxmlEventHandler vs XmlEventHandler on the same well-formed document,
    supplied as bytes, str, pathlib.Path, file name, binary file object, lxml tree/element,
    ElementTree tree/element -> equal objects (or the same failure class).
Documents: serializer output plus harness-written variants (vf/rewrite.py: other prefix layouts,
default namespaces re-declared at depth, references, CDATA, comments, PIs, encodings, BOM) plus
large mixed-content documents that cross the parsers' read buffers.
"""

from __future__ import annotations

import io
import os
import re
import random
import shutil
import tempfile
import warnings
import xml.etree.ElementTree as ET
from dataclasses import dataclass as _dc, field as _field
from pathlib import Path
from typing import List

from lxml import etree

from vf import bindcase as bc
from vf import ir, rewrite, xmlkit
from vf.props import c09
from vf.xmlkit import deep_eq

ID = "C08"
LEVEL = "exploration"
RULE = (
    "case A = (model, instance, configuration) rendered by both writers and the tree serializer; case B = (document, handler, "
    "source kind) with documents = serializer output and seeded harness rewrites of it, plus generated mixed-content documents "
    "of 20-200 KiB. Non-trivial = both backends ran and produced comparable results on a model with >= 2 fields; distinct = "
    "distinct (model structure, instance, configuration or document bytes, backend pair/source kind)."
)
ASSUMPTIONS = [
    "infoset comparison by libxml2 (vf/xmlkit.py); indentation whitespace ignored outside mixed content; QName values compared after resolving prefixes",
    "ElementTree tree/element sources lose prefixes (documented note in xml_parsing.md): documents with QName-valued content or xsi:type are not fed through them",
    "only well-formed documents (recover=True makes the lxml handler lenient on malformed input by design)",
]
MIN_DISTINCT = {"quick": 15000, "thorough": 250000}
TIME = {"quick": 45, "thorough": 600}
SOURCES = ["bytes", "str", "path", "filename", "fileobj", "lxml-tree", "lxml-element", "et-tree", "et-element", "lxml-inner-element", "et-inner-element", "et-tree-with-comments"]


def marks_for(loaded, obj, cfg, xml):
    marks = rewrite.load_with_scopes(xml.encode("utf-8"))
    exp = ir.Ref(loaded, ignore_default_attributes=cfg.get("ignore_default_attributes", False)).root(obj)
    rewrite.mark_leaves(marks, exp)
    return marks


def check_writers(ctx, model, style, loaded, obj, cfg):
    from xsdata.formats.dataclass.serializers import TreeSerializer
    from xsdata.formats.dataclass.serializers.config import SerializerConfig

    w = bc.witness(model, style, obj, cfg, fn="writers")
    outs = {}
    errs = {}
    for name in ("native", "lxml", "tree"):
        try:
            if name == "tree":
                sc = SerializerConfig(indent=cfg.get("indent"), ignore_default_attributes=cfg.get("ignore_default_attributes", False))
                outs[name] = etree.tostring(TreeSerializer(config=sc).render(obj, ns_map=bc.ns_map_of(cfg)), encoding="unicode")
            else:
                outs[name] = bc.render(loaded, obj, cfg, name)
        except Exception as e:  # noqa: BLE001
            errs[name] = e
    ctx.case("writers", bc.structure_fp(model), bc.obj_fp(model, obj), repr(cfg), nontrivial=sum(len(c.fields) for c in model.classes) >= 2)
    if errs:
        if len(errs) == 3 and len({type(e) for e in errs.values()}) == 1:
            ctx.drop("all writers raise the same error class (C03's business)")
            return None
        ctx.violation(f"writers-disagree/one-raises/{sorted(errs)}/{bc.short_exc(next(iter(errs.values())))}", f"{ {k: repr(v)[:200] for k, v in errs.items()} } while {sorted(outs)} produced output", w)
        return None
    try:
        marks = marks_for(loaded, obj, cfg, outs["native"])
    except ir.Unsupported:
        marks = None
    except Exception as e:  # noqa: BLE001
        ctx.drop(f"native output not parseable by libxml2 ({type(e).__name__}) - C03's business")
        return None
    means = {}
    for name, xml in outs.items():
        try:
            root = xmlkit.parse_strict(xml)
        except Exception as e:  # noqa: BLE001
            ctx.drop(f"{name} output not well-formed - C03's business")
            return None
        if marks is not None:
            means[name] = rewrite.meaning(root, marks)
        else:
            means[name] = xmlkit.infoset(root).canon("drop-ws-only" if cfg.get("indent") else "exact")
    base = means["native"]
    for name in ("lxml", "tree"):
        if means[name] != base:
            w["outputs"] = {k: v[:3000] for k, v in outs.items()}
            ctx.violation(f"writers-disagree/native-vs-{name}/{first_diff(base, means[name])}", f"native: {outs['native'][:900]}\n{name}: {outs[name][:900]}", w)
    return outs


def first_diff(a, b, depth=0):
    """Short structural tag of where two meaning tuples differ."""
    try:
        if a[0] != b[0]:
            return "element-name"
        if a[1] != b[1]:
            return "attributes"
        if a[2] != b[2]:
            return "character-data"
        if len(a[3]) != len(b[3]):
            return "child-count"
        for x, y in zip(a[3], b[3]):
            if x != y:
                if isinstance(x, tuple) and len(x) == 2 and isinstance(x[0], tuple) and len(x[0]) == 4:
                    return first_diff(x[0], y[0], depth + 1) if x[0] != y[0] else "tail"
                return first_diff(x, y, depth + 1)
    except Exception:  # noqa: BLE001
        pass
    return "other"


STR_DECODE = ["utf-8"]


def parse_source(data: bytes, clazz, handler, kind, tmpdir):
    """Parse one document through one handler from one kind of source."""
    from xsdata.exceptions import ConverterWarning

    p = bc.strict_parser(handler)
    with warnings.catch_warnings():
        warnings.simplefilter("error", ConverterWarning)
        if kind == "bytes":
            return p.from_bytes(data, clazz)
        if kind == "str":
            # the text of the document, whatever encoding its bytes were in (the declaration stays as it was written)
            return p.from_string(data.decode(STR_DECODE[0]), clazz)
        path = os.path.join(tmpdir, f"doc-{handler}-{kind}.xml")
        if kind in ("path", "filename", "fileobj"):
            with open(path, "wb") as f:
                f.write(data)
            if kind == "path":
                return p.from_path(Path(path), clazz)
            if kind == "filename":
                return p.parse(path, clazz)
            with open(path, "rb") as f:
                return p.parse(f, clazz)
        if kind == "lxml-tree":
            return p.parse(etree.ElementTree(etree.fromstring(data)), clazz)
        if kind == "lxml-element":
            return p.parse(etree.fromstring(data), clazz)
        if kind == "et-tree":
            return p.parse(ET.ElementTree(ET.fromstring(data)), clazz)
        if kind == "et-element":
            return p.parse(ET.fromstring(data), clazz)
        if kind == "et-tree-with-comments":
            # a tree that keeps comments and processing instructions as nodes (they split the character data)
            builder = ET.XMLParser(target=ET.TreeBuilder(insert_comments=True, insert_pis=True))
            builder.feed(data)
            return p.parse(builder.close(), clazz)
        if kind in ("lxml-inner-element", "et-inner-element"):
            # selective parsing: the document is one element of a larger tree, with siblings and tail text around it
            if kind.startswith("et-"):
                # ElementTree elements are plain objects: the parsed root can be hung into another tree as it is
                outer = ET.fromstring(b"<vf-outer>head<vf-sib/>between<vf-sib/>end</vf-outer>")
                inner = ET.fromstring(data)
                inner.tail = "tail text"
                outer.insert(1, inner)
                return p.parse(inner, clazz)
            # lxml moves namespace declarations around when an element changes documents: wrap the serialized root instead
            body = re.sub(rb"^<\?xml[^>]*\?>\s*", b"", etree.tostring(etree.fromstring(data), encoding="utf-8"))
            outer = etree.fromstring(b"<vf-outer>head<vf-sib/>" + body + b"tail text<vf-sib/>end</vf-outer>")
            return p.parse(outer[1], clazz)
    raise KeyError(kind)


def supported(handler, kind):
    if kind.startswith("lxml-"):
        return handler == "lxml"
    if kind.startswith("et-"):
        return handler == "native"
    return True


def check_handlers(ctx, data: bytes, clazz, has_q, utf8_plain, witness, label, model=None):
    tmp = tempfile.mkdtemp(prefix="xsdata-verif-c08-")
    results = {}
    try:
        for handler in bc.HANDLERS:
            for kind in SOURCES:
                if not supported(handler, kind):
                    continue
                if kind == "str" and not utf8_plain:
                    continue
                if kind.endswith("inner-element"):
                    try:  # the wrapper document is built by the harness: only from documents both libraries accept as they are
                        etree.fromstring(data)
                        ET.fromstring(data)
                    except Exception:  # noqa: BLE001
                        ctx.drop("inner-element source: document not well-formed for the tree builders")
                        continue
                if kind.startswith("et-") and has_q:
                    ctx.drop("ElementTree source with QName content (documented: prefixes are not kept)")
                    continue
                ctx.case("handlers", data, handler, kind, label)
                ctx.feature(f"source:{handler}/{kind}")
                try:
                    results[(handler, kind)] = ("ok", parse_source(data, clazz, handler, kind, tmp))
                except Exception as e:  # noqa: BLE001
                    results[(handler, kind)] = ("exc", e)
    finally:
        shutil.rmtree(tmp, ignore_errors=True)
    if not results:
        return
    ref_key = ("lxml", "bytes") if ("lxml", "bytes") in results else next(iter(results))
    ref = results[ref_key]
    for key, res in results.items():
        if key == ref_key:
            continue
        if res[0] != ref[0]:
            bad = res if res[0] == "exc" else ref
            ctx.violation(f"handlers-disagree/one-raises/{key[0]}-{key[1]}-vs-{ref_key[0]}-{ref_key[1]}/{bc.short_exc(bad[1])}",
                          f"{key}: {res[0]} {repr(res[1])[:300]}\n{ref_key}: {ref[0]} {repr(ref[1])[:300]}\n{data[:1200]!r}", witness)
            continue
        if res[0] == "exc":
            if type(res[1]) is not type(ref[1]):
                ctx.violation(f"handlers-disagree/exception-class/{key[0]}-{key[1]}", f"{key}: {res[1]!r} vs {ref_key}: {ref[1]!r}", witness)
            continue
        d = deep_eq(ref[1], res[1])
        if d:
            dk = bc.diff_key(model, ref[1], d) if model is not None else d.split(":")[0][-40:]
            ctx.violation(f"handlers-disagree/{key[0]}-{key[1]}-vs-{ref_key[0]}-{ref_key[1]}/{dk}", f"{d}\n{data[:1500]!r}", witness)


def big_mixed_document(rng, size_kb):
    """A mixed-content document larger than the parsers' read buffers; every tail is distinct."""
    parts = ["<Big>"]
    n = 0
    total = 0
    while total < size_kb * 1024:
        pad = "x" * rng.randrange(0, 40)
        # tails of all sizes: libxml2 hands long character data over in several pieces, and a piece can end at a
        # read-buffer boundary while the element's end event is already out
        long_tail = "y" * rng.choice([0, 0, 0, 0, 320, 900, 2500]) + ("z" * rng.randrange(0, 50) if rng.random() < 0.3 else "")
        piece = f"<e{n % 7} k=\"{n}\">{pad}{n}</e{n % 7}>t{n}{long_tail}{' ' * rng.randrange(0, 3)}"
        parts.append(piece)
        total += len(piece)
        n += 1
    parts.append("</Big>")
    return "".join(parts).encode(), n


@_dc
class Big:
    content: List[object] = _field(default_factory=list, metadata={"type": "Wildcard", "mixed": True})


def big_class():
    return Big


def check_big(ctx, seed, size_kb):
    rng = random.Random(seed)
    data, n = big_mixed_document(rng, size_kb)
    Big = big_class()
    w = {"fn": "big", "seed": seed, "size_kb": size_kb}
    ctx.feature("big-mixed-document")
    # independent expectation from libxml2's own (non-incremental) reading
    root = xmlkit.parse_strict(data)
    tails = [c.tail for c in root]
    tmp = tempfile.mkdtemp(prefix="xsdata-verif-c08-")
    try:
        for handler in bc.HANDLERS:
            for kind in ("bytes", "path", "fileobj"):
                ctx.case("big", seed, size_kb, handler, kind)
                try:
                    obj = parse_source(data, Big, handler, kind, tmp)
                except Exception as e:  # noqa: BLE001
                    ctx.violation(f"big/{handler}/{kind}/{bc.short_exc(e)}", f"{type(e).__name__}: {e}", w)
                    continue
                got = [x.tail for x in obj.content if not isinstance(x, str)]
                if got != tails:
                    bad = [i for i, (a, b) in enumerate(zip(got, tails)) if a != b][:5]
                    ctx.violation(f"big/{handler}/tails-differ-from-document", f"{len(bad)}+ tails differ, first at element indexes {bad}: got {[got[i] for i in bad]} expected {[tails[i] for i in bad]} (document {len(data)} bytes)", w)
    finally:
        shutil.rmtree(tmp, ignore_errors=True)


def replay(witness, ctx):
    if witness.get("fn") == "union-docs":
        check_union_documents(ctx)
        return
    if witness.get("fn") == "big":
        check_big(ctx, witness["seed"], witness["size_kb"])
        return
    model, loaded, obj = bc.from_witness(witness)
    try:
        if witness.get("fn") == "writers":
            check_writers(ctx, model, witness["style"], loaded, obj, witness["cfg"])
        else:
            run_handlers_for(ctx, model, witness["style"], loaded, obj, witness["cfg"], witness["writer"], witness["seed"], witness["encoding"])
    finally:
        loaded.unload()


def run_handlers_for(ctx, model, style, loaded, obj, cfg, writer, seed, encoding):
    xml = bc.render(loaded, obj, cfg, writer)
    w = bc.witness(model, style, obj, cfg, writer=writer, seed=seed, encoding=encoding, fn="handlers")
    has_q = c09.has_qname_content(loaded, obj, cfg, xml)
    check_handlers(ctx, xml.encode("utf-8"), type(obj), has_q, True, w, "own-output", model)
    # harness-written variant
    try:
        marks = marks_for(loaded, obj, cfg, xml)
    except Exception:  # noqa: BLE001
        return
    rng = random.Random(seed)
    o = rewrite.Opts(rng)
    try:
        data = rewrite.emit_doc(marks, o, encoding=encoding, bom=(encoding == "utf-8" and rng.random() < 0.3))
    except UnicodeEncodeError:
        return
    ok, _ = rewrite.same_meaning(xml.encode("utf-8"), data, marks)
    if not ok:
        ctx.drop("rewriter equivalence proof failed")
        return
    for a in o.applied:
        ctx.feature(f"rewrite:{a}")
    w["rewritten"] = data.decode("latin-1")
    STR_DECODE[0] = {"utf-8": "utf-8-sig", "utf-16-le": "utf-16", "utf-16-be": "utf-16"}.get(encoding, encoding)
    try:
        check_handlers(ctx, data, type(obj), has_q, True, w, "rewritten", model)
    finally:
        STR_DECODE[0] = "utf-8"


def check_union_documents(ctx):
    """Hand-written documents for models with unions of classes (vf/props/union_models.py): prefixes declared at
    different depths below the union element; every handler and source kind must give the same object."""
    from vf.props import union_models as U

    for i, doc in enumerate(U.DOCS):
        ctx.feature("hand:union-of-classes-documents")
        check_handlers(ctx, doc.encode("utf-8"), U.Holder, True, True, {"fn": "union-docs", "index": i, "doc": doc}, f"union-doc-{i}")


def run_shard(ctx):
    rng = ctx.rng
    if ctx.shard == 0:
        check_union_documents(ctx)
    n_models = ctx.per_shard(ctx.pick(2200, 50000))
    min_d = MIN_DISTINCT[ctx.tier] // ctx.nshards + 1
    for i in range(ctx.pick(2, 12)):
        check_big(ctx, rng.getrandbits(32), rng.choice([20, 40, 70, 130] if ctx.quick() else [20, 70, 130, 200, 400]))
    k = 0
    while k < n_models and (ctx.time_left() > 0 or len(ctx.fingerprints) < min_d):
        k += 1
        try:
            case = bc.make_case(ctx, max_classes=4, max_fields=5, n_objs=2)
        except Exception as e:  # noqa: BLE001
            ctx.inconc(f"model generation failed: {e}")
            continue
        try:
            ctx.feature(*bc.model_features(case.model))
            for obj in case.objs:
                cfg = bc.gen_config(ctx, case.model, case.loaded, obj, allow_default_ns=case.default_ns)
                outs = check_writers(ctx, case.model, case.style, case.loaded, obj, cfg)
                run_handlers_for(ctx, case.model, case.style, case.loaded, obj, cfg, rng.choice(bc.WRITERS), rng.getrandbits(40), rng.choice(["utf-8", "utf-8", "utf-16", "iso-8859-1", "us-ascii"]))
                if outs and len(ctx.samples) < 3:
                    ctx.sample({"native": outs["native"][:400], "lxml": outs["lxml"][:400], "tree": outs["tree"][:400]})
        finally:
            case.close()
