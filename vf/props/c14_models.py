"""Binding models for C14/C19: classes deliberately shared between roles (root and child, declared
type and xsi:type substitute, looked up by qname / by fields / by xsi:type)."""

from dataclasses import dataclass, field
from decimal import Decimal
from typing import Dict, List, Optional, Union

NS_I = "urn:vf:c14:i"
NS_W = "urn:vf:c14:w"
NS_A = "urn:vf:c14:a"
NS_B = "urn:vf:c14:b"


@dataclass
class Item:
    class Meta:
        name = "item"
        namespace = NS_I

    id: int = field(metadata={"type": "Attribute"})
    note: Optional[str] = field(default=None, metadata={"type": "Element"})


@dataclass
class ItemExt(Item):
    class Meta:
        name = "itemExt"
        namespace = NS_I

    extra: Optional[int] = field(default=None, metadata={"type": "Element"})


@dataclass
class Box:
    class Meta:
        name = "box"
        namespace = NS_I

    item: Optional[Item] = field(default=None, metadata={"type": "Element"})
    items: List[Item] = field(default_factory=list, metadata={"type": "Element", "name": "more"})
    label: Optional[str] = field(default=None, metadata={"type": "Attribute"})


@dataclass
class Wild:
    class Meta:
        name = "wild"
        namespace = NS_W

    any: List[object] = field(default_factory=list, metadata={"type": "Wildcard", "namespace": "##other"})
    attrs: Dict[str, str] = field(default_factory=dict, metadata={"type": "Attributes", "namespace": "##any"})


@dataclass
class Nums:
    class Meta:
        name = "nums"

    a: int = field(metadata={"type": "Element"})
    b: Optional[float] = field(default=None, metadata={"type": "Element"})
    t: List[int] = field(default_factory=list, metadata={"type": "Element", "tokens": True})


@dataclass
class Price:  # simple content: text value + attribute
    class Meta:
        name = "price"
        namespace = NS_I

    value: Optional[Decimal] = field(default=None)
    currency: Optional[str] = field(default=None, metadata={"type": "Attribute"})


@dataclass
class Mix:  # element declared before a compound field and a wildcard (document order != metadata bucket order)
    class Meta:
        name = "mix"
        namespace = NS_I

    first: Optional[str] = field(default=None, metadata={"type": "Element"})
    choice: List[object] = field(default_factory=list, metadata={"type": "Elements", "choices": ({"name": "a", "type": int}, {"name": "b", "type": str})})
    price: Optional[Price] = field(default=None, metadata={"type": "Element"})
    rest: List[object] = field(default_factory=list, metadata={"type": "Wildcard", "namespace": "##other"})
    last: Optional[int] = field(default=None, metadata={"type": "Element"})


@dataclass
class Cat:
    lives: Optional[int] = field(default=None, metadata={"type": "Element"})
    name: Optional[str] = field(default=None, metadata={"type": "Element"})


@dataclass
class Dog:
    bark: Optional[str] = field(default=None, metadata={"type": "Element"})
    name: Optional[str] = field(default=None, metadata={"type": "Element"})


@dataclass
class Pet:  # union of classes: the parsers try every candidate in strict mode and keep the best
    class Meta:
        name = "pet"

    animal: Optional[Union[Cat, Dog]] = field(default=None, metadata={"type": "Element"})
    tag: Optional[int] = field(default=None, metadata={"type": "Element"})


class Celsius(float):  # a subclass of a supported type that has no converter of its own
    pass


@dataclass
class Reading:
    class Meta:
        name = "reading"

    value: Optional[float] = field(default=None, metadata={"type": "Element"})
    unit: Optional[str] = field(default=None, metadata={"type": "Attribute"})


@dataclass
class TypedReading:  # not a supported field type: building the metadata is an error, with or without history
    class Meta:
        name = "typedReading"

    value: Optional[Celsius] = field(default=None, metadata={"type": "Element"})


@dataclass
class ThirdParty:  # a plain dataclass of some other library: not a binding model (unsupported annotation), indexed all the same
    table: Dict[str, Dict[str, int]] = field(default_factory=dict)
    host: Optional[str] = None


@dataclass
class Prefs:  # a binding model that shares its qualified name with the class above, defined after it
    class Meta:
        name = "ThirdParty"

    host: Optional[str] = field(default=None, metadata={"type": "Element"})
    port: Optional[int] = field(default=None, metadata={"type": "Element"})


# --- the known-finding trigger (kept out of the main operation pool) -------------------------
@dataclass
class Shared:
    v: Optional[str] = field(default=None, metadata={"type": "Element"})


@dataclass
class ParentA:
    class Meta:
        namespace = NS_A

    s: Optional[Shared] = field(default=None, metadata={"type": "Element"})


@dataclass
class ParentB:
    class Meta:
        namespace = NS_B

    s: Optional[Shared] = field(default=None, metadata={"type": "Element"})


LATE_SOURCE = '''
from dataclasses import dataclass, field
from typing import Optional

@dataclass
class Late{n}:
    class Meta:
        name = "late{n}"
        namespace = "urn:vf:c14:late"
    x: Optional[int] = field(default=None, metadata={{"type": "Element"}})
    only_late{n}: Optional[str] = field(default=None, metadata={{"type": "Element"}})

@dataclass
class Twin{n}:  # every late module declares a class for the same qualified name: the last imported one wins
    class Meta:
        name = "twin"
        namespace = "urn:vf:c14:late"
    gen: str = field(default="{n}", metadata={{"type": "Attribute"}})
'''
