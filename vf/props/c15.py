"""C15 — bad input fails cleanly.

Monitor shape: fault enumeration + exception-class/termination oracle.
Every single-point fault of the kinds the property lists is applied to valid documents produced
for generated models: truncation at *each* byte offset, single-bit flips, deletion / duplication /
retagging / swapping of each element, corruption of each typed value and attribute, bad xsi:type
(unknown prefix, unknown type, unrelated class, primitive type on a complex element), bad xsi:nil,
undeclared prefixes, wrong root, random byte strings; and for JSON: truncation at each offset, type
swaps at each node, unknown/missing keys, wrong root kind. Both handlers, JsonParser, DictDecoder.
Oracle: the call returns an instance of the requested class or raises one of xsdata's documented
parsing/conversion/context errors; the pure-python handler raises whenever expat itself rejects the
document; a per-case watchdog (SIGALRM) turns an overrun into `inconclusive`, a logical step budget
(handler start/end calls <= 2 * input length + 50) into a violation.
"""

from __future__ import annotations

import copy
import json
import random
import shutil
import os
import re
import signal
import warnings
import zlib
import xml.etree.ElementTree as ET

from vf import bindcase as bc
from vf import ir, rewrite, xmlkit
from vf.xmlkit import XSI

ID = "C15"
LEVEL = "fault_enumeration"
RULE = (
    "case = (valid document of a generated model, fault kind, position, backend). Enumerated: truncation at every byte offset "
    "(documents <= 700 bytes quick / 4 KiB thorough), bit flips of sampled bytes, delete/duplicate/retag/swap of every element, "
    "corruption of every typed leaf and attribute, 5 xsi:type faults and 2 xsi:nil faults on every element, undeclared prefix, wrong "
    "root; random byte strings; JSON: truncation at every offset, type swap / deletion / unknown key at every node, wrong root kind. "
    "Non-trivial = the faulted input differs from the valid document and the parser was entered; distinct = distinct (input bytes, backend)."
)
ASSUMPTIONS = [
    "allowed exception types: ParserError, ConverterError, XmlContextError, XmlHandlerError (xsdata.exceptions)",
    "the lxml handler parses with recover=True: it may return an object for malformed input; only exception types, result type and termination are judged there",
    "well-formedness for the native handler is judged by plain expat (xml.etree.ElementTree.fromstring) outside xsdata: if expat raises, XmlParser(handler=XmlEventHandler) must raise ParserError",
    "nesting <= 200 (RecursionError is not provoked); watchdog 20 s per case -> inconclusive, never a violation",
    "a DerivedElement whose value is an instance of the requested class counts as an instance of it (documented wrapper for roots with xsi:type)",
]
MIN_DISTINCT = {"quick": 60000, "thorough": 1000000}
TIME = {"quick": 45, "thorough": 600}
REQUIRED_HOOKS = ("NodeParser.start",)

_ctx = None
_hooked = False
_steps = [0]


def install_hooks(ctx):
    global _ctx, _hooked
    _ctx = ctx
    if _hooked:
        return
    _hooked = True
    from xsdata.formats.dataclass.parsers import bases

    orig_start, orig_end = bases.NodeParser.start, bases.NodeParser.end

    def start(self, *a, **k):
        _steps[0] += 1
        return orig_start(self, *a, **k)

    def end(self, *a, **k):
        _steps[0] += 1
        return orig_end(self, *a, **k)

    bases.NodeParser.start = start
    bases.NodeParser.end = end


class Watchdog(Exception):
    pass


def _alarm(signum, frame):
    raise Watchdog()


def allowed():
    from xsdata.exceptions import ConverterError, ParserError, XmlContextError, XmlHandlerError

    return (ParserError, ConverterError, XmlContextError, XmlHandlerError)


def run_xml(data: bytes, clazz, handler, lenient=False):
    """-> (status, value, steps)"""
    from xsdata.formats.dataclass.context import XmlContext
    from xsdata.formats.dataclass.parsers import XmlParser
    from xsdata.formats.dataclass.parsers.config import ParserConfig

    _steps[0] = 0
    cfg = ParserConfig(fail_on_unknown_properties=False, fail_on_unknown_attributes=False, fail_on_converter_warnings=False) if lenient else ParserConfig()
    p = XmlParser(context=XmlContext(), handler=bc.handler_cls(handler), config=cfg)
    signal.signal(signal.SIGALRM, _alarm)
    signal.alarm(20)
    try:
        with warnings.catch_warnings():
            warnings.simplefilter("ignore")
            obj = p.from_bytes(data, clazz)
        return "ok", obj, _steps[0]
    except Watchdog:
        return "watchdog", None, _steps[0]
    except allowed() as e:
        return "clean-error", e, _steps[0]
    except BaseException as e:  # noqa: BLE001
        return "leak", e, _steps[0]
    finally:
        signal.alarm(0)


def judge_xml(ctx, data: bytes, clazz, fault, w0, original=None):
    if data == original:
        return
    try:
        ET.fromstring(data)
        expat_ok = True
    except ET.ParseError:
        expat_ok = False
    except Exception:  # noqa: BLE001
        expat_ok = None  # e.g. ValueError for embedded NULs in str mode: not a judgement
    for handler in bc.HANDLERS:
        ctx.case(data, handler)
        _ctx.hook("NodeParser.start", 0)
        st, val, steps = run_xml(data, clazz, handler)
        ctx.hook("NodeParser.start", steps)
        w = dict(w0)
        w.update(fault=fault, faulted=data.decode("latin-1"), handler=handler)
        if zlib.crc32(data) % 2 == 0:  # the same input with every fail_on_* option off: skipped content must not leak either
            st2, val2, _ = run_xml(data, clazz, handler, lenient=True)
            ctx.evals()
            ctx.feature("config:lenient")
            if st2 == "leak":
                ctx.violation(f"leaks-lenient/{type(val2).__name__}/{fault.split(':')[0]}/{handler}/{bc.short_exc(val2)[:90]}", f"all fail_on_* options off: {type(val2).__name__}: {val2}\nfault={fault}\n{data[:1200]!r}", w)
            elif st2 == "watchdog":
                ctx.inconc(f"watchdog fired (lenient) for a {len(data)}-byte input ({fault})")
        if zlib.crc32(data) % 8 == 1:  # the same input without a target class: the parser locates the class by the root name
            st3, val3, _ = run_xml(data, None, handler)
            ctx.evals()
            ctx.feature("config:no-target-class")
            if st3 == "leak":
                ctx.violation(f"leaks-no-class/{type(val3).__name__}/{fault.split(':')[0]}/{handler}/{bc.short_exc(val3)[:90]}", f"no target class: {type(val3).__name__}: {val3}\nfault={fault}\n{data[:1200]!r}", w)
            elif st3 == "watchdog":
                ctx.inconc(f"watchdog fired (no target class) for a {len(data)}-byte input ({fault})")
        if st == "watchdog":
            ctx.inconc(f"watchdog fired for a {len(data)}-byte input ({fault})")
        elif st == "leak":
            ctx.violation(f"leaks/{type(val).__name__}/{fault.split(':')[0]}/{handler}/{bc.short_exc(val)[:90]}", f"{type(val).__name__}: {val}\nfault={fault}\n{data[:1200]!r}", w)
        elif st == "ok":
            if type(val).__name__ == "DerivedElement" and isinstance(getattr(val, "value", None), clazz):
                # the documented generic wrapper for a root element carrying xsi:type under another name
                ctx.feature("result:DerivedElement-wrapping-the-requested-class")
            elif not isinstance(val, clazz):
                ctx.violation(f"wrong-result-type/{handler}/{fault.split(':')[0]}", f"returned {type(val).__name__} instead of {clazz.__name__}\n{data[:1200]!r}", w)
            elif handler == "native" and expat_ok is False:
                ctx.violation(f"native-accepts-malformed/{fault.split(':')[0]}", f"expat rejects the document but XmlEventHandler returned an object\n{data[:1200]!r}", w)
        if steps > 2 * len(data) + 50:
            ctx.violation(f"step-budget/{handler}", f"{steps} handler steps for {len(data)} bytes ({fault})", w)


# ----------------------------------------------------------------------------- XML faults
def dom_faults(rng, root, model, salt, exhaustive=True):
    """Yield (fault label, mutate(), undo()) working on the shared DOM."""
    elements = [e for e in all_elements(root)]
    parents = {}
    for e in elements:
        for x in e.items:
            if isinstance(x, rewrite.E):
                parents[id(x)] = e
    for idx, e in enumerate(elements):
        par = parents.get(id(e))
        if par is not None:
            pos = next(i for i, x in enumerate(par.items) if x is e)
            yield f"delete-element:{idx}", (lambda par=par, pos=pos: par.items.pop(pos)), (lambda par=par, pos=pos, e=e: par.items.insert(pos, e))
            yield f"duplicate-element:{idx}", (lambda par=par, pos=pos, e=e: par.items.insert(pos, e)), (lambda par=par, pos=pos: par.items.pop(pos))
            sibs = [i for i, x in enumerate(par.items) if isinstance(x, rewrite.E)]
            if len(sibs) > 1:
                other = rng.choice([i for i in sibs if i != pos])

                def swap(par=par, a=pos, b=other):
                    par.items[a], par.items[b] = par.items[b], par.items[a]

                yield f"swap-elements:{idx}", swap, swap
        old = (e.ns, e.local)

        def retag(e=e, new=None):
            e.ns, e.local = new

        for new in ((e.ns, f"zz{salt}"), (f"urn:vf:{salt}:wrong", e.local), (None, e.local) if e.ns else (f"urn:vf:{salt}:other", e.local)):
            yield f"retag-element:{idx}", (lambda e=e, new=new: retag(e, new)), (lambda e=e, old=old: retag(e, old))
        # xsi:type / xsi:nil faults
        other_cls = rng.choice(model.classes).name
        xs = "http://www.w3.org/2001/XMLSchema"
        for label, val in (("unknown-prefix", "nope:Thing"), ("unknown-type", f"Nope{salt}"), ("unrelated-class", other_cls), ("primitive-on-complex", "__xs__:int"), ("empty", ""), ("garbage", ": :")):
            had = [a for a in e.attrs if (a[0], a[1]) == (XSI, "type")]

            def set_type(e=e, val=val):
                e.attrs[:] = [a for a in e.attrs if (a[0], a[1]) != (XSI, "type")]
                if val.startswith("__xs__:"):
                    e.attrs.append((None, "xmlns:xsfault", xs))  # emitted verbatim as a declaration-like attribute
                    e.attrs.append((XSI, "type", "xsfault:" + val.split(":")[1]))
                else:
                    e.attrs.append((XSI, "type", val))

            def unset_type(e=e, had=had):
                e.attrs[:] = [a for a in e.attrs if (a[0], a[1]) != (XSI, "type") and a[1] != "xmlns:xsfault"] + had

            yield f"bad-xsi-type:{label}:{idx}", set_type, unset_type
        for val in ("true", "false", "maybe"):
            had = [a for a in e.attrs if (a[0], a[1]) == (XSI, "nil")]

            def set_nil(e=e, val=val):
                e.attrs[:] = [a for a in e.attrs if (a[0], a[1]) != (XSI, "nil")] + [(XSI, "nil", val)]

            def unset_nil(e=e, had=had):
                e.attrs[:] = [a for a in e.attrs if (a[0], a[1]) != (XSI, "nil")] + had

            yield f"bad-xsi-nil:{val}:{idx}", set_nil, unset_nil
        # corrupt text / attributes
        if len(e.items) == 1 and isinstance(e.items[0], str):
            oldt = e.items[0]
            for bad in ("zz-bad", "", "9" * 400, " ", "1 2 3"):
                yield f"corrupt-leaf:{idx}", (lambda e=e, bad=bad: e.items.__setitem__(0, bad)), (lambda e=e, oldt=oldt: e.items.__setitem__(0, oldt))
        elif not e.items:
            yield f"text-into-empty:{idx}", (lambda e=e: e.items.append("unexpected")), (lambda e=e: e.items.clear())
        for i, a in enumerate(list(e.attrs)):
            for bad in ("zz-bad", ""):
                yield f"corrupt-attribute:{idx}", (lambda e=e, i=i, a=a, bad=bad: e.attrs.__setitem__(i, (a[0], a[1], bad))), (lambda e=e, i=i, a=a: e.attrs.__setitem__(i, a))
            yield f"delete-attribute:{idx}", (lambda e=e, i=i: e.attrs.pop(i)), (lambda e=e, i=i, a=a: e.attrs.insert(i, a))
        if e.items and any(isinstance(x, rewrite.E) for x in e.items):
            yield f"text-between-children:{idx}", (lambda e=e: e.items.insert(1 if len(e.items) > 1 else 0, "stray text")), (lambda e=e: e.items.remove("stray text"))


ENCODINGS = ["shift_jis", "euc-jp", "gb2312", "big5", "euc-kr", "gbk", "iso-2022-jp", "idna", "punycode", "undefined", "utf-7", "rot13", "hex", "base64", "unknown-xyz", "utf-32", "utf-16", "cp037", "cp1252", "latin-1",
             "ascii", "mbcs", "raw_unicode_escape", "unicode_escape", "utf-8-sig", "UTF8", "x", "", "utf-8 ", "koi8-r", "cp65001", "tis-620"]


def all_elements(e):
    yield e
    for x in e.items:
        if isinstance(x, rewrite.E):
            yield from all_elements(x)


def emit(root, rng):
    return rewrite.emit_doc(root, rewrite.plain_opts(rng), declaration=False)


def check_xml(ctx, model, style, loaded, obj, seed, max_len):
    rng = random.Random(seed)
    cfg = {"indent": None, "xml_declaration": rng.random() < 0.3, "ignore_default_attributes": False, "ns_map": None}
    xml = bc.render(loaded, obj, cfg, rng.choice(bc.WRITERS))
    original = xml.encode("utf-8")
    if len(original) > max_len:
        ctx.drop(f"document longer than {max_len} bytes")
        return
    clazz = type(obj)
    w0 = bc.witness(model, style, obj, cfg, seed=seed, fn="xml")
    w0.pop("source", None)
    # 1. truncation at each offset
    for k in range(len(original)):
        ctx.feature("fault:truncation")
        judge_xml(ctx, original[:k], clazz, f"truncation:{k}", w0, original)
    # 2. bit flips of sampled bytes
    for k in rng.sample(range(len(original)), min(len(original), 60)):
        ctx.feature("fault:bit-flip")
        b = bytearray(original)
        b[k] ^= 1 << rng.randrange(8)
        judge_xml(ctx, bytes(b), clazz, f"bit-flip:{k}", w0, original)
    # 3. byte deletions / insertions of markup characters
    for k in rng.sample(range(len(original)), min(len(original), 30)):
        ctx.feature("fault:byte-edit")
        judge_xml(ctx, original[:k] + original[k + 1 :], clazz, f"byte-delete:{k}", w0, original)
        judge_xml(ctx, original[:k] + rng.choice([b"<", b">", b"&", b'"', b"\x00", b"]]>", b"<!--"]) + original[k:], clazz, f"byte-insert:{k}", w0, original)
    # 4. structural faults on the DOM
    try:
        root = rewrite.load_with_scopes(original)
    except Exception:  # noqa: BLE001
        return
    for label, do, undo in dom_faults(rng, root, model, model.salt):
        do()
        try:
            data = emit(root, rng)
        except Exception:  # noqa: BLE001
            data = None
        finally:
            undo()
        if data is None:
            continue
        data = data.replace(b"xmlns:xsfault=", b"xmlns:xsfault=")  # (declared through a plain attribute named xmlns:xsfault)
        ctx.feature(f"fault:{label.split(':')[0]}")
        judge_xml(ctx, data, clazz, label, w0, original)
    # 4b. an encoding declaration the bytes do not honour / the parser back end cannot decode
    body = re.sub(rb"^\s*<\?xml[^>]*\?>", b"", original)
    for enc in rng.sample(ENCODINGS, 4):
        ctx.feature("fault:declared-encoding")
        judge_xml(ctx, b'<?xml version="1.0" encoding="' + enc.encode("ascii", "replace") + b'"?>' + body, clazz, f"declared-encoding:{enc}", w0, original)
    # 5. undeclared prefix / wrong root / wrong class
    judge_xml(ctx, original.replace(b"<", b"<undeclared:", 1).replace(b"</", b"</undeclared:", 1) if original.count(b"<") else original, clazz, "undeclared-prefix:root", w0, original)
    other = [c for c in loaded.ns.values() if isinstance(c, type) and hasattr(c, "__dataclass_fields__") and c is not clazz and c.__module__ == clazz.__module__]
    if other:
        ctx.feature("fault:wrong-target-class")
        judge_xml(ctx, original, rng.choice(other), "wrong-target-class", w0, None)


# ----------------------------------------------------------------------------- JSON faults
def run_json(payload, clazz, via):
    from xsdata.formats.dataclass.context import XmlContext
    from xsdata.formats.dataclass.parsers import DictDecoder, JsonParser

    signal.signal(signal.SIGALRM, _alarm)
    signal.alarm(20)
    try:
        with warnings.catch_warnings():
            warnings.simplefilter("ignore")
            if via == "json":
                obj = JsonParser(context=XmlContext()).from_bytes(payload, clazz)
            else:
                obj = DictDecoder(context=XmlContext()).decode(payload, clazz)
        return "ok", obj
    except Watchdog:
        return "watchdog", None
    except allowed() as e:
        return "clean-error", e
    except BaseException as e:  # noqa: BLE001
        return "leak", e
    finally:
        signal.alarm(0)


def judge_json(ctx, payload, clazz, fault, w0, via):
    key = payload if isinstance(payload, bytes) else json.dumps(payload, default=repr)
    ctx.case(key, via)
    st, val = run_json(payload, clazz, via)
    w = dict(w0)
    w.update(fault=fault, via=via, faulted=key.decode("latin-1") if isinstance(key, bytes) else key)
    if st == "watchdog":
        ctx.inconc(f"watchdog fired ({fault})")
    elif st == "leak":
        if via == "json" and isinstance(val, (json.JSONDecodeError, UnicodeDecodeError)) and fault.startswith(("truncation", "bit-flip")):
            # the text is not JSON at all: the error comes from the pluggable load_factory (json.load)
            ctx.feature("json:not-json-rejected-by-load-factory")
            return
        ctx.violation(f"leaks/{type(val).__name__}/{fault.split(':')[0]}/{via}/{bc.short_exc(val)[:90]}", f"{type(val).__name__}: {val}\nfault={fault}\n{str(key)[:1200]}", w)
    elif st == "ok" and clazz is None:
        ctx.feature("json:class-located-by-keys")
    elif st == "ok" and type(val).__name__ == "DerivedElement" and isinstance(getattr(val, "value", None), clazz):
        ctx.feature("result:DerivedElement-wrapping-the-requested-class")  # (same documented wrapper as on the XML side)
    elif st == "ok":
        want = clazz
        if isinstance(val, list):
            ok = all(isinstance(x, want) for x in val)
        else:
            ok = isinstance(val, want)
        if not ok:
            ctx.violation(f"wrong-result-type/{via}/{fault.split(':')[0]}", f"returned {type(val).__name__}\n{str(key)[:1000]}", w)


def json_nodes(d, path=()):
    yield path, d
    if isinstance(d, dict):
        for k, v in d.items():
            yield from json_nodes(v, path + (k,))
    elif isinstance(d, list):
        for i, v in enumerate(d):
            yield from json_nodes(v, path + (i,))


def set_path(d, path, value, delete=False):
    cur = d
    for p in path[:-1]:
        cur = cur[p]
    if delete:
        del cur[path[-1]]
    else:
        cur[path[-1]] = value


def check_json(ctx, model, style, loaded, obj, seed):
    from xsdata.formats.dataclass.context import XmlContext
    from xsdata.formats.dataclass.serializers import DictEncoder

    rng = random.Random(seed)
    w0 = bc.witness(model, style, obj, None, seed=seed, fn="json")
    w0.pop("source", None)
    try:
        enc = DictEncoder(context=XmlContext()).encode(obj)
        text = json.dumps(enc).encode("utf-8")
    except Exception:  # noqa: BLE001
        return
    clazz = type(obj)
    if len(text) <= 1500:
        for k in range(len(text)):
            ctx.feature("fault:json-truncation")
            judge_json(ctx, text[:k], clazz, f"truncation:{k}", w0, "json")
    for path, node in list(json_nodes(enc)):
        if not path:
            continue
        swaps = [None, 5, "str", True, [], {}, [[1]], {"x": {"y": 1}}, [None], 1.5]
        for sv in rng.sample(swaps, 4):
            if type(sv) is type(node) and sv == node:
                continue
            d = copy.deepcopy(enc)
            set_path(d, path, sv)
            ctx.feature("fault:json-type-swap")
            for via in ("dict", "json"):
                judge_json(ctx, d if via == "dict" else json.dumps(d).encode(), clazz, f"type-swap:{'/'.join(map(str, path))}", w0, via)
        d = copy.deepcopy(enc)
        set_path(d, path, None, delete=True)
        ctx.feature("fault:json-delete")
        for via in ("dict", "json"):
            judge_json(ctx, d if via == "dict" else json.dumps(d).encode(), clazz, f"delete:{'/'.join(map(str, path))}", w0, via)
    for root in ([], [enc, 5], [[enc]], 5, "str", None, {"unknown": 1}, [enc, {"unknown": 1}], True):
        ctx.feature("fault:json-wrong-root")
        for via in ("dict", "json"):
            judge_json(ctx, root if via == "dict" else json.dumps(root).encode(), clazz, "wrong-root", w0, via)
    # without a target class the decoder locates the class from the keys of the document
    for root in (enc, [enc], [], [enc, 5], [5, enc], [[enc]], [[1]], 5, 0, "str", "", None, True, 1.5, [1], ["a"], [None], {"unknown": 1}, {}, [{}], [enc, {"unknown": 1}]):
        ctx.feature("fault:json-no-target-class")
        for via in ("dict", "json"):
            judge_json(ctx, root if via == "dict" else json.dumps(root).encode(), None, "no-class-root", w0, via)


def check_json_generic_shapes(ctx, seed):
    """Directed: documents that spell generic / derived elements, every value swapped for every other JSON type."""
    from vf.props import c15_models as M

    rng = random.Random(seed)
    w0 = {"fn": "json-generic", "seed": seed}
    swaps = [None, 5, "str", True, [], {}, [[1]], {"x": {"y": 1}}, [None], 1.5, ["Leaf"], {"qname": "z"}, 0, ""]
    for doc in M.DOCS:
        for clazz in (M.Holder, None):
            for via in ("dict", "json"):
                ctx.feature("fault:json-generic-shapes")
                judge_json(ctx, copy.deepcopy(doc) if via == "dict" else json.dumps(doc).encode(), clazz, "generic-clean", w0, via)
        for path, node in list(json_nodes(doc)):
            if not path:
                continue
            for sv in swaps:
                if type(sv) is type(node) and sv == node:
                    continue
                d = copy.deepcopy(doc)
                set_path(d, path, sv)
                clazz = rng.choice([M.Holder, M.Holder, None])
                for via in ("dict", "json"):
                    judge_json(ctx, d if via == "dict" else json.dumps(d).encode(), clazz, f"generic-type-swap:{'/'.join(map(str, path))}", w0, via)


def check_xinclude_faults(ctx):
    """Directed: documents whose xi:include elements are faulty, parsed with process_xinclude=True by both handlers.
    (A missing *file* is an I/O error of the caller's resource, like a missing source document, and is not judged.)"""
    import tempfile

    from xsdata.formats.dataclass.context import XmlContext
    from xsdata.formats.dataclass.parsers import XmlParser
    from xsdata.formats.dataclass.parsers.config import ParserConfig

    from vf.props.c15_models import R

    xi = 'xmlns:xi="http://www.w3.org/2001/XInclude"'
    docs = {
        "ok": f'<R {xi}><xi:include href="good.xml"/></R>',
        "bad-parse-value": f'<R {xi}><xi:include href="good.xml" parse="bogus"/></R>',
        "fallback-misplaced": f'<R {xi}><xi:fallback/></R>',
        "included-file-malformed": f'<R {xi}><xi:include href="bad.xml"/></R>',
        "recursive": f'<R {xi}><xi:include href="self.xml"/></R>',
        "include-with-children": f'<R {xi}><xi:include href="good.xml"><inc>2</inc></xi:include></R>',
        "two-fallbacks": f'<R {xi}><xi:include href="nope.xml"><xi:fallback/><xi:fallback/></xi:include></R>',
        "included-text-into-int": f'<R {xi}><inc><xi:include href="good.xml" parse="text"/></inc></R>',
        "bad-xpointer": f'<R {xi}><xi:include href="good.xml" xpointer="xpointer(///)"/></R>',
    }
    tmp = tempfile.mkdtemp(prefix="xsdata-verif-c15-xi-")
    try:
        for name, text in (("good.xml", "<inc>1</inc>"), ("bad.xml", "<bad"), ("self.xml", docs["recursive"])):
            with open(os.path.join(tmp, name), "w") as f:
                f.write(text)
        for label, doc in docs.items():
            path = os.path.join(tmp, "doc.xml")
            with open(path, "w") as f:
                f.write(doc)
            for handler in bc.HANDLERS:
                ctx.case("xinclude", label, handler)
                ctx.feature("fault:xinclude")
                p = XmlParser(context=XmlContext(), handler=bc.handler_cls(handler), config=ParserConfig(process_xinclude=True, base_url=tmp + "/"))
                try:
                    with warnings.catch_warnings():
                        warnings.simplefilter("ignore")
                        res = p.parse(path, R)
                    if not isinstance(res, R):
                        ctx.violation(f"wrong-result-type/{handler}/xinclude", f"{label}: returned {type(res).__name__}", {"fn": "xinclude", "label": label})
                except allowed():
                    pass
                except OSError:
                    ctx.feature("xinclude:io-error-not-judged")
                except BaseException as e:  # noqa: BLE001
                    ctx.violation(f"leaks/{type(e).__name__}/xinclude/{handler}/{label}", f"{type(e).__module__}.{type(e).__name__}: {e}\n{doc}", {"fn": "xinclude", "label": label})
    finally:
        shutil.rmtree(tmp, ignore_errors=True)


def check_random_bytes(ctx, seed, clazz_case):
    rng = random.Random(seed)
    model, style, loaded, obj = clazz_case
    w0 = {"fn": "random-bytes", "seed": seed}
    for _ in range(40):
        n = rng.choice([0, 1, 3, 10, 50, 300])
        mode = rng.randrange(4)
        if mode == 0:
            data = rng.randbytes(n)
        elif mode == 1:
            data = bytes(rng.choice(b"<>/=\"' ab&;:![]-?x\n") for _ in range(n))
        elif mode == 2:
            data = b"<a>" * min(n, 150) + b"</a>" * rng.randrange(0, min(n, 150) + 1)
        else:
            data = b"\xef\xbb\xbf" + bytes(rng.choice(b"<a b='c'>&#x;") for _ in range(n))
        ctx.feature("fault:random-bytes")
        judge_xml(ctx, data, type(obj), "random-bytes", w0, None)
        judge_json(ctx, data, type(obj), "bit-flip:random-bytes", w0, "json")


def replay(witness, ctx):
    install_hooks(ctx)
    if witness.get("fn") in ("xinclude", "json-generic"):
        ctx.inconc("directed witnesses are fixed documents: re-run the check")
        return
    if witness.get("fn") == "random-bytes":
        ctx.inconc("random-bytes witnesses carry their input in `faulted`; re-run the check with the same seed")
        return
    model, loaded, obj = bc.from_witness({**witness, "source": ""})
    try:
        data = witness.get("faulted")
        if witness.get("fn") == "json":
            via = witness.get("via", "json")
            payload = data.encode("latin-1") if via == "json" else json.loads(data)
            judge_json(ctx, payload, type(obj), witness.get("fault", "replay"), witness, via)
        else:
            judge_xml(ctx, data.encode("latin-1"), type(obj), witness.get("fault", "replay"), witness, None)
    finally:
        loaded.unload()


def run_shard(ctx):
    install_hooks(ctx)
    rng = ctx.rng
    if ctx.shard == 0:
        check_json_generic_shapes(ctx, ctx.seed)
        check_xinclude_faults(ctx)
    n_models = ctx.per_shard(ctx.pick(450, 9000))
    min_d = MIN_DISTINCT[ctx.tier] // ctx.nshards + 1
    max_len = ctx.pick(700, 4096)
    k = 0
    while k < n_models and (ctx.time_left() > 0 or len(ctx.fingerprints) < min_d):
        k += 1
        try:
            # every fifth model is drawn from a narrow feature set in which wildcards (holding generic trees and known global elements) are frequent
            feats = {"wildcard", "namespaces", "attribute", "attributes", "list", "inheritance", "nillable", "object", "meta_name"} if k % 5 == 0 else None
            case = bc.make_case(ctx, features=feats, boost=("wildcard",) if feats else (), max_classes=3, max_fields=4, n_objs=1, max_depth=2)
        except Exception as e:  # noqa: BLE001
            ctx.inconc(f"model generation failed: {e}")
            continue
        try:
            ctx.feature(*bc.model_features(case.model))
            check_xml(ctx, case.model, case.style, case.loaded, case.objs[0], rng.getrandbits(40), max_len)
            if k % 4 == 0:
                check_random_bytes(ctx, rng.getrandbits(40), (case.model, case.style, case.loaded, case.objs[0]))
        finally:
            case.close()
        if k % 3 == 0:
            try:
                jcase = bc.make_case(ctx, features=ir.Gen.ALL - {"inheritance", "multi_class_choice", "object"}, max_classes=3, max_fields=4, n_objs=1, max_depth=2, json_mode=True)
            except Exception:  # noqa: BLE001
                continue
            try:
                check_json(ctx, jcase.model, jcase.style, jcase.loaded, jcase.objs[0], rng.getrandbits(40))
            finally:
                jcase.close()
    ctx.sample({"fault": "truncation at every byte offset of a valid document", "oracle": "instance of the requested class, or ParserError/ConverterError/XmlContextError/XmlHandlerError; native handler must raise when expat rejects"})
