"""C18 — Python-code rendering evaluates back to the object.

Monitor shape: reference oracle at the API boundary. PycodeSerializer.render(obj, name) is compiled
(syntax), executed in a fresh empty namespace (only the emitted imports can supply names) and, for
importable models, in a fresh subprocess; the bound variable must deep-equal the original
(type-exact: tuple != list; NaN-aware).
"""

from __future__ import annotations

import datetime
import json
import subprocess
from decimal import Decimal
from xml.etree.ElementTree import QName

from vf import bindcase as bc
from vf import core, ir
from vf.xmlkit import deep_eq

ID = "C18"
LEVEL = "exploration"
RULE = (
    "case = (model, instance, variable name); models from the shared generator (frozen/tuple models, enums, unions, QNames, "
    "Decimals, bytes, Xml* values, AnyElement trees, attribute maps, defaults for elision) plus hand-written models with inner "
    "classes, inner enums, enum lists, stdlib date/time, init=False fields, generics (vf/props/c18_models.py). Judges: compile(), "
    "exec in an empty namespace, type-exact deep equality; hand-written models additionally in a fresh subprocess. "
    "every hand-written case is additionally rendered through one long-lived serializer shared by the whole shard (its output must evaluate back as well). Non-trivial = instance has at least one non-default field; distinct = distinct (model structure, instance)."
)
ASSUMPTIONS = [
    "deep equality is type-exact for containers (a frozen model's tuple must come back as a tuple) and uses == for leaves (NaN-aware)",
    "generated models live in modules registered in sys.modules of the harness process; the fresh-subprocess leg only runs for the importable hand-written models",
]
MIN_DISTINCT = {"quick": 30000, "thorough": 500000}
TIME = {"quick": 40, "thorough": 400}


def check_source(ctx, obj, src, w, key_hint):
    try:
        code = compile(src, "<pycode>", "exec")
    except SyntaxError as e:
        ctx.violation(f"syntax-error/{key_hint}", f"{e}\n{src[:1500]}", w)
        return None
    ns: dict = {}
    try:
        exec(code, ns)  # noqa: S102
    except Exception as e:  # noqa: BLE001
        ctx.violation(f"exec-raises/{type(e).__name__}/{key_hint}", f"{type(e).__name__}: {e}\n{src[:1500]}", w)
        return None
    if "obj_x" not in ns:
        ctx.violation(f"variable-not-bound/{key_hint}", src[:800], w)
        return None
    d = deep_eq(obj, ns["obj_x"])
    if d:
        ctx.violation(f"not-equal/{key_hint}/{leaf_kind(d)}", f"{d}\n{src[:1500]}", w)
    return ns["obj_x"]


def leaf_kind(d):
    for k in ("type list != tuple", "type tuple != list", "type "):
        if k in d:
            return k.strip().replace(" ", "-")
    return "value"


def render(obj):
    from xsdata.formats.dataclass.context import XmlContext
    from xsdata.formats.dataclass.serializers import PycodeSerializer

    return PycodeSerializer(context=XmlContext()).render(obj, "obj_x")


_SHARED = []


def render_shared(obj):
    """The same render through one long-lived serializer (seeded change C18-r4-2: state left behind by an earlier render)."""
    from xsdata.formats.dataclass.context import XmlContext
    from xsdata.formats.dataclass.serializers import PycodeSerializer

    if not _SHARED:
        _SHARED.append(PycodeSerializer(context=XmlContext()))
    return _SHARED[0].render(obj, "obj_x")


def check_ir(ctx, model, style, loaded, obj):
    w = bc.witness(model, style, obj, None, fn="ir")
    ctx.case(bc.structure_fp(model), bc.obj_fp(model, obj))
    try:
        src = render(obj)
    except Exception as e:  # noqa: BLE001
        ctx.violation(f"render-raises/{bc.short_exc(e)}", f"{type(e).__name__}: {e}", w)
        return
    check_source(ctx, obj, src, w, "generated-model")
    if len(ctx.samples) < 2:
        ctx.sample({"instance": repr(obj)[:400], "source": src[:900]})


# ----------------------------------------------------------------------------- hand-written models
def gen_hand(rng):
    from xsdata.formats.dataclass.models.generics import AnyElement, DerivedElement
    from xsdata.models.datatype import XmlDate, XmlDateTime, XmlDuration, XmlPeriod, XmlTime

    from vf.props import c18_models as M

    def inner():
        return M.Outer.Inner(v=rng.choice([None, 0, 5]), deep=rng.choice([None, M.Outer.Inner.Deep.X, M.Outer.Inner.Deep.Y]),
                             deeps=[rng.choice(list(M.Outer.Inner.Deep)) for _ in range(rng.randrange(0, 3))])

    kind = rng.randrange(6)
    if kind == 5:
        # two modules with classes of the same name (and a model called Decimal next to decimal.Decimal)
        from vf.props import c18_models_b as B

        return B.Both(here=rng.choice([None, B.Outer(title="t", shade=B.Color.BLUE)]), there=rng.choice([None, M.Outer(kind=M.Outer.Kind.A), inner()]),
                      colors=[rng.choice(list(M.Color) + list(B.Color)) for _ in range(rng.randrange(0, 4))],
                      amount=rng.choice([None, B.Decimal(value=Decimal("1.50"), places=2), B.Decimal()]))
    if kind == 4:
        pick = lambda *xs: rng.choice(xs)  # noqa: E731
        return M.Defaults(lang=pick(None, "en", "fr", ""), indent=pick(None, 2, 0), ratio=pick(None, 1.5, 0.0), tags=pick(None, [], ["a"]), color=pick(None, *list(M.Color)),
                          when=pick(None, XmlDate(2020, 1, 1), XmlDate(1999, 12, 31)), inner=pick(None, M.Outer.Inner(), inner()))
    if kind == 0:
        return M.Outer(kind=rng.choice([None, M.Outer.Kind.A, M.Outer.Kind.B]), kinds=[rng.choice(list(M.Outer.Kind)) for _ in range(rng.randrange(0, 3))],
                       inner=rng.choice([None, inner()]), inners=[inner() for _ in range(rng.randrange(0, 3))], color=rng.choice(list(M.Color)),
                       colors=[rng.choice(list(M.Color)) for _ in range(rng.randrange(0, 4))])
    if kind == 1:
        return M.Frozen(xs=tuple(rng.randrange(-5, 5) for _ in range(rng.randrange(0, 4))), names=tuple(rng.choice(['a', "it's", 'say "hi"', "back\\slash", "new\nline", "😀", ""]) for _ in range(rng.randrange(0, 3))),
                        nested=tuple(inner() for _ in range(rng.randrange(0, 3))), one=tuple(Decimal(x) for x in rng.sample(["1.50", "NaN", "-Infinity", "1E+5"], rng.randrange(0, 2))))
    if kind == 2:
        tz = rng.choice([None, datetime.timezone.utc, datetime.timezone(datetime.timedelta(minutes=-330))])
        return M.Dates(d=rng.choice([None, datetime.date(2024, 2, 29)]), t=rng.choice([None, datetime.time(23, 59, 59), datetime.time(1, 2, 3, 4)]),
                       dt=rng.choice([None, datetime.datetime(1999, 12, 31, 23, 59, 59, tzinfo=tz), datetime.datetime(2020, 1, 1)]),
                       xd=rng.choice([None, XmlDate(2020, 1, 2), XmlDate(-44, 3, 15, 60)]), xt=rng.choice([None, XmlTime(24, 0, 0), XmlTime(1, 2, 3, 123000000, -60)]),
                       xdt=rng.choice([None, XmlDateTime(2020, 1, 2, 3, 4, 5), XmlDateTime(12345, 1, 2, 3, 4, 5, 1, 840)]),
                       dur=rng.choice([None, XmlDuration("P1Y2M"), XmlDuration("-PT0.5S")]), per=rng.choice([None, XmlPeriod("--02-29"), XmlPeriod("2001Z")]))
    floats = [0.0, -0.0, 1.5, float("inf"), float("-inf"), float("nan"), 1e22, 5e-324]
    return M.Numbers(f=rng.choice(floats), fs=[rng.choice(floats) for _ in range(rng.randrange(0, 3))], dec=Decimal(rng.choice(["0", "1.50", "NaN", "Infinity", "-0", "1E-9"])),
                     decs=[Decimal(rng.choice(["2", "NaN", "-Infinity"])) for _ in range(rng.randrange(0, 2))],
                     q=rng.choice([None, QName("{urn:a}b"), QName("plain"), QName('{urn:"quoted"}x'), QName("{urn:it's}y")]),
                     qs=[QName("{urn:q}" + rng.choice(["a", "b"])) for _ in range(rng.randrange(0, 2))], b=rng.choice([b"", b"\x00\xff", b"abc'\""]),
                     s=rng.choice(["default", "", 'q"uote', "tri'''ple", "back\\", " sep", "\x00nul"]), i=rng.choice([7, 0, -1, 2**70]), flag=rng.random() < 0.5,
                     attrs={rng.choice(["k", "{urn:a}k", 'we"ird', "sp ace"]): rng.choice(["v", "", "it's", "\n"]) for _ in range(rng.randrange(0, 3))},
                     anything=[rng.choice([AnyElement(qname="a", text="t", attributes={"x": "1"}), AnyElement(qname="{u}b", children=[AnyElement(qname="c", tail="tl")]),
                                           DerivedElement(qname="d", value=M.Outer.Inner(v=1), type="{urn:t}Inner"), DerivedElement(qname="e", value=5), "mixed text"]) for _ in range(rng.randrange(0, 3))])


SUB_SCRIPT = """
import json, sys
sys.path.insert(0, %r)
src = sys.stdin.read()
ns = {}
try:
    exec(compile(src, "<pycode>", "exec"), ns)
    print(json.dumps({"ok": True, "repr": repr(ns["obj_x"])}))
except BaseException as e:
    print(json.dumps({"ok": False, "error": type(e).__name__ + ": " + str(e)}))
"""


def check_hand(ctx, seed, subprocess_leg=False):
    import random

    rng = random.Random(seed)
    obj = gen_hand(rng)
    w = {"fn": "hand", "seed": seed, "subprocess": subprocess_leg}
    ctx.case("hand", repr(obj))
    ctx.feature(f"hand:{type(obj).__name__}")
    try:
        src = render(obj)
    except Exception as e:  # noqa: BLE001
        ctx.violation(f"render-raises/{type(obj).__name__}/{bc.short_exc(e)}", f"{type(e).__name__}: {e}\n{obj!r}", w)
        return
    back = check_source(ctx, obj, src, w, type(obj).__name__)
    try:
        src2 = render_shared(obj)
    except Exception as e:  # noqa: BLE001
        ctx.violation(f"reused-serializer/render-raises/{type(obj).__name__}/{bc.short_exc(e)}", f"{type(e).__name__}: {e}\n{obj!r}", w)
        src2 = src
    ctx.feature("reused-serializer-leg")
    if src2 != src:  # a different spelling is allowed, it only has to evaluate back to the object as well
        ctx.feature("reused-serializer-leg:source-differs")
        check_source(ctx, obj, src2, w, f"reused-serializer/{type(obj).__name__}")
    if subprocess_leg and back is not None:
        ctx.feature("fresh-subprocess-leg")
        env = core.child_env()
        p = subprocess.run([core.PY, "-c", SUB_SCRIPT % str(core.ROOT)], input=src, capture_output=True, text=True, timeout=60, env=env)
        try:
            res = json.loads(p.stdout.strip().splitlines()[-1])
        except Exception:  # noqa: BLE001
            ctx.inconc(f"subprocess leg produced no result: {p.stderr[-300:]}")
            return
        if not res["ok"]:
            ctx.violation(f"fresh-process-exec-fails/{type(obj).__name__}", f"{res['error']}\n{src[:1200]}", w)
        elif res["repr"] != repr(back):
            ctx.violation(f"fresh-process-differs/{type(obj).__name__}", f"{res['repr'][:500]} vs {repr(back)[:500]}", w)
    if len(ctx.samples) < 4:
        ctx.sample({"instance": repr(obj)[:400], "source": src[:900]})


def replay(witness, ctx):
    if witness.get("fn") == "hand":
        check_hand(ctx, witness["seed"], witness.get("subprocess", False))
        return
    model, loaded, obj = bc.from_witness(witness)
    try:
        check_ir(ctx, model, witness["style"], loaded, obj)
    finally:
        loaded.unload()


def run_shard(ctx):
    rng = ctx.rng
    n_hand = ctx.per_shard(ctx.pick(60000, 1200000))
    for i in range(n_hand):
        check_hand(ctx, rng.getrandbits(48), subprocess_leg=(i % ctx.pick(700, 3000) == 0))
    n_models = ctx.per_shard(ctx.pick(12000, 250000))
    min_d = MIN_DISTINCT[ctx.tier] // ctx.nshards + 1
    k = 0
    while k < n_models and (ctx.time_left() > 0 or len(ctx.fingerprints) < min_d):
        k += 1
        try:
            case = bc.make_case(ctx, max_classes=4, max_fields=5, n_objs=3)
        except Exception as e:  # noqa: BLE001
            ctx.inconc(f"model generation failed: {e}")
            continue
        try:
            ctx.feature(*bc.model_features(case.model))
            for obj in case.objs:
                check_ir(ctx, case.model, case.style, case.loaded, obj)
        finally:
            case.close()
