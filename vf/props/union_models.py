"""Hand-written models with unions of classes and unions of a class with primitives, used by C01 (round trip)
and C08 (handlers and sources agree). The generated models of vf/ir.py have no such fields; the candidates of a
union are tried one after the other by the parsers, with everything below the union element replayed."""

from dataclasses import dataclass, field
from typing import List, Optional, Union
from xml.etree.ElementTree import QName

NS = "urn:vf:union"


@dataclass
class Item:
    q: Optional[QName] = field(default=None, metadata={"type": "Element"})
    n: Optional[int] = field(default=None, metadata={"type": "Attribute"})


@dataclass(kw_only=True)
class Left:  # (the required member without default tells the candidates apart: the other class cannot be built from it)
    item: Optional[Item] = field(default=None, metadata={"type": "Element"})
    x: int = field(metadata={"type": "Element", "required": True})


@dataclass(kw_only=True)
class Right:
    item: Optional[Item] = field(default=None, metadata={"type": "Element"})
    y: str = field(metadata={"type": "Element", "required": True})
    items: List[Item] = field(default_factory=list, metadata={"type": "Element", "name": "more"})


@dataclass
class Holder:
    class Meta:
        name = "holder"
        namespace = NS

    u: Optional[Union[Left, Right]] = field(default=None, metadata={"type": "Element", "nillable": True})
    us: List[Union[Left, Right]] = field(default_factory=list, metadata={"type": "Element"})
    m: Optional[Union[Left, int]] = field(default=None, metadata={"type": "Element"})
    ms: List[Union[Left, int, str]] = field(default_factory=list, metadata={"type": "Element"})  # (an empty element is the empty string here, as it is for List[str])
    tail: Optional[str] = field(default=None, metadata={"type": "Element"})


def instances(rng):
    def item():
        return rng.choice([None, Item(), Item(q=QName("{urn:vf:union:p}a"), n=3), Item(q=QName("{urn:vf:union:q}b")), Item(n=-1)])  # (no unprefixed QName values: a default namespace may be in scope, known finding C05/unqualified-qname-under-default-namespace)

    def left():
        return Left(item=item(), x=rng.choice([0, 1, -7, 2**40]))

    def right():
        return Right(item=item(), y=rng.choice(["text", "two words", "é"]), items=[i for i in (item() for _ in range(rng.randrange(0, 3))) if i is not None])

    out = []
    for _ in range(12):
        out.append(Holder(u=rng.choice([None, left(), right()]), us=[rng.choice([left, right])() for _ in range(rng.randrange(0, 4))], m=rng.choice([None, left(), 5, 0, -3]), ms=[rng.choice([left(), 0, 12, "a", "two words", "", "é"]) for _ in range(rng.randrange(0, 4))], tail=rng.choice([None, "t"])))
    return out


# --- shapes the parser builds itself for single-valued wildcards (a generic element without a name) ---------------------
@dataclass
class AttrAndWild:  # an attribute field next to a single-valued wildcard
    class Meta:
        name = "attrAndWild"

    a: Optional[str] = field(default=None, metadata={"type": "Attribute"})
    extra: dict = field(default_factory=dict, metadata={"type": "Attributes"})
    any: Optional[object] = field(default=None, metadata={"type": "Wildcard"})


@dataclass
class Inner:
    class Meta:
        nillable = True

    any: Optional[object] = field(default=None, metadata={"type": "Wildcard"})


@dataclass
class NilHolder:
    class Meta:
        name = "nilHolder"

    inner: Optional[Inner] = field(default=None, metadata={"type": "Element", "nillable": True})
    after: Optional[str] = field(default=None, metadata={"type": "Element"})


def shape_instances():
    from xsdata.formats.dataclass.models.generics import AnyElement

    return [
        AttrAndWild(a="1", any=AnyElement(text="hello")),
        AttrAndWild(a="x y", extra={"k": "v"}, any=AnyElement(text="t")),
        AttrAndWild(any=AnyElement(text="only text")),
        NilHolder(inner=Inner(any=AnyElement(text=None, children=[AnyElement(qname="x", text="1"), AnyElement(qname="y", text="2")])), after="z"),
        NilHolder(inner=Inner(any=AnyElement(qname="x", text="1")), after="z"),
    ]


# documents for C08: prefixes declared at different depths below a union element
DOCS = [
    f'<h:holder xmlns:h="{NS}"><h:u><h:item xmlns:p="urn:p"><h:q>p:a</h:q></h:item><h:x>1</h:x></h:u></h:holder>',
    f'<holder xmlns="{NS}"><u><item n="1"><q xmlns:p="urn:p">p:a</q></item><y>s</y><more xmlns:z="urn:z"><q>z:b</q></more><more><q xmlns:z="urn:z2">z:b</q></more></u></holder>',
    f'<holder xmlns="{NS}" xmlns:xsi="http://www.w3.org/2001/XMLSchema-instance"><u xsi:nil="true"/><us><x>2</x></us><us><y>t</y></us><m>5</m></holder>',
    f'<holder xmlns="{NS}"><us xmlns:o="urn:o"><item><q>o:k</q></item><x>3</x></us><m><item xmlns:o="urn:o2"><q>o:k</q></item><x>4</x></m><tail>t</tail></holder>',
]
