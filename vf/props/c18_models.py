"""Hand-written binding models for C18 with the shapes the shared generator does not produce:
inner classes, inner enums, enum members as values and inside lists, stdlib date/time fields,
init=False fields, generics holding models and primitives."""

import datetime
from dataclasses import dataclass, field
from decimal import Decimal
from enum import Enum
from typing import Dict, List, Optional, Tuple
from xml.etree.ElementTree import QName

from xsdata.models.datatype import XmlDate, XmlDateTime, XmlDuration, XmlPeriod, XmlTime


class Color(Enum):
    RED = "red"
    DARK_BLUE = "dark blue"
    N1 = 1
    F = 2.5
    Q = QName("{urn:c}q")


@dataclass
class Outer:
    class Kind(Enum):
        A = "a"
        B = "b"

    @dataclass
    class Inner:
        class Deep(Enum):
            X = 1
            Y = 2

        v: Optional[int] = None
        deep: Optional["Outer.Inner.Deep"] = None
        deeps: List["Outer.Inner.Deep"] = field(default_factory=list)

    kind: Optional["Outer.Kind"] = None
    kinds: List["Outer.Kind"] = field(default_factory=list)
    inner: Optional["Outer.Inner"] = None
    inners: List["Outer.Inner"] = field(default_factory=list)
    color: Color = Color.RED
    colors: List[Color] = field(default_factory=list)
    fixed: str = field(init=False, default="fixed-value")


@dataclass(frozen=True)
class Frozen:
    xs: Tuple[int, ...] = field(default_factory=tuple)
    names: Tuple[str, ...] = field(default_factory=tuple)
    nested: Tuple[Outer.Inner, ...] = field(default_factory=tuple)
    one: Tuple[Decimal, ...] = field(default_factory=tuple)


@dataclass
class Dates:
    d: Optional[datetime.date] = field(default=None, metadata={"format": "%Y-%m-%d"})
    t: Optional[datetime.time] = field(default=None, metadata={"format": "%H:%M:%S"})
    dt: Optional[datetime.datetime] = field(default=None, metadata={"format": "%Y-%m-%dT%H:%M:%S"})
    xd: Optional[XmlDate] = None
    xt: Optional[XmlTime] = None
    xdt: Optional[XmlDateTime] = None
    dur: Optional[XmlDuration] = None
    per: Optional[XmlPeriod] = None


@dataclass
class Numbers:
    f: float = 0.0
    fs: List[float] = field(default_factory=list)
    dec: Decimal = Decimal("0")
    decs: List[Decimal] = field(default_factory=list)
    q: Optional[QName] = None
    qs: List[QName] = field(default_factory=list)
    b: bytes = field(default=b"", metadata={"format": "base64"})
    s: str = "default"
    i: int = 7
    flag: bool = True
    attrs: Dict[str, str] = field(default_factory=dict, metadata={"type": "Attributes"})
    anything: List[object] = field(default_factory=list, metadata={"type": "Wildcard"})


@dataclass
class Defaults:  # optional fields whose default is not None: an explicit None is a value of its own
    lang: Optional[str] = "en"
    indent: Optional[int] = 2
    ratio: Optional[float] = 1.5
    tags: Optional[List[str]] = field(default_factory=list)
    color: Optional[Color] = Color.RED
    when: Optional[XmlDate] = XmlDate(2020, 1, 1)
    inner: Optional[Outer.Inner] = field(default_factory=Outer.Inner)
