"""C19 — a shared binding context is safe under concurrent use.

Monitor shapes: (1) controlled schedules: a deterministic scheduler built on sys.monitoring LINE
events (vf/sched.py) runs real threads one at a time and pre-empts them only at lines that touch the
shared lazily-built state (type index, metadata cache, namespace-match memo, parser prefix map);
every schedule with <= 3 pre-emptions per conflict group is enumerated for pairs of operations on a
cold shared context; (2) PCT-style random schedules for 3-8 threads; (3) uncontrolled stress with 16
threads and a 1 microsecond switch interval. Oracle: every concurrent result equals the result of the
same call computed alone on a fresh context before the threads start; the C14 shadow hooks (index ==
brute-force scan, cache hit == rebuild) run under the scheduler too.
"""

from __future__ import annotations

import itertools
import json
import random
import sys
import threading
import time
import types

from vf import sched
from vf.props import c14
from vf.props import c14_models as M
from vf.xmlkit import deep_eq

ID = "C19"
LEVEL = "exploration"
RULE = (
    "case = (operations on 2..16 threads sharing one cold XmlContext and shared parser/serializer instances, schedule). Schedules: "
    "complete enumeration of all interleavings with <= 3 pre-emptions placed at the yield points of one conflict group at a time "
    "(type index, metadata cache, namespace memo, prefix map, other stored state of context/metadata, parser configuration) for ordered pairs of operations (quick: the lookup-heavy pairs; "
    "thorough: all pairs), PCT-style random schedules for 3-8 threads, and uncontrolled 16-thread stress. Non-trivial = at least one "
    "pre-emption was taken (or >= 3 threads ran); distinct = distinct interleaving signatures (order in which threads passed yield points) per operation tuple."
)
ASSUMPTIONS = [
    "CPython with the GIL: the hazards are atomicity violations between bytecodes, reached at line granularity on lines touching shared attributes (list recomputed from the working tree)",
    "expected results are computed alone on a fresh context before the threads start; process-wide state (sys.modules, converter registry) is shared by definition",
    "free-threaded builds and races inside lxml/expat are out of reach",
]
MIN_DISTINCT = {"quick": 1500, "thorough": 30000}
TIME = {"quick": 50, "thorough": 1300}
REQUIRED_FEATURES = ("mode:controlled-enumeration", "mode:pct-random", "mode:stress")

OPS = {
    "parse-root-lookup": ("parse", "item", None, "native", False),
    "parse-root-lookup-lxml": ("parse", "itemext", None, "lxml", False),
    "parse-xsi-type": ("parse", "box-xsi", "Box", "native", False),
    "parse-xsi-type-list": ("parse", "box-xsi-list", "Box", "lxml", False),
    "parse-xsi-list-no-class": ("parse", "box-xsi-list", None, "native", False),
    "wildcard-strict-lookup": ("parse", "wild-item", "Wild", "native", False),
    "wildcard-memo-1": ("parse", "wild-1", "Wild", "lxml", False),
    "wildcard-memo-2": ("parse", "wild-2", "Wild", "native", False),
    "parse-plain": ("parse", "box-plain", "Box", "native", True),
    "parse-unknown-xsi": ("parse", "box-unknown-xsi", "Box", "native", False),
    "decode-no-class": ("decode", "item", None, False),
    "decode-box": ("decode", "box", "Box", True),
    "serialize-derived": ("serialize", "box-derived", "native", False),
    "serialize-wild": ("serialize", "wild", "lxml", True),
    "encode-derived": ("encode", "box-derived", False),
    "serialize-mix": ("serialize", "mix", "native", False),
    "serialize-mix-lxml": ("serialize", "mix", "lxml", False),
    "parse-mix": ("parse", "mix", "Mix", "native", False),
    "encode-mix": ("encode", "mix", False),
    # candidate trials of a union-of-classes field (strict) next to lenient conversions on the same parser/decoder instance
    "parse-union": ("parse", "pet-dog", "Pet", "native", False),
    "parse-union-lenient": ("parse", "pet-cat-bad-tag", "Pet", "native", False),
    "parse-lenient": ("parse", "nums-bad", "Nums", "native", False),
    "decode-union": ("decode", "pet-dog", "Pet", False),
    "decode-union-lenient": ("decode", "pet-cat-bad-tag", "Pet", False),
    "decode-lenient": ("decode", "nums-bad", "Nums", False),
}
LOOKUP_HEAVY = ["parse-root-lookup", "parse-xsi-type", "wildcard-strict-lookup", "decode-no-class", "parse-xsi-list-no-class", "serialize-derived", "wildcard-memo-1", "import-module"]
STATE_OPS = ["serialize-mix", "parse-mix", "wildcard-memo-1", "wildcard-memo-2", "encode-mix", "serialize-mix-lxml"]  # first use of the same metadata on two threads
CONFIG_OPS = ["parse-union", "parse-lenient", "decode-union", "decode-lenient", "parse-union-lenient", "decode-union-lenient"]  # shared parser/decoder configuration
GROUPS = ["xsi", "cache", "memo", "nsmap", "state"]


def expected(opname):
    """Result of the operation alone on a fresh context (computed before the threads start)."""
    if opname == "import-module":
        return ("ok", "imported", None, 0)
    return c14.run_op(c14.Instances(), OPS[opname], c14.objects(), {"n": None})


_import_counter = [0]
_imported = []


def make_callable(opname, shared, objs):
    if opname == "import-module":

        def imp():
            _import_counter[0] += 1
            name = f"vf_c19_mod_{_import_counter[0]}_{threading.get_ident()}"
            mod = types.ModuleType(name)
            sys.modules[name] = mod  # changes len(sys.modules): the type index must be rebuilt
            _imported.append(name)
            exec(compile(M.LATE_SOURCE.format(n=f"c19x{_import_counter[0]}"), f"<{name}>", "exec"), mod.__dict__)  # noqa: S102
            return ("ok", "imported", None, 0)

        return imp
    return lambda: c14.run_op(shared, OPS[opname], objs, {"n": None})


def cleanup_imports():
    for name in _imported:
        sys.modules.pop(name, None)
    del _imported[:]


def judge(ctx, opnames, results, exp, w, label):
    for i, (name, res) in enumerate(zip(opnames, results)):
        if res is None:
            continue
        st, val = res
        if st == "exc":
            ctx.violation(f"harness/{type(val).__name__}", f"operation wrapper raised {val!r}", w)
            continue
        d = c14.same_outcome(exp[name], val)
        if d:
            ctx.violation(f"concurrent-result-differs/{name}/{d.split(':')[0]}", f"thread {i} ran {name} concurrently with {[n for j, n in enumerate(opnames) if j != i]} ({label}): alone vs concurrent: {d}", w)
            return True
    if c14._hook_violations:
        k, msg = c14._hook_violations[0]
        del c14._hook_violations[:]
        ctx.violation(f"hook/{k}", f"{opnames} ({label}): {msg}", w)
        return True
    return False


def controlled_pair(ctx, a, b, group, bound, exp, max_runs=None):
    objs = c14.objects()
    sigs = set()

    def make_fns():
        shared = c14.Instances()  # cold shared context + shared parser/serializer instances
        return [make_callable(a, shared, objs), make_callable(b, shared, objs)]

    def on_run(run, decisions, ok):
        w = {"fn": "controlled", "ops": [a, b], "group": group, "decisions": [list(d) for d in decisions]}
        ctx.evals()
        if not ok:
            ctx.inconc(f"controlled run did not finish within {run.timeout}s: {a} || {b} decisions={decisions}")
            return
        sig = run.signature()
        taken = sum(1 for x, y in zip(sig, sig[1:]) if x != y)
        if sig not in sigs:
            sigs.add(sig)
            ctx.case(a, b, group, sig, nontrivial=taken > 0)
        ctx.feature("mode:controlled-enumeration", f"group:{group}", f"preemptions:{len(decisions)}")
        for _, g, func, line in run.trace:
            ctx.hook(f"yield:{func}")
        judge(ctx, [a, b], run.results, exp, w, f"group {group}, pre-emptions at yield points {decisions}, interleaving {sig}")

    n, complete = sched.enumerate_schedules(make_fns, bound, [group], on_run, max_runs=max_runs)
    cleanup_imports()
    ctx.extra[f"pairs_complete_to_{complete}_preemptions"] = ctx.extra.get(f"pairs_complete_to_{complete}_preemptions", 0) + 1
    ctx.extra["controlled_runs"] = ctx.extra.get("controlled_runs", 0) + n
    return n


def pct_random(ctx, rng, exp, n_threads, depth=3):
    """Random priorities with `depth` priority change points (PCT), realised as pre-emption decisions."""
    names = [rng.choice(list(OPS) + ["import-module"]) for _ in range(n_threads)]
    objs = c14.objects()
    shared = c14.Instances()
    fns = [make_callable(nm, shared, objs) for nm in names]
    # decisions: at random yield indexes switch to a random other thread
    decisions = {}
    for _ in range(depth + rng.randrange(0, 4)):
        decisions[rng.randrange(0, 60)] = rng.randrange(n_threads)
    run = sched.Run(fns, decisions, None, saturation=4)
    ok = run.execute()
    cleanup_imports()
    ctx.evals()
    w = {"fn": "pct", "ops": names, "decisions": sorted(decisions.items())}
    if not ok:
        ctx.inconc(f"pct run did not finish: {names}")
        return
    sig = run.signature()
    ctx.case("pct", tuple(names), sig, nontrivial=True)
    ctx.feature("mode:pct-random", f"threads:{n_threads}")
    judge(ctx, names, run.results, exp, w, f"pct decisions {sorted(decisions.items())}")


def stress(ctx, rng, exp, n_threads=16, rounds=3):
    """Uncontrolled: real pre-emption by the interpreter with a tiny switch interval."""
    old = sys.getswitchinterval()
    sys.setswitchinterval(1e-6)
    try:
        for _ in range(rounds):
            names = [rng.choice(list(OPS) + ["import-module"]) for _ in range(n_threads)]
            objs = c14.objects()
            shared = c14.Instances()
            results = [None] * n_threads
            barrier = threading.Barrier(n_threads)

            def work(i, fn):
                barrier.wait()
                try:
                    results[i] = ("ok", fn())
                except BaseException as e:  # noqa: BLE001
                    results[i] = ("exc", e)

            ts = [threading.Thread(target=work, args=(i, make_callable(nm, shared, objs)), daemon=True) for i, nm in enumerate(names)]
            for t in ts:
                t.start()
            for t in ts:
                t.join(30)
            cleanup_imports()
            ctx.evals()
            if any(t.is_alive() for t in ts):
                ctx.inconc("stress threads did not finish within 30 s")
                continue
            ctx.case("stress", tuple(names), time.monotonic_ns(), nontrivial=True)
            ctx.feature("mode:stress")
            judge(ctx, names, results, exp, {"fn": "stress", "ops": names}, "uncontrolled stress")
    finally:
        sys.setswitchinterval(old)


def replay(witness, ctx):
    c14.install_hooks(ctx)
    c14.thread_safe_warnings()
    exp = {n: expected(n) for n in list(OPS) + ["import-module"]}
    if witness.get("fn") == "controlled":
        a, b = witness["ops"]
        objs = c14.objects()
        shared = c14.Instances()
        run = sched.Run([make_callable(a, shared, objs), make_callable(b, shared, objs)], [tuple(d) for d in witness["decisions"]], [witness["group"]])
        ok = run.execute()
        cleanup_imports()
        if ok:
            judge(ctx, [a, b], run.results, exp, witness, "replay")
        else:
            ctx.inconc("replay run did not finish")
    else:
        ctx.inconc("only controlled schedules replay deterministically; pct/stress witnesses document the operations involved")


def coverage_extra(coverage, tier):
    return {
        "exhaustive": False,
        "exhaustive_subspace": "per ordered pair and conflict group on a cold context: every schedule with <= d pre-emptions, breadth first; d per pair is reported by the counters pairs_complete_to_<d>_preemptions (enumeration of depth 3 is capped per pair)",
        "distinct_interleavings": coverage["distinct_nontrivial"],
        "yield_points_hit_per_function": {k[6:]: v for k, v in coverage["hook_evaluations"].items() if k.startswith("yield:")},
    }


def hash_key(w, seed):
    import hashlib

    return hashlib.sha1(repr((w, seed)).encode()).hexdigest()


def run_shard(ctx):
    c14.install_hooks(ctx)
    c14.thread_safe_warnings()
    c14.FIND_TYPES_SAMPLE[0] = 5
    sched.install()
    rng = ctx.rng
    names = list(OPS) + ["import-module"]
    exp = {n: expected(n) for n in names}
    for n, e in exp.items():
        if e[0] == "exc" and n not in ("parse-unknown-xsi",):
            ctx.inconc(f"operation {n} fails when run alone: {e[1:3]}")
    heavy = LOOKUP_HEAVY[:6] if ctx.quick() else LOOKUP_HEAVY
    pairs = list(itertools.product(heavy, repeat=2)) if ctx.quick() else list(itertools.product(names, repeat=2))
    work = [(a, b, g) for (a, b) in pairs for g in (GROUPS[:4] if ctx.quick() else GROUPS)]
    state_ops = STATE_OPS[:4] if ctx.quick() else STATE_OPS
    work += [(a, b, g) for (a, b) in itertools.product(state_ops, repeat=2) for g in ("state", "memo")]
    config_ops = CONFIG_OPS[:4] if ctx.quick() else CONFIG_OPS
    work += [(a, b, g) for (a, b) in itertools.product(config_ops, repeat=2) for g in ("config", "cache")]
    rng.shuffle(work)  # balance the expensive 'xsi' items over the shards (same order in every shard: seeded identically below)
    work = sorted(work, key=lambda w: hash_key(w, ctx.seed))
    for i, (a, b, g) in enumerate(work):
        if not ctx.mine(i):
            continue
        if ctx.time_left() < -180:
            ctx.inconc("time budget exhausted before the pair enumeration finished")
            break
        cap = {"xsi": ctx.pick(300, 160), "nsmap": ctx.pick(100, 100)}.get(g, ctx.pick(200, 110))  # (thorough: all 676 ordered pairs of all operations in 5 groups instead of 64 pairs in 4, so smaller caps per pair; the counters pairs_complete_to_<d>_preemptions say what was enumerated completely)
        controlled_pair(ctx, a, b, g, 3, exp, max_runs=cap)
    n_pct = ctx.per_shard(ctx.pick(250, 6000))
    for _ in range(n_pct):
        pct_random(ctx, rng, exp, rng.choice([3, 4, 5, 8]))
    stress(ctx, rng, exp, 16, rounds=ctx.pick(3, 40))
    ctx.sample({"pair": ["parse-root-lookup", "parse-xsi-type"], "group": "xsi", "decisions": [[2, 1], [5, 0], [7, 1]], "meaning": "thread 0 is pre-empted at its 3rd yield point, thread 1 at the 6th overall, ..."})
