"""C03 — serialized XML is well-formed, namespace-well-formed, and says exactly what the metadata says.

Monitor shapes: (1) independent validators per produced document: strict libxml2, expat, and an own
namespace-scope checker on raw expat events; (2) reference model: vf.ir.Ref computes the expected
infoset from the documented class/field metadata without consulting XmlMeta/XmlVar, compared with
libxml2's reading of the output; (3) contract hooks on generate_prefix / EventHandler (prefix
freshness, context-stack balance); (4) hostile workloads: user prefix maps (collisions with
generated prefixes, reserved/invalid prefixes, duplicate URIs, unused entries, competing defaults)
and hostile text (CR, C0 controls, U+FFFE/FFFF, lone surrogates).
"""

from __future__ import annotations

from vf import bindcase as bc
from vf import ir
from vf import lexical as lx
from vf import xmlkit
from vf.xmlkit import XSI

ID = "C03"
LEVEL = "exploration"
RULE = (
    "case = (generated binding model, instance, serializer configuration incl. user prefix map, writer); every rendered "
    "document is judged by strict libxml2 + expat (well-formedness), an own namespace-scope checker and the reference "
    "infoset computed from the metadata by vf.ir.Ref. Hostile sub-population: prefix maps that collide with generated "
    "prefixes / are reserved / are not NCNames / bind one URI twice, and text with CR, C0 controls, U+FFFE/FFFF, lone "
    "surrogates. Non-trivial = the writer ran and at least one judge produced a verdict on a model with >= 2 fields; "
    "distinct = distinct (model structure, instance, configuration, writer)."
)
ASSUMPTIONS = [
    "reference semantics transcribed from docs/models/*.md and the documented inheritance rule (elements and wildcards inherit the class namespace, attributes do not); vf/ir.py Ref",
    "leaf values are compared in value space (vf/lexical.py); exact spelling is not demanded; attribute order is free; indentation whitespace ignored outside mixed content",
    "acceptable failure for hostile input: an exception from xsdata.exceptions or a ValueError raised by the writer backend; KeyError/AttributeError/TypeError/IndexError/UnicodeError or a non-well-formed result are violations",
    "models restricted as in C01 (admissibility rules, single consistent inherited namespace per class)",
]
MIN_DISTINCT = {"quick": 15000, "thorough": 250000}
TIME = {"quick": 45, "thorough": 600}
REQUIRED_HOOKS = ("generate_prefix", "EventHandler.end_document")

_ctx = None
_hooked = False


def install_hooks(ctx):
    global _ctx, _hooked
    _ctx = ctx
    if _hooked:
        return
    _hooked = True
    from xsdata.formats.dataclass.serializers import mixins
    from xsdata.utils import namespaces

    orig_gp = namespaces.generate_prefix

    def generate_prefix(uri, ns_map):
        before = dict(ns_map)
        prefix = orig_gp(uri, ns_map)
        _ctx.hook("generate_prefix")
        if prefix in before and before[prefix] != uri:
            raise PrefixReused(f"generate_prefix({uri!r}) returned {prefix!r} which was bound to {before[prefix]!r}")
        if ns_map.get(prefix) != uri:
            raise PrefixReused(f"generate_prefix({uri!r}) returned {prefix!r} but the map binds it to {ns_map.get(prefix)!r}")
        return prefix

    namespaces.generate_prefix = generate_prefix
    for mod in (mixins,):
        if getattr(mod, "generate_prefix", None) is orig_gp:
            mod.generate_prefix = generate_prefix

    EH = mixins.EventHandler
    orig_write = EH.write

    def write(self, events):
        orig_write(self, events)
        _ctx.hook("EventHandler.end_document")
        if self.ns_context or self.pending_prefixes or self.pending_tag is not None or self.attrs:
            raise WriterStateLeft(f"after end_document: ns_context depth {len(self.ns_context)}, pending_prefixes {self.pending_prefixes}, pending_tag {self.pending_tag}, attrs {self.attrs}")

    EH.write = write


class PrefixReused(Exception):
    pass


class WriterStateLeft(Exception):
    pass


def acceptable_failure(e, hostile=None):
    import xsdata.exceptions as xe

    if isinstance(e, (PrefixReused, WriterStateLeft)):
        return False
    if isinstance(e, tuple(v for v in vars(xe).values() if isinstance(v, type) and issubclass(v, Exception))):
        return True
    if hostile == "text":
        return isinstance(e, ValueError)  # backend rejecting a character (lxml raises ValueError / UnicodeEncodeError)
    return type(e) is ValueError  # backend explicitly rejecting a name


def judge(ctx, model, style, loaded, obj, cfg, writer, hostile=None, tree=False):
    """Render one document and run every judge over it. hostile: None | 'prefixes' | 'text'."""
    w = bc.witness(model, style, obj, cfg, writer=writer, hostile=hostile, tree=tree, fn="judge")
    try:
        if tree:
            from lxml import etree
            from xsdata.formats.dataclass.serializers import TreeSerializer
            from xsdata.formats.dataclass.serializers.config import SerializerConfig

            ts = TreeSerializer(config=SerializerConfig(indent=cfg.get("indent"), ignore_default_attributes=cfg.get("ignore_default_attributes", False),
                                                        schema_location=cfg.get("schema_location"), no_namespace_schema_location=cfg.get("no_namespace_schema_location")))
            xml = etree.tostring(ts.render(obj, ns_map=bc.ns_map_of(cfg)), encoding="unicode")
        else:
            xml = bc.render(loaded, obj, cfg, writer)
    except Exception as e:  # noqa: BLE001
        if hostile and acceptable_failure(e, hostile):
            ctx.feature(f"hostile-{hostile}:rejected-cleanly")
            return None
        kind = "hook" if isinstance(e, (PrefixReused, WriterStateLeft)) else "serialize-raises"
        ctx.violation(f"{kind}/{writer if not tree else 'tree'}/{bc.short_exc(e)}", f"render raised {type(e).__name__}: {e}", w)
        return None
    w["xml"] = xml
    who = writer if not tree else "tree"
    try:
        root = xmlkit.parse_strict(xml)
    except Exception as e:  # noqa: BLE001
        ctx.violation(f"not-well-formed/{who}/libxml2", f"strict libxml2 rejects the output: {e}\n{xml[:1200]!r}", w)
        return xml
    err = xmlkit.expat_wellformed(xml)
    if err:
        ctx.violation(f"not-well-formed/{who}/expat", f"expat rejects the output: {err}\n{xml[:1200]!r}", w)
        return xml
    probs = xmlkit.check_namespace_scopes(xml)
    if probs:
        ctx.violation(f"namespace-scope/{who}/{scope_key(probs[0])}", f"{probs[:4]}\n{xml[:1500]}", w)
        return xml
    try:
        ref = ir.Ref(loaded, ignore_default_attributes=cfg.get("ignore_default_attributes", False))
        exp = ref.root(obj)
    except ir.Unsupported as e:
        ctx.drop(f"reference model does not cover: {e}")
        return xml
    act = xmlkit.infoset(root)
    if cfg.get("schema_location"):
        exp.attrs[f"{{{XSI}}}schemaLocation"] = cfg["schema_location"]
    if cfg.get("no_namespace_schema_location"):
        exp.attrs[f"{{{XSI}}}noNamespaceSchemaLocation"] = cfg["no_namespace_schema_location"]
    diffs = ir.compare(exp, act, cfg_indent=bool(cfg.get("indent")))
    if diffs:
        ctx.violation(f"says-something-else/{who}/{diff_key(diffs[0])}", f"{diffs[:4]}\n{xml[:1500]}", w)
    return xml


def scope_key(p):
    for k in ("undeclared prefix", "not an NCName", "two attributes", "xmlns must not", "prefix xml bound", "XML namespace bound", "not allowed in Namespaces", "more than one colon", "expat"):
        if k in p:
            return k.replace(" ", "-")
    return "other"


def diff_key(d):
    for k in ("metadata prescribes", "missing attribute", "is not prescribed", "does not denote", "xsi:type", "xsi:nil", "children", "character data", "whitespace", "!="):
        if k in d:
            return k.replace(" ", "-")
    return "other"


# ----------------------------------------------------------------------------- hostile generators
def hostile_ns_map(rng, model):
    eff = ir.effective_namespaces(model)
    uris = sorted({u for u in eff.values() if u} | {f.namespace for c in model.classes for f in c.fields if f.namespace and not f.namespace.startswith("#")}) or [f"urn:vf:{model.salt}:a"]
    other = f"urn:vf:{model.salt}:unrelated"
    m = []
    kind = rng.choice(["collide", "collide", "collide-other", "default-other", "dup-uri", "competing-default", "reserved", "invalid", "empty-uri", "mix"])
    if kind in ("collide", "mix"):
        for i in rng.sample(range(0, 6), rng.randrange(1, 4)):
            m.append([f"ns{i}", rng.choice(uris)])
    if kind in ("collide-other", "mix"):
        for i in rng.sample(range(0, 5), rng.randrange(1, 3)):
            m.append([f"ns{i}", other + str(i)])
    if kind == "default-other":
        m.append(["", rng.choice(uris + [other])])
        m.append([f"ns{rng.randrange(3)}", rng.choice(uris)])
    if kind == "dup-uri":
        u = rng.choice(uris)
        m += [["a", u], ["ns1", u], ["", u]]
    if kind == "competing-default":
        m += [["", rng.choice(uris)], [None, other]]
    if kind == "reserved":
        m.append([rng.choice(["xml", "xmlns", "xsi", "xs", "xml", "p", ""]), rng.choice(uris + [other, XSI, "http://www.w3.org/XML/1998/namespace", "http://www.w3.org/XML/1998/namespace", "http://www.w3.org/2000/xmlns/"])])
    if kind == "invalid":
        m.append([rng.choice(["a b", "1x", "a:b", "-a", "é", "p.q", "x<y", "", "·z"]), rng.choice(uris)])
    if kind == "empty-uri":
        m += [["p", ""], ["ns0", rng.choice(uris)]]
    rng.shuffle(m)
    return kind, m


HOSTILE_CHARS = ["\r", "\r\n", "\x00", "\x01", "\x0b", "\x0c", "\x1f", "￾", "￿", "\ud800", "\udfff", "\x7f", "\x85", " "]


def hostile_text(rng):
    base = rng.choice(["", "a", "line1", "x y"])
    ch = rng.choice(HOSTILE_CHARS)
    pos = rng.randrange(len(base) + 1)
    return base[:pos] + ch + base[pos:], ch


def inject_hostile_text(rng, model, loaded, obj):
    """Replace one str leaf (element text, attribute value, wildcard text or attribute) of obj. Returns (obj2, ch) or None."""
    import copy
    import dataclasses

    targets = []

    def walk(o, setter_path):
        if dataclasses.is_dataclass(o) and not isinstance(o, type):
            for f in dataclasses.fields(o):
                v = getattr(o, f.name)
                if isinstance(v, str) and f.name not in ("qname", "type"):
                    targets.append((o, f.name, None))
                elif isinstance(v, list):
                    for i, x in enumerate(v):
                        if isinstance(x, str):
                            targets.append((v, i, "list"))
                        else:
                            walk(x, None)
                elif isinstance(v, dict):
                    for k in v:
                        targets.append((v, k, "dict"))
                else:
                    walk(v, None)

    if any(c.frozen for c in model.classes):
        return None
    o2 = copy.deepcopy(obj)
    walk(o2, None)
    # only plain xs:string leaves (enum/union leaves hold str too; restrict to fields typed exactly str)
    keep = []
    for holder, key, kind in targets:
        if kind is None:
            cname = type(holder).__name__
            if cname == "AnyElement":
                keep.append((holder, key, kind))
                continue
            try:
                c = model.cls(cname)
            except KeyError:
                continue
            spec = {f.name: f for _, f in ir.chain_fields(model, c)}.get(key)
            if spec and len(spec.types) == 1 and spec.types[0].kind == "prim" and spec.types[0].name == "str" and not spec.tokens and spec.xml in ("Element", "Attribute") and not spec.nillable:
                keep.append((holder, key, kind))
        elif kind == "dict":
            keep.append((holder, key, kind))
    if not keep:
        return None
    holder, key, kind = rng.choice(keep)
    txt, ch = hostile_text(rng)
    if kind is None:
        setattr(holder, key, txt)
    else:
        holder[key] = txt
    return o2, ch


HOSTILE_NAMES = ["a b", "a:b", "p:x", "1x", "-a", "x<y", "", "a\tb", "{urn:x}a b", "{urn:x}p:q", "a/b", "a&b", "x y z", "{urn:x}"]


def inject_hostile_name(rng, model, obj):
    """Names that come from instance data: a key of an attributes map or the qname of a generic element is replaced by
    something that is no (qualified) name. Returns (obj2, name) or None."""
    import copy
    import dataclasses

    if any(c.frozen for c in model.classes):
        return None
    o2 = copy.deepcopy(obj)
    targets = []

    def walk(o):
        if dataclasses.is_dataclass(o) and not isinstance(o, type):
            if type(o).__name__ == "AnyElement" and o.qname:
                targets.append(("qname", o))
            for f in dataclasses.fields(o):
                v = getattr(o, f.name)
                if isinstance(v, dict) and f.name != "attributes" and v:
                    targets.append(("key", v))
                elif isinstance(v, dict) and v:
                    targets.append(("key", v))
                elif isinstance(v, (list, tuple)):
                    for x in v:
                        walk(x)
                else:
                    walk(v)

    walk(o2)
    if not targets:
        return None
    kind, t = rng.choice(targets)
    name = rng.choice(HOSTILE_NAMES)
    if kind == "qname":
        t.qname = name
    else:
        k = rng.choice(sorted(t))
        t[name] = t.pop(k)
    return o2, name


def run_case(ctx, case):
    rng = ctx.rng
    model = case.model
    ctx.feature(*bc.model_features(model))
    nontrivial = sum(len(c.fields) for c in model.classes) >= 2
    sfp = bc.structure_fp(model)
    for obj in case.objs:
        ofp = bc.obj_fp(model, obj)
        cfg = bc.gen_config(ctx, model, case.loaded, obj, allow_default_ns=case.default_ns)
        if rng.random() < 0.15:
            cfg["schema_location"] = f"urn:vf:{model.salt}:a schema.xsd"
        if rng.random() < 0.1:
            cfg["no_namespace_schema_location"] = "local.xsd"
        for writer in bc.WRITERS:
            ctx.case(sfp, ofp, repr(cfg), writer, nontrivial=nontrivial)
            xml = judge(ctx, model, case.style, case.loaded, obj, cfg, writer)
        if rng.random() < 0.5:
            ctx.case(sfp, ofp, repr(cfg), "tree", nontrivial=nontrivial)
            judge(ctx, model, case.style, case.loaded, obj, cfg, "lxml", tree=True)
        if len(ctx.samples) < 3 and nontrivial and xml:
            ctx.sample({"model_source": case.loaded.source[-1200:], "instance": repr(obj)[:500], "config": cfg, "xml": xml[:700]})
        # hostile prefix map
        kind, m = hostile_ns_map(rng, model)
        hcfg = dict(cfg)
        hcfg["ns_map"] = m
        if any((k or "") == "" for k, _ in m) and (not case.default_ns or bc.unqualified_xsi_type_possible(model)):
            pass  # a default namespace would make unqualified QName values / xsi:type unrepresentable here
        else:
            ctx.feature(f"hostile-prefixes:{kind}")
            for writer in bc.WRITERS:
                ctx.case(sfp, ofp, repr(hcfg), writer, "hostile-prefixes", nontrivial=nontrivial)
                judge(ctx, model, case.style, case.loaded, obj, hcfg, writer, hostile="prefixes")
        # hostile names
        inj = inject_hostile_name(rng, model, obj)
        if inj:
            o2, nm = inj
            ctx.feature("hostile-names")
            for writer in bc.WRITERS:
                ctx.case(sfp, bc.obj_fp(model, o2), repr(cfg), writer, "hostile-names", nontrivial=nontrivial)
                judge(ctx, model, case.style, case.loaded, o2, cfg, writer, hostile="names")
        # hostile text
        inj = inject_hostile_text(rng, model, case.loaded, obj)
        if inj:
            o2, ch = inj
            ctx.feature(f"hostile-text:{ch!r}")
            for writer in bc.WRITERS:
                ctx.case(sfp, bc.obj_fp(model, o2), repr(cfg), writer, "hostile-text", nontrivial=nontrivial)
                judge(ctx, model, case.style, case.loaded, o2, cfg, writer, hostile="text")


def replay(witness, ctx):
    install_hooks(ctx)
    if witness.get("fn") == "noop":
        return
    model, loaded, obj = bc.from_witness(witness)
    try:
        judge(ctx, model, witness["style"], loaded, obj, witness["cfg"], witness["writer"], hostile=witness.get("hostile"), tree=witness.get("tree", False))
    finally:
        loaded.unload()


def run_shard(ctx):
    install_hooks(ctx)
    if ctx.shard == 0:
        from vf.props.c01 import run_probes

        run_probes(ctx, "C03/")
    n_models = ctx.per_shard(ctx.pick(5000, 120000))
    min_d = MIN_DISTINCT[ctx.tier] // ctx.nshards + 1
    k = 0
    while k < n_models and (ctx.time_left() > 0 or len(ctx.fingerprints) < min_d):
        k += 1
        big = ctx.rng.random() < 0.25
        try:
            case = bc.make_case(ctx, max_classes=6 if big else 4, max_fields=7 if big else 5, n_objs=2, max_depth=4 if big else 3, adjacent_text=True)
        except Exception as e:  # noqa: BLE001
            ctx.violation(f"model-rejected/{bc.short_exc(e)}", f"{type(e).__name__}: {e}", {"fn": "noop"})
            continue
        try:
            run_case(ctx, case)
        finally:
            case.close()
