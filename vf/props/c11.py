"""C11 — arbitrary XML survives the generic element model.

Monitor shape: reference oracle (libxml2 infoset of the input document) + two executions compared
(wildcard path vs stand-alone TreeParser; first parse vs parse of the re-serialized output).
Workload: (a) bounded-exhaustive enumeration of all small trees over small alphabets of names,
namespaces, attributes, text and tails; (b) seeded random larger trees with nested foreign
namespaces, default-namespace switches, xsi:type'd primitives and xsi:nil; x wildcard placements
(single, list, mixed, with choices, ##any/##other/##local/##targetNamespace, attribute maps, inside
typed models at depth) x both handlers x both writers.
"""

from __future__ import annotations

import itertools
import random

import re

from vf import bindcase as bc
from vf import xmlkit
from vf.props import c11_models as M
from vf.xmlkit import XSI, deep_eq

ID = "C11"
LEVEL = "exploration"
RULE = (
    "case = (fragment tree, wildcard placement, handler, writer). Fragment trees: complete enumeration of all trees with <= N nodes "
    "over names {a,b} x namespaces {none, p} x attribute {none, k} x text {'', 't', ' '} x tail {'', 't'} (N = 2 plus a reduced-"
    "alphabet N = 3 in the quick tier; N = 3 full plus reduced N = 4 in the thorough tier: `exhaustive_subspace` in the evidence), "
    "plus seeded random trees of up to 60 nodes with two foreign namespaces, default-namespace switches, qualified attributes, "
    "xsi:type'd primitives and xsi:nil. Non-trivial = the fragment was captured by the wildcard and both directions ran; distinct = "
    "distinct (document bytes, placement, handler, writer)."
)
ASSUMPTIONS = [
    "the input document's infoset as read by strict libxml2 is the reference; whitespace-only text next to child elements is insignificant (the property's own exception)",
    "attribute values that look like prefixed names may be re-spelled with another prefix bound to the same namespace (QName-style expansion by parse_any_attribute)",
    "a namespace-restricted wildcard only receives fragments it matches; element names never match a loaded dataclass",
]
MIN_DISTINCT = {"quick": 15000, "thorough": 400000}
TIME = {"quick": 45, "thorough": 600}
P, Q = M.P, M.Q


# ----------------------------------------------------------------------------- tree specs and documents
class N:
    __slots__ = ("ns", "local", "attrs", "text", "kids", "tail")

    def __init__(self, ns, local, attrs=(), text="", kids=(), tail=""):
        self.ns, self.local, self.attrs, self.text, self.kids, self.tail = ns, local, tuple(attrs), text, list(kids), tail

    def key(self):
        return (self.ns, self.local, self.attrs, self.text, tuple(k.key() for k in self.kids), self.tail)


ESC = {"&": "&amp;", "<": "&lt;", ">": "&gt;"}


def esc(s):
    return "".join(ESC.get(c, c) for c in s)


def to_xml(n: N, scope, use_default=False):
    """Own tiny writer: declares what it needs where it needs it."""
    decls = []
    scope = dict(scope)

    def pfx(ns, attr=False):
        if ns is None:
            if not attr and scope.get(None):
                scope[None] = None
                decls.append('xmlns=""')
            return ""
        for p, u in scope.items():
            if u == ns and (p is not None or not attr):
                return f"{p}:" if p else ""
        if use_default and not attr:
            scope[None] = ns
            decls.append(f'xmlns="{ns}"')
            return ""
        p = {P: "p", Q: "q", XSI: "xsi", M.HOST: "h", "http://www.w3.org/2001/XMLSchema": "xs"}.get(ns, "z")
        while p in scope and scope[p] != ns:
            p += "x"
        scope[p] = ns
        decls.append(f'xmlns:{p}="{ns}"')
        return f"{p}:"

    name = pfx(n.ns) + n.local
    attrs = []
    for (ans, al, v) in n.attrs:
        if isinstance(v, tuple):  # QName-valued (ns, local): spell with a prefix in scope
            v = pfx(v[0], attr=True) + v[1]
        attrs.append(f'{pfx(ans, attr=True)}{al}="{esc(v)}"')
    inner = esc(n.text) + "".join(to_xml(k, scope, use_default) + esc(k.tail) for k in n.kids)
    head = " ".join([name] + decls + attrs)
    return f"<{head}>{inner}</{name}>" if inner else f"<{head}/>"


def shapes(n):
    """All ordered rooted tree shapes with n nodes, as nested tuples of children."""
    if n == 1:
        return [()]
    out = []
    for parts in compositions(n - 1):
        for combo in itertools.product(*[shapes(p) for p in parts]):
            out.append(tuple(combo))
    return out


def compositions(n):
    if n == 0:
        return [()]
    out = []
    for first in range(1, n + 1):
        for rest in compositions(n - first):
            out.append((first,) + rest)
    return out


def enumerate_trees(n_nodes, names, nss, attrs, texts, tails):
    """Yield every labelled tree with exactly n_nodes nodes."""
    for shape in shapes(n_nodes):
        yield from label(shape, names, nss, attrs, texts, tails, root=True)


def label(shape, names, nss, attrs, texts, tails, root=False):
    kid_options = [list(label(s, names, nss, attrs, texts, tails)) for s in shape]
    for local, ns, at, text in itertools.product(names, nss, attrs, texts):
        for tail in ([""] if root else tails):
            for kids in itertools.product(*kid_options):
                yield N(ns, local, at, text, [clone(k) for k in kids], tail)


def clone(n):
    return N(n.ns, n.local, n.attrs, n.text, [clone(k) for k in n.kids], n.tail)


def random_tree(rng, budget, depth=0):
    ns = rng.choice([None, None, P, Q])
    n = N(ns, rng.choice(["a", "b", "c-d", "é", "x.y", "a", "b", "AnyElement", "DerivedElement"]))  # (names of the library's own generic classes are ordinary names)
    if depth == 0 and rng.random() < 0.12:
        n = N(None, rng.choice(["AnyElement", "DerivedElement"]))  # top-level fragments are looked up in the type index by name
    at = []
    if rng.random() < 0.4:
        at.append((None, "k", rng.choice(["v", "", "a b", "1"])))
    if rng.random() < 0.2:
        at.append((Q, "k", rng.choice(["v", "w"])))
    # values that look like prefixed names are kept out of the population: known finding
    # C11/prefixed-attribute-value-becomes-clark-notation has its own probe (probe_prefixed_attribute_value)
    n.attrs = tuple(at)
    nk = 0 if depth > 5 or budget[0] <= 0 else rng.choice([0, 0, 1, 2, 3])
    if nk == 0:
        r = rng.random()
        if r < 0.15:
            # an element of a simple type carries no other attributes
            n.attrs = ((XSI, "type", ("http://www.w3.org/2001/XMLSchema", rng.choice(["int", "string", "boolean"]))),)
            n.text = {"int": "42", "string": "str", "boolean": "true"}[n.attrs[-1][2][1]]
        elif r < 0.2:
            n.attrs = n.attrs + ((XSI, "nil", "true"),)
        else:
            n.text = rng.choice(["", "t", "some text", " ", " lead", "é&<>"])
            if n.text.strip() and rng.random() < 0.08:
                n.attrs = n.attrs + ((XSI, "nil", "false"),)  # an explicit "not nil" on an element with content
    else:
        n.text = rng.choice(["", "", "lead", "\n  "])
        if rng.random() < 0.05:
            n.attrs = n.attrs + ((XSI, "nil", "false"),)
        for _ in range(nk):
            budget[0] -= 1
            k = random_tree(rng, budget, depth + 1)
            k.tail = rng.choice(["", "", "tail", " ", "\n"])
            n.kids.append(k)
    if depth > 0 and rng.random() < 0.07 and not any(a[0] == XSI for a in n.attrs):
        # a nested generic element naming a type nobody knows, through a prefix it declares itself: stays an attribute whose
        # value is a qualified name (seeded change C11-r4-2: the child was handed its parent's prefixes)
        n.attrs = n.attrs + ((XSI, "type", (rng.choice([P, Q]), rng.choice(["foo", "a"]))),)
    return n


# ----------------------------------------------------------------------------- placements
def host_document(placement, frags, rng=None, use_default=False, lead_text=None):
    """Wrap fragments into the host element of a placement. Returns xml str or None if not applicable."""
    if placement == "Single":  # several elements for a single-valued wildcard are kept under an anonymous wrapper
        return "<Single>" + "".join(to_xml(f, {}, use_default) for f in frags) + "</Single>"
    if placement == "TwoWild":  # elements of namespace P first, unqualified ones after them
        if [f.ns for f in frags] != sorted([f.ns for f in frags], key=lambda n: n is None) or any(f.ns not in (None, P) for f in frags):
            return None
        return "<TwoWild>" + "".join(to_xml(f, {}, use_default) for f in frags) + "</TwoWild>"
    if placement == "Many":
        return "<Many>" + "".join(to_xml(f, {}, use_default) for f in frags) + "</Many>"
    if placement == "Mixed":
        return "<Mixed>" + (esc(lead_text) if lead_text else "") + "".join(to_xml(f, {}, use_default) + esc(f.tail) for f in frags) + "</Mixed>"
    if placement == "Local":
        if any(f.ns is not None for f in frags):
            return None
        return "<Local>" + "".join(to_xml(f, {}, use_default) for f in frags) + "</Local>"
    if placement == "Other":
        if any(f.ns in (None, M.HOST) for f in frags):
            return None
        return f'<h:Other xmlns:h="{M.HOST}">' + "".join(to_xml(f, {"h": M.HOST}, use_default) for f in frags) + "</h:Other>"
    if placement == "Target":
        if any(f.ns != P for f in frags):
            return None
        return f'<p:Target xmlns:p="{P}">' + "".join(to_xml(f, {"p": P}, use_default) for f in frags) + "</p:Target>"
    if placement == "Typed":
        return '<Typed k0="v0">' + "<head>hh</head>" + "".join(to_xml(f, {}, use_default) for f in frags) + "<foot>7</foot></Typed>"
    if placement == "Deep":
        if len(frags) < 1:
            return None
        inner = "<head>x</head>" + "".join(to_xml(f, {}, use_default) for f in frags[1:])
        return f"<Deep><child>{inner}</child><kid>{inner}</kid><kid><head>y</head></kid>{to_xml(frags[0], {}, use_default)}</Deep>"
    if placement == "WithChoices":
        return "<WithChoices><num>5</num>" + "".join(to_xml(f, {}, use_default) for f in frags) + "<item><v>1</v></item></WithChoices>"
    raise KeyError(placement)


def norm_infoset(node: xmlkit.Node):
    """Canonical form for the comparison: whitespace-only text next to child elements dropped,
    attribute values that are prefixed names resolved through the in-scope prefixes."""
    has_kids = bool(node.children)

    def t(x):
        x = x or ""
        return "" if has_kids and not x.strip(" \t\r\n") else x

    attrs = {}
    for k, v in node.attrs.items():
        pfx, _, loc = v.partition(":")
        if k == f"{{{XSI}}}type" and not loc and node.nsmap.get(None) and " " not in v:
            # an unprefixed xsi:type value is a QName in the default namespace (XSD QName resolution); writers use that
            # spelling when the caller's prefix map binds the namespace as the default one
            pfx, loc = None, v
        if k == f"{{{XSI}}}type" and node.nsmap.get(pfx) == "http://www.w3.org/2001/XMLSchema":
            # a builtin xsi:type is bound to a python value: the writer names a type of the same family
            fam = {"integer": "integer", "long": "integer", "int": "integer", "short": "integer", "byte": "integer", "float": "float", "double": "float"}.get(loc, loc)
            attrs[k] = ("builtin", fam)
            continue
        if loc and pfx in node.nsmap and " " not in v and not loc.startswith("//"):
            attrs[k] = ("qname", node.nsmap[pfx], loc)
        else:
            attrs[k] = v
    kids = []
    for c in node.children:
        tail = c.tail or ""
        kids.append((norm_infoset(c), "" if not tail.strip(" \t\r\n") else tail))
    return (node.tag, tuple(sorted(attrs.items())), t(node.text), tuple(kids))


def check(ctx, placement, doc, frag_key, label):
    Host = M.PLACEMENTS[placement]
    try:
        ref = norm_infoset(xmlkit.infoset_of(doc))
    except Exception as e:  # noqa: BLE001
        ctx.drop(f"harness wrote a document libxml2 rejects ({type(e).__name__})")
        return
    w = {"fn": "check", "placement": placement, "doc": doc, "label": label}
    parsed = {}
    for handler in bc.HANDLERS:
        try:
            parsed[handler] = bc.strict_parser(handler).from_string(doc, Host)
        except Exception as e:  # noqa: BLE001
            ctx.violation(f"parse-raises/{placement}/{handler}/{bc.short_exc(e)}", f"{type(e).__name__}: {e}\n{doc[:800]}", w)
    if len(parsed) == 2:
        d = deep_eq(parsed["lxml"], parsed["native"])
        if d:
            ctx.violation(f"handlers-disagree/{placement}/{diff_tag(d)}", f"{d}\n{doc[:800]}", w)
    for handler, obj in parsed.items():
        # besides the plain configuration: a caller's prefix map that binds a namespace of the document as the *default* one only
        # (a qualified attribute still needs a real prefix; seeded change C11-r4-1) - chosen by the document, not by the rng
        uris = sorted(set(re.findall(r'xmlns(?::[\w.-]+)?="([^"]+)"', doc)) - {XSI, "http://www.w3.org/2001/XMLSchema"})
        plans = [(writer, None) for writer in bc.WRITERS]
        # not combined with xsi:type values: under a default-only map the writer spells them without a prefix (`xsi:type="a"`,
        # `xsi:type="int"`), which xsdata's own parser does not read back through the default namespace (observed on the
        # unchanged tree, DESIGN.md 11.6 round 4: open, kept out of this population rather than judged)
        if uris and handler == "native" and "xsi:type=" not in doc:
            plans += [(writer, [["", uris[len(doc) % len(uris)]]]) for writer in bc.WRITERS]  # bindcase convention: list of pairs, "" = default
        for writer, ns_map in plans:
            ctx.case(doc, placement, handler, writer, repr(ns_map))
            if ns_map:
                ctx.feature("render:ns_map-default-only")
            try:
                out = bc.render(None, obj, {"xml_declaration": False, "ns_map": ns_map} if ns_map else {"xml_declaration": False}, writer)
            except Exception as e:  # noqa: BLE001
                ctx.violation(f"serialize-raises/{placement}/{writer}/{bc.short_exc(e)}", f"{type(e).__name__}: {e}\n{doc[:600]}\n{obj!r}"[:1800], w)
                continue
            try:
                got = norm_infoset(xmlkit.infoset_of(out))
            except Exception as e:  # noqa: BLE001
                ctx.violation(f"output-not-well-formed/{placement}/{writer}", f"{e}\n{out[:800]}", w)
                continue
            if got != ref:
                ctx.violation(f"not-preserved/{placement}/{first_diff(ref, got)}", f"in : {doc[:700]}\nout: {out[:700]}\nobj: {obj!r}"[:2400], w)
                continue
            try:
                again = bc.strict_parser(handler).from_string(out, Host)
            except Exception as e:  # noqa: BLE001
                ctx.violation(f"reparse-raises/{placement}/{handler}/{bc.short_exc(e)}", f"{type(e).__name__}: {e}\n{out[:800]}", w)
                continue
            d = deep_eq(obj, again)
            if d:
                ctx.violation(f"no-fixpoint/{placement}/{diff_tag(d)}", f"{d}\nin : {doc[:600]}\nout: {out[:600]}", w)


def check_tree_parser(ctx, frag_xml):
    """Stand-alone TreeParser builds the same generic tree as the wildcard path."""
    from xsdata.formats.dataclass.parsers import TreeParser

    head = frag_xml.split(">", 1)[0]
    if "xsi:type" in head or "xsi:nil" in head:
        ctx.drop("top-level fragment with xsi:type/xsi:nil is bound to a typed value by the wildcard path (not a generic tree)")
        return

    doc = f"<Single>{frag_xml}</Single>"
    w = {"fn": "tree", "frag": frag_xml}
    for handler in bc.HANDLERS:
        ctx.case("tree-parser", frag_xml, handler)
        try:
            via_wild = bc.strict_parser(handler).from_string(doc, M.Single).any
            tp = TreeParser(handler=bc.handler_cls(handler)).from_string(frag_xml)
        except Exception as e:  # noqa: BLE001
            ctx.violation(f"tree-parser-raises/{handler}/{bc.short_exc(e)}", f"{type(e).__name__}: {e}\n{frag_xml[:600]}", w)
            continue
        d = deep_eq(via_wild, tp)
        if d:
            ctx.violation(f"tree-parser-differs/{handler}/{diff_tag(d)}", f"{d}\n{frag_xml[:600]}\nwild: {via_wild!r}\ntree: {tp!r}"[:2000], w)


def diff_tag(d):
    for k in (".tail", ".text", ".attributes", ".children", ".qname", "length"):
        if k in d:
            return k.strip(".")
    return "other"


def first_diff(a, b):
    if a[0] != b[0]:
        return "element-name"
    if a[1] != b[1]:
        return "attributes"
    if a[2] != b[2]:
        return "text"
    if len(a[3]) != len(b[3]):
        return "child-count"
    for (ka, ta), (kb, tb) in zip(a[3], b[3]):
        if ka != kb:
            return first_diff(ka, kb)
        if ta != tb:
            return "tail"
    return "other"


def replay(witness, ctx):
    if witness.get("fn") == "tree":
        check_tree_parser(ctx, witness["frag"])
    else:
        check(ctx, witness["placement"], witness["doc"], None, witness.get("label"))


def coverage_extra(coverage, tier):
    quick = tier == "quick"
    return {
        "exhaustive": False,
        "exhaustive_subspace": (
            "all fragment trees with <= 2 nodes over names {a,b} x ns {none,p} x attr {none,k} x text {'','t',' '} x tail {'','t'} and all 3-node trees over names {a} x ns {none,p} x attr {none,k} x text x tail, each in every applicable placement"
            if quick else
            "all fragment trees with <= 3 nodes over names {a,b} x ns {none,p} x attr {none,k} x text {'','t',' '} x tail {'','t'} and all 4-node trees over names {a} x ns {none,p} x attr {none} x text {'','t'} x tail {'','t'}, each in every applicable placement"
        ),
    }


def probe_prefixed_attribute_value():
    """<a ref="q:name"> with q in scope comes back as ref="{uri}name" (only xsi:type / XSD builtin names are re-prefixed)."""
    doc = f'<Many><a xmlns:q="{Q}" ref="q:name"/></Many>'
    obj = bc.strict_parser("native").from_string(doc, M.Many)
    out = bc.render(None, obj, {"xml_declaration": False}, "native")
    got = xmlkit.infoset_of(out).children[0]
    v = got.attrs.get("ref", "")
    pfx, _, loc = v.partition(":")
    preserved = loc == "name" and got.nsmap.get(pfx) == Q
    return (not preserved) and v == f"{{{Q}}}name"


def run_shard(ctx):
    rng = ctx.rng
    if ctx.shard == 0:
        ctx.evals()
        try:
            if probe_prefixed_attribute_value():
                ctx.known_finding("C11/prefixed-attribute-value-becomes-clark-notation")
        except Exception as e:  # noqa: BLE001
            ctx.inconc(f"probe failed to run: {e}")
    full = dict(names=["a", "b"], nss=[None, P], attrs=[(), ((None, "k", "v"),)], texts=["", "t", " "], tails=["", "t"])
    red3 = dict(names=["a"], nss=[None, P], attrs=[(), ((None, "k", "v"),)], texts=["", "t", " "], tails=["", "t"])
    red4 = dict(names=["a"], nss=[None, P], attrs=[()], texts=["", "t"], tails=["", "t"])
    plan = [(1, full), (2, full), (3, red3)] if ctx.quick() else [(1, full), (2, full), (3, full), (4, red4)]
    i = 0
    for n_nodes, alpha in plan:
        for tree in enumerate_trees(n_nodes, **alpha):
            i += 1
            if not ctx.mine(i):
                continue
            if ctx.quick() and n_nodes >= 3 and (i // ctx.nshards) % 3 != getattr(ctx, "seed", 0) % 3:
                continue  # quick tier: a third of the 3-node trees per seed, so that the random phase below always gets its turn
            ctx.feature(f"exhaustive:{n_nodes}-nodes")
            placements = ["Single", "Many", "Mixed", "Typed", "Local", "Target", "Other"]
            # every placement for <= 2 nodes; for larger ones rotate (each tree still sees all over the shards/seeds)
            if n_nodes >= 3:
                placements = [placements[(i // ctx.nshards + j) % len(placements)] for j in range(2)]
            for pl in placements:
                t = clone(tree)
                if pl == "Other":
                    retag(t, {None: Q})
                doc = host_document(pl, [t], lead_text=None)
                if doc is None:
                    continue
                ctx.feature(f"placement:{pl}")
                check(ctx, pl, doc, tree.key(), f"exhaustive-{n_nodes}")
            if n_nodes <= 2 or i % 5 == 0:
                check_tree_parser(ctx, to_xml(tree, {}))
    # random larger trees
    n = ctx.per_shard(ctx.pick(2500, 60000))
    min_d = MIN_DISTINCT[ctx.tier] // ctx.nshards + 1
    k = 0
    k_min = ctx.per_shard(ctx.pick(1000, 20000))  # the random phase never runs less than this, whatever the exhaustive phase took
    while k < n and (k < k_min or ctx.time_left() > 0 or len(ctx.fingerprints) < min_d):
        k += 1
        frags = [random_tree(rng, [rng.choice([3, 10, 30, 60])]) for _ in range(rng.choice([1, 1, 2, 3]))]
        pl = rng.choice(list(M.PLACEMENTS))
        if pl == "Mixed":
            for f in frags:
                f.tail = rng.choice(["", "tail", " t "])
        else:
            for f in frags:
                f.tail = ""
        if pl == "TwoWild":
            while len(frags) < 3:
                frags.append(random_tree(rng, [3]))
            cut = rng.randrange(0, len(frags) + 1)
            for j, f in enumerate(frags):
                f.ns, f.tail = (P if j < cut else None), ""
                if rng.random() < 0.6:
                    f.local = rng.choice(["a", "b"])  # the same local name in both namespaces
        if pl in ("Local", "Target", "Other"):
            want = {"Local": None, "Target": P, "Other": Q}[pl]
            for f in frags:
                f.ns = want
        doc = host_document(pl, frags, use_default=rng.random() < 0.3, lead_text=rng.choice([None, "lead ", "x"]) if pl == "Mixed" else None)
        if doc is None:
            continue
        ctx.feature(f"placement:{pl}", "random-tree")
        check(ctx, pl, doc, None, "random")
        if k % 4 == 0:
            check_tree_parser(ctx, to_xml(frags[0], {}, use_default=rng.random() < 0.3))
        if len(ctx.samples) < 3 and len(doc) > 200:
            ctx.sample({"placement": pl, "document": doc[:700]})


def retag(t, mapping):
    if t.ns in mapping:
        t.ns = mapping[t.ns]
