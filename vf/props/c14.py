"""C14 — parsers, serializers and the binding context are history-independent.

Monitor shapes: (1) two executions compared call by call: every operation of a sequence runs on
shared, already-used instances (one XmlContext + XML parsers for both handlers + XML serializers for
both writers + JSON/dict parser and serializer) and on freshly created ones; results (value,
exception class + normalised message, contents of caller-supplied ns_map dictionaries) must agree;
(2) shadow recomputation hooks on the real context: on every XmlContext.build cache hit the cached
metadata must equal metadata rebuilt from scratch for the same (class, parent namespace), find_types
must equal a brute-force scan, XmlVar.match_namespace's memo must equal recomputation. Sequences:
bounded-exhaustive (every sequence of length <= 3 over the operation pool) + random long ones.
"""

from __future__ import annotations

import itertools
import copy
from decimal import Decimal
import json
import random
import sys
import types
import threading
import warnings

from vf import bindcase as bc
from vf.props import c14_models as M
from vf.xmlkit import deep_eq

ID = "C14"
LEVEL = "exploration"
RULE = (
    "case = a sequence of operations (parse/serialize/decode/encode, succeeding or failing, over a pool of 58 operations on "
    "models that share classes between roles) applied to shared instances, each step compared with the same operation on fresh "
    "instances and with its outcome in a forked process that has performed nothing else (process-wide state). Every sequence of length <= 3 over the pool is enumerated (quick: a deterministic 1/8 slice per seed of the length-3 "
    "sequences, complete for lengths 1-2; thorough: complete), plus seeded random sequences of length 10-60 including module loads "
    "in mid-sequence. Non-trivial = sequence length >= 2; distinct = distinct operation sequences."
)
ASSUMPTIONS = [
    "parser.ns_map (instance attribute) is documented state, only caller-supplied ns_map arguments are compared",
    "process-wide pure lru_caches and the converter registry are shared by 'fresh' instances too: drift in them is observed against per-operation baselines taken in forked children before the shard ran anything",
    "classes without Meta.namespace used under parents with different namespaces are the open known finding (dedicated probe), not part of the pool",
    "modules are only added during a sequence (the index is refreshed when len(sys.modules) changes)",
]
MIN_DISTINCT = {"quick": 2500, "thorough": 45000}
TIME = {"quick": 45, "thorough": 600}
REQUIRED_HOOKS = ("XmlContext.build:cache-hit-equals-rebuild", "XmlContext.find_types:equals-brute-force", "XmlVar.match_namespace:memo-equals-recompute")

_ctx = None
_hooked = False
_hook_violations = []
FIND_TYPES_SAMPLE = [1]  # C19 raises this: the brute-force scan walks every loaded class


class ShadowMismatch(Exception):
    pass


def install_hooks(ctx):
    global _ctx, _hooked
    _ctx = ctx
    if _hooked:
        return
    _hooked = True
    from xsdata.formats.dataclass import context as cmod
    from xsdata.formats.dataclass.models import elements

    XC = cmod.XmlContext
    orig_build = XC.build
    counter = [0]

    def build(self, clazz, parent_ns=None, globalns=None):
        hit = clazz in self.cache
        meta = orig_build(self, clazz, parent_ns, globalns)
        if hit:
            counter[0] += 1
            if counter[0] % 7 == 0:
                _ctx.hook("XmlContext.build:cache-hit-equals-rebuild")
                fresh = self.get_builder(globalns).build(clazz, parent_ns)
                if not meta_equal(meta, fresh):
                    _hook_violations.append(("cache-entry-differs-from-rebuild", f"{clazz.__qualname__} parent_ns={parent_ns!r}: cached qname {meta.qname!r} elements {sorted(meta.elements)} vs rebuilt qname {fresh.qname!r} elements {sorted(fresh.elements)}"))
        return meta

    XC.build = build
    orig_find = XC.find_types

    fcount = [0]

    def find_types(self, qname):
        res = orig_find(self, qname)
        fcount[0] += 1
        if fcount[0] % FIND_TYPES_SAMPLE[0]:
            return res
        _ctx.hook("XmlContext.find_types:equals-brute-force")
        from xsdata.models.enums import DataType

        if DataType.from_qname(qname) is None:
            builder = self.get_builder()
            brute = []
            for c in self.get_subclasses(object):
                if self.is_binding_model(c):
                    try:
                        if builder.build_class_meta(c).target_qname == qname:
                            brute.append(c)
                    except Exception:  # noqa: BLE001
                        pass
            if set(res) != set(brute):
                _hook_violations.append(("type-index-stale", f"find_types({qname!r}) = {[c.__qualname__ for c in res]} but a scan of the loaded classes gives {[c.__qualname__ for c in brute]}"))
        return res

    XC.find_types = find_types
    XV = elements.XmlVar
    orig_match = XV.match_namespace

    def match_namespace(self, qname):
        r = orig_match(self, qname)
        try:  # the same question put to a copy of the var that has no memo yet
            fresh = copy.copy(self)
            fresh.namespace_matches = None
        except Exception:  # noqa: BLE001  (memo attribute renamed: hook not evaluated -> inconclusive)
            return r
        r2 = orig_match(fresh, qname)
        _ctx.hook("XmlVar.match_namespace:memo-equals-recompute")
        if r != r2:
            _hook_violations.append(("namespace-match-memo-stale", f"{self.name}.match_namespace({qname!r}) memo {r} != recomputed {r2}"))
        return r

    XV.match_namespace = match_namespace
    from vf import sched

    sched.WRAPPED_ORIGINALS += [orig_build, orig_find, orig_match]


def meta_equal(a, b):
    try:
        return meta_sig(a) == meta_sig(b)
    except Exception:  # noqa: BLE001
        return False


def var_sig(v):
    return (v.name, v.qname, v.wrapper_qname, tuple(t.__qualname__ for t in v.types), v.namespaces, v.nillable, v.required, v.tokens, v.sequence, v.mixed,
            tuple(sorted((k, var_sig(x)) for k, x in v.elements.items())), tuple(var_sig(x) for x in v.wildcards))


def meta_sig(m):
    return (m.clazz, m.qname, m.target_qname, m.nillable, var_sig(m.text) if m.text else None, tuple(var_sig(x) for x in m.choices),
            tuple(sorted((k, tuple(var_sig(x) for x in vs)) for k, vs in m.elements.items())), tuple(var_sig(x) for x in m.wildcards),
            tuple(sorted((k, var_sig(x)) for k, x in m.attributes.items())), tuple(var_sig(x) for x in m.any_attributes), tuple(sorted(m.wrappers.items())))


# ----------------------------------------------------------------------------- instances
class Instances:
    def __init__(self):
        from xsdata.formats.dataclass.context import XmlContext
        from xsdata.formats.dataclass.parsers import DictDecoder, JsonParser, XmlParser
        from xsdata.formats.dataclass.serializers import DictEncoder, JsonSerializer, XmlSerializer
        from xsdata.formats.dataclass.serializers.config import SerializerConfig

        self.context = XmlContext()
        self.parsers = {h: XmlParser(context=self.context, handler=bc.handler_cls(h)) for h in bc.HANDLERS}
        self.serializers = {w: XmlSerializer(context=self.context, writer=bc.writer_cls(w), config=SerializerConfig(xml_declaration=False)) for w in bc.WRITERS}
        self.json_parser = JsonParser(context=self.context)
        self.json_serializer = JsonSerializer(context=self.context)
        self.decoder = DictDecoder(context=self.context)
        self.encoder = DictEncoder(context=self.context)


I, W = M.NS_I, M.NS_W
XSI = "http://www.w3.org/2001/XMLSchema-instance"
DOCS = {
    "item": f'<i:item xmlns:i="{I}" id="1"><i:note>n</i:note></i:item>',
    "item-default-ns": f'<item xmlns="{I}" id="2"/>',
    "itemext": f'<i:itemExt xmlns:i="{I}" id="3"><i:note>x</i:note><i:extra>7</i:extra></i:itemExt>',
    "box-plain": f'<i:box xmlns:i="{I}" label="l"><i:item id="4"/><i:more id="5"/><i:more id="6"><i:note>m</i:note></i:more></i:box>',
    "box-xsi": f'<i:box xmlns:i="{I}" xmlns:xsi="{XSI}"><i:item xsi:type="i:itemExt" id="7"><i:extra>1</i:extra></i:item></i:box>',
    "box-xsi-list": f'<b:box xmlns:b="{I}" xmlns:xsi="{XSI}"><b:more id="8"/><b:more xsi:type="b:itemExt" id="9"><b:extra>2</b:extra></b:more></b:box>',
    "box-unknown-xsi": f'<i:box xmlns:i="{I}" xmlns:xsi="{XSI}"><i:item xsi:type="i:nope" id="7"/></i:box>',
    "box-unknown-prop": f'<i:box xmlns:i="{I}"><i:unknown/></i:box>',
    "wild-1": f'<w:wild xmlns:w="{W}" xmlns:f="urn:vf:c14:f" k="v" f:k="w"><f:a>1</f:a><b>2</b></w:wild>',
    "wild-2": f'<w:wild xmlns:w="{W}" xmlns:g="urn:vf:c14:g"><g:a><g:b/>t</g:a><g:c g:k="1"/></w:wild>',
    "wild-own-ns": f'<w:wild xmlns:w="{W}"><w:a/></w:wild>',
    "wild-item": f'<w:wild xmlns:w="{W}" xmlns:i="{I}"><i:item id="10"/></w:wild>',
    "item-xsi-root": f'<w:item xmlns:w="{I}" xmlns:xsi="{XSI}" xsi:type="w:itemExt" id="11"><w:extra>3</w:extra></w:item>',
    "item-xsi-root-g": f'<g:item xmlns:g="{I}" xmlns:xsi="{XSI}" xsi:type="g:itemExt" id="12"/>',
    "mix": f'<i:mix xmlns:i="{I}" xmlns:o="urn:vf:c14:o"><i:first>x</i:first><i:a>7</i:a><i:b>s</i:b><i:price currency="USD">1.50</i:price><o:z/><i:last>9</i:last></i:mix>',
    "price": f'<i:price xmlns:i="{I}" currency="EUR">2.25</i:price>',
    "pet-dog": "<pet><animal><bark>woof</bark><name>rex</name></animal><tag>1</tag></pet>",
    "pet-cat-bad-tag": "<pet><animal><lives>9</lives></animal><tag>many</tag></pet>",
    "typed-reading": "<typedReading><value>21.5</value></typedReading>",
    "nums": "<nums><a>1</a><b>2.5</b><t>1 2 3</t></nums>",
    "nums-bad": "<nums><a>x</a></nums>",
    "nums-missing": "<nums><b>1.0</b></nums>",
    "malformed": "<nums><a>1</a>",
    "empty": "",
}
JSONS = {
    "box": {"item": {"id": 1, "note": "n"}, "more": [{"id": 2, "note": None}], "label": "l"},
    "item": {"id": 5, "note": "x"},
    "nums": {"a": 1, "b": 2.5, "t": [1, 2]},
    "nums-unknown-key": {"a": 1, "zzz": 1},
    "nums-bad": {"a": "x"},
    "prefs": {"host": "h", "port": 1},
    "pet-dog": {"animal": {"bark": "woof", "name": "rex"}, "tag": 1},
    "pet-cat-bad-tag": {"animal": {"lives": 9}, "tag": "many"},
}


def objects():
    return {
        "item": M.Item(id=1, note="n"),
        "itemext": M.ItemExt(id=2, note=None, extra=5),
        "box-derived": M.Box(item=M.ItemExt(id=3, extra=1), items=[M.Item(id=4), M.ItemExt(id=5)], label="x"),
        "box-empty": M.Box(),
        "wild": M.Wild(attrs={"k": "v", "{urn:vf:c14:f}k": "w"}),
        "nums": M.Nums(a=1, b=float("inf"), t=[1, 2]),
        "not-a-model": object(),
        "mix": M.Mix(first="x", choice=[7, "s", 8], price=M.Price(value=Decimal("1.50"), currency="USD"), last=9),
        "price": M.Price(value=Decimal("2.25"), currency="EUR"),
        "pet": M.Pet(animal=M.Dog(bark="woof"), tag=2),
        "reading-subclass-value": M.Reading(value=M.Celsius(21.5), unit="C"),
    }


CLASSES = {"Pet": M.Pet, "Reading": M.Reading, "TypedReading": M.TypedReading, "Item": M.Item, "ItemExt": M.ItemExt, "Box": M.Box, "Wild": M.Wild, "Nums": M.Nums, "Mix": M.Mix, "Price": M.Price, None: None}
OPS = []
for _doc, _cls in [("item", "Item"), ("item", None), ("item-default-ns", "Item"), ("itemext", "ItemExt"), ("itemext", "Item"), ("itemext", None), ("box-plain", "Box"), ("box-xsi", "Box"),
                   ("box-xsi-list", "Box"), ("box-xsi-list", None), ("box-unknown-xsi", "Box"), ("box-unknown-prop", "Box"), ("wild-1", "Wild"), ("wild-2", "Wild"), ("wild-own-ns", "Wild"),
                   ("wild-item", "Wild"), ("nums", "Nums"), ("nums-bad", "Nums"), ("nums-missing", "Nums"), ("malformed", "Nums"), ("item", "Nums"), ("empty", "Item")]:
    OPS.append(("parse", _doc, _cls, "lxml" if len(OPS) % 2 else "native", len(OPS) % 3 == 0))
for _o in ["item", "itemext", "box-derived", "box-empty", "wild", "nums", "not-a-model"]:
    OPS.append(("serialize", _o, "lxml" if len(OPS) % 2 else "native", len(OPS) % 2 == 0))
# reused parser whose earlier document bound the same prefix to another namespace (w -> NS_W in wild-*, g -> urn:vf:c14:g in wild-2)
OPS += [("parse", "item-xsi-root", "Item", "native", False), ("parse", "item-xsi-root", "Item", "lxml", False), ("parse", "item-xsi-root-g", "Item", "native", True),
        ("parse", "mix", "Mix", "native", False), ("parse", "price", None, "lxml", False),
        ("serialize", "mix", "native", False), ("serialize", "mix", "lxml", False), ("serialize", "price", "native", False), ("encode", "mix", False)]
for _j, _cls in [("box", "Box"), ("item", "Item"), ("item", None), ("nums", "Nums"), ("nums-unknown-key", "Nums"), ("nums-bad", "Nums"), ("nums", "Box")]:
    OPS.append(("decode", _j, _cls, len(OPS) % 2 == 0))
for _o in ["box-derived", "nums", "item"]:
    OPS.append(("encode", _o, len(OPS) % 2 == 0))
# candidate trials of a union-of-classes field (strict private config) next to lenient conversions on the same instances;
# a value whose class is an unregistered subclass of a supported type next to a model that declares that subclass as a field type
OPS += [("parse", "pet-dog", "Pet", "native", False), ("parse", "pet-cat-bad-tag", "Pet", "lxml", False), ("decode", "pet-dog", "Pet", False), ("decode", "pet-cat-bad-tag", "Pet", True),
        ("serialize", "pet", "native", False), ("serialize", "reading-subclass-value", "lxml", False), ("encode", "reading-subclass-value", True), ("parse", "typed-reading", "TypedReading", "native", False)]
# a class located by its keys while the index still lists an unsupported dataclass of the same name in front of it
OPS += [("decode", "prefs", None, False), ("decode", "prefs", None, True)]
LATE_OPS = [("load-late",), ("parse-late",), ("decode-late",), ("parse-twin",)]


def normalise_exc(e):
    import re

    msg = re.sub(r"0x[0-9a-f]+", "0x..", str(e))
    return (type(e).__name__, msg[:300])


_late_counter = [0]


_tls = threading.local()
THREAD_SAFE_WARNINGS = [False]


def thread_safe_warnings():
    """warnings.catch_warnings swaps process-global state and is not usable from concurrent threads (two
    overlapping recorders steal each other's warnings): C19 installs one process-wide recorder that files
    each warning under the thread that raised it."""
    if THREAD_SAFE_WARNINGS[0]:
        return
    THREAD_SAFE_WARNINGS[0] = True
    warnings.simplefilter("always")

    def record(message, category, filename, lineno, file=None, line=None):
        rec = getattr(_tls, "rec", None)
        if rec is not None:
            rec.append(category)

    warnings.showwarning = record


class _ThreadRecorder:
    def __enter__(self):
        _tls.rec = []
        return _tls.rec

    def __exit__(self, *exc):
        _tls.rec = None
        return False


def _recorder():
    if THREAD_SAFE_WARNINGS[0]:
        return _ThreadRecorder()
    return warnings.catch_warnings(record=True)


def run_op(inst: Instances, op, objs, late_state):
    """-> outcome tuple comparable across executions."""
    kind = op[0]
    with _recorder() as rec:
        if not THREAD_SAFE_WARNINGS[0]:
            warnings.simplefilter("always")
        try:
            if kind == "parse":
                _, doc, cls, handler, with_map = op
                ns_map = {} if with_map else None
                res = inst.parsers[handler].from_string(DOCS[doc], CLASSES[cls], ns_map=ns_map)
                out = ("ok", res, dict(ns_map) if ns_map is not None else None)
            elif kind == "serialize":
                _, name, writer, with_map = op
                ns_map = {"p": I, None: W} if with_map else None
                res = inst.serializers[writer].render(objs[name], ns_map=ns_map)
                out = ("ok", res, dict(ns_map) if ns_map is not None else None)
            elif kind == "decode":
                _, name, cls, via_json = op
                if via_json:
                    res = inst.json_parser.from_string(json.dumps(JSONS[name]), CLASSES[cls])
                else:
                    res = inst.decoder.decode(json.loads(json.dumps(JSONS[name])), CLASSES[cls])
                out = ("ok", res, None)
            elif kind == "encode":
                _, name, via_json = op
                res = inst.json_serializer.render(objs[name]) if via_json else inst.encoder.encode(objs[name])
                out = ("ok", res, None)
            elif kind == "parse-late":
                n = late_state["n"]
                doc = f'<l:late{n} xmlns:l="urn:vf:c14:late"><l:x>1</l:x></l:late{n}>'
                res = inst.parsers["native"].from_string(doc)
                out = ("ok", (type(res).__name__, res.x), None)
            elif kind == "parse-twin":
                res = inst.parsers["lxml"].from_string('<l:twin xmlns:l="urn:vf:c14:late"/>')
                out = ("ok", (type(res).__name__, res.gen), None)
            elif kind == "decode-late":
                n = late_state["n"]
                res = inst.decoder.decode({"x": 1, f"only_late{n}": "s"})
                out = ("ok", (type(res).__name__, res.x), None)
            else:
                raise KeyError(kind)
        except Exception as e:  # noqa: BLE001
            out = ("exc",) + normalise_exc(e)
    return out + (len(rec),)


def load_late(late_state):
    _late_counter[0] += 1
    n = f"{late_state['salt']}x{_late_counter[0]}"
    name = f"vf_c14_late_{n}"
    mod = types.ModuleType(name)
    sys.modules[name] = mod
    exec(compile(M.LATE_SOURCE.format(n=n), f"<{name}>", "exec"), mod.__dict__)  # noqa: S102
    late_state["n"] = n
    late_state["mods"].append(name)


PRISTINE = {}


def pristine_outcomes(ops):
    """Outcome of each pool operation in a process that has performed no other operation: one forked
    child per operation, forked before this process ran anything. Fresh instances created later in this
    process still share its process-wide state (converter registry, lru_caches on the qname helpers,
    class-level memos), so comparing a used instance with a fresh one cannot see that state drift; this can."""
    import os
    import pickle

    out = {}
    for op in ops:
        r, w = os.pipe()
        pid = os.fork()
        if pid == 0:
            code = 0
            try:
                os.close(r)
                res = run_op(Instances(), op, objects(), {"n": None})
                with os.fdopen(w, "wb") as f:
                    f.write(pickle.dumps(res))
            except BaseException:  # noqa: BLE001
                code = 3
            finally:
                os._exit(code)
        os.close(w)
        with os.fdopen(r, "rb") as f:
            data = f.read()
        os.waitpid(pid, 0)
        try:
            out[op] = pickle.loads(data) if data else None
        except Exception:  # noqa: BLE001
            out[op] = None
    return out


def same_outcome(a, b):
    if a[0] != b[0]:
        return f"{a[0]} vs {b[0]}: {str(a[1:3])[:200]} vs {str(b[1:3])[:200]}"
    if a[0] == "exc":
        return None if a[1:3] == b[1:3] else f"exception differs: {a[1:3]} vs {b[1:3]}"
    d = deep_eq(a[1], b[1])
    if d:
        return f"result differs: {d}"
    if a[2] != b[2]:
        return f"caller-supplied ns_map differs: {a[2]} vs {b[2]}"
    if a[3] != b[3]:
        return f"number of warnings differs: {a[3]} vs {b[3]}"
    return None


def run_sequence(ctx, seq, label):
    objs = objects()
    shared = Instances()
    late_state = {"salt": f"s{ctx.shard}", "n": None, "mods": []}
    del _hook_violations[:]
    w = {"fn": "sequence", "seq": [list(o) for o in seq]}
    ctx.case(tuple(seq), nontrivial=len(seq) >= 2)
    try:
        for step, op in enumerate(seq):
            if op[0] == "load-late":
                load_late(late_state)
                ctx.feature("op:load-late-module")
                continue
            if op[0] in ("parse-late", "decode-late", "parse-twin") and late_state["n"] is None:
                continue
            ctx.feature(f"op:{op[0]}")
            got = run_op(shared, op, objs, late_state)
            fresh = run_op(Instances(), op, objs, late_state)
            ctx.evals()
            d = same_outcome(fresh, got)
            if d:
                ctx.violation(f"history-dependent/{op[0]}/{op[1] if len(op) > 1 else ''}/{d.split(':')[0]}", f"step {step} of {[o[:3] for o in seq]}: fresh vs shared: {d}", w)
                break
            if PRISTINE.get(op) is not None:
                ctx.hook("pristine-process-comparison")
                d = same_outcome(PRISTINE[op], got)
                if d:
                    ctx.violation(f"history-dependent/process-wide/{op[0]}/{op[1] if len(op) > 1 else ''}/{d.split(':')[0]}",
                                  f"step {step} of {[o[:3] for o in seq]}: in a process that has done nothing else vs here on shared instances (fresh instances in this process agree with the shared ones: the state is process-wide): {d}", w)
                    break
            if _hook_violations:
                k, msg = _hook_violations[0]
                ctx.violation(f"hook/{k}", f"after step {step} of {[o[:3] for o in seq]}: {msg}", w)
                break
    finally:
        for name in late_state["mods"]:
            sys.modules.pop(name, None)


def probe_meta_cache_keyed_by_class():
    """Known finding: a class without Meta.namespace inherits the namespace of whatever parent is
    serialized first; a shared context then renders/parses it differently from a fresh one."""
    from xsdata.formats.dataclass.context import XmlContext
    from xsdata.formats.dataclass.serializers import XmlSerializer
    from xsdata.formats.dataclass.serializers.config import SerializerConfig

    cfg = SerializerConfig(xml_declaration=False)
    shared = XmlSerializer(context=XmlContext(), config=cfg)
    shared.render(M.ParentA(s=M.Shared(v="x")))
    via_shared = shared.render(M.ParentB(s=M.Shared(v="x")))
    via_fresh = XmlSerializer(context=XmlContext(), config=cfg).render(M.ParentB(s=M.Shared(v="x")))
    counterfactual = XmlSerializer(context=XmlContext(), config=cfg)
    counterfactual.render(M.ParentB(s=M.Shared(v="y")))
    same_ns_history = counterfactual.render(M.ParentB(s=M.Shared(v="x")))
    return via_shared != via_fresh and same_ns_history == via_fresh


def replay(witness, ctx):
    install_hooks(ctx)
    run_sequence(ctx, [tuple(o) for o in witness["seq"]], "replay")


def coverage_extra(coverage, tier):
    return {"exhaustive": False, "exhaustive_subspace": "all operation sequences of length 1 and 2 over the pool" + ("" if tier == "quick" else " and all of length 3"), "pool_size": len(OPS)}


def run_shard(ctx):
    install_hooks(ctx)
    rng = ctx.rng
    PRISTINE.update(pristine_outcomes(OPS))
    ctx.extra["pristine_baselines"] = sum(1 for v in PRISTINE.values() if v is not None)
    if ctx.shard == 0:
        ctx.evals()
        try:
            _h, _c = list(_hook_violations), _ctx
            if probe_meta_cache_keyed_by_class():
                ctx.known_finding("C14/meta-cache-keyed-by-class")
            del _hook_violations[:]
        except Exception as e:  # noqa: BLE001
            ctx.inconc(f"probe failed to run: {e}")
    i = 0
    for n in (1, 2, 3):
        for seq in itertools.product(OPS, repeat=n):
            i += 1
            if not ctx.mine(i):
                continue
            if n == 3 and ctx.quick() and (i // ctx.nshards + ctx.seed) % 8 != 0:
                continue
            run_sequence(ctx, list(seq), f"exhaustive-{n}")
    # modules loaded mid-sequence: every sequence over the late operations up to length 5
    for n in (2, 3, 4, 5):
        for seq in itertools.product(LATE_OPS, repeat=n):
            i += 1
            if ctx.mine(i) and seq[0] == ("load-late",) and seq.count(("load-late",)) >= (1 if n < 4 else 2):
                run_sequence(ctx, list(seq), f"late-{n}")
    n_random = ctx.per_shard(ctx.pick(300, 8000))
    for _ in range(n_random):
        if ctx.time_left() < 0 and len(ctx.fingerprints) > MIN_DISTINCT[ctx.tier] // ctx.nshards:
            break
        length = rng.randrange(10, 61)
        seq = [rng.choice(OPS + LATE_OPS * 2) for _ in range(length)]
        run_sequence(ctx, seq, "random")
    ctx.sample({"sequence": [list(o) for o in OPS[:3]], "meaning": "each step runs on shared instances and on fresh ones; outcomes must agree"})
    ctx.sample({"pool": [list(o) for o in OPS]})
